"""Runs the repository's pinned test suite in <repo> (default /repo) and reports which of the
319 stable-pass tests of /root/.vp/BASELINE.json do not pass.  Exit 0 iff all pass."""
import json, os, subprocess, sys, tempfile
import xml.etree.ElementTree as ET
repo = sys.argv[1] if len(sys.argv) > 1 else '/repo'
base = json.load(open('/root/.vp/BASELINE.json'))
out = tempfile.mktemp(suffix='.xml', dir='/verif/build' if os.path.isdir('/verif/build') else None)
env = dict(os.environ, PYTHONPATH=repo, PYTHONDONTWRITEBYTECODE='1')
env.pop('PENNYLANEAI_DIASTATIC_MALT_VERIF', None)
subprocess.run(['/venv/bin/python', '-m', 'pytest', '-ra', '-q', '-p', 'no:cacheprovider', '--timeout=900',
                '--continue-on-collection-errors', '--junitxml=' + out], cwd=repo, env=env,
               stdout=subprocess.DEVNULL, stderr=subprocess.DEVNULL)
passed = set()
for tc in ET.parse(out).getroot().iter('testcase'):
    if not any(c.tag in ('failure', 'error', 'skipped') for c in tc):
        passed.add('%s::%s' % (tc.get('classname'), tc.get('name')))
os.remove(out)
missing = [t for t in base['stable_pass'] if t not in passed]
print('stable-pass tests passing: %d/%d' % (len(base['stable_pass']) - len(missing), len(base['stable_pass'])))
for m in missing:
    print('NOT PASSING:', m)
sys.exit(1 if missing else 0)
