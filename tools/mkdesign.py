"""Regenerate the tables 11.1 - 11.4 at the end of DESIGN.md from the tree: obligation files, known_findings.json,
seeded/*/meta.json.  Everything from the line `### 11.1` to the end of the file is replaced."""
import json, os, re

ROOT = os.path.dirname(os.path.dirname(os.path.abspath(__file__)))
out = []
out.append('### 11.1 Obligations per property (read from coq/Properties on this commit)\n')
pd = os.path.join(ROOT, 'coq', 'Properties')
for pid in sorted(os.listdir(pd)):
    d = os.path.join(pd, pid)
    if not os.path.isdir(d):
        continue
    files = sorted(f for f in os.listdir(d) if f.endswith('.v'))
    names = []
    for f in files:
        for m in re.finditer(r'^\s*(?:Theorem|Corollary)\s+([A-Za-z0-9_\']+)', open(os.path.join(d, f)).read(), re.M):
            names.append(m.group(1))
    out.append('* **%s** (%d files): %s' % (pid, len(files), ', '.join('`%s`' % n for n in names)))
kf = json.load(open(os.path.join(ROOT, 'known_findings.json')))
out.append('\n### 11.2 Defects of /repo repaired (`fix:` commits)\n')
for s in kf.get('fixed', []):
    out.append('* ' + (s if len(s) < 420 else s[:420] + ' ...'))
out.append('\n### 11.3 Known findings (recorded, not repaired)\n')
for f in kf['findings']:
    w = f['what']
    out.append('* **%s** `%s`: %s' % (f['property'], f['id'], w if len(w) < 330 else w[:330] + ' ...'))
out.append('\n### 11.4 Independently seeded changes and which checks catch them\n')
out.append('Each row is a change written by a sub-agent that saw only the property text and a scratch worktree; it compiles, '
           'passes the 319 baseline tests, and its demo fails only on the patched tree.  "now" is the outcome of '
           '`tools/reseed.py` (all stored patches re-run against the checks of this commit); "when seeded" is the outcome '
           'when the seed was first validated, before any strengthening.\n')
out.append('| seed | change | when seeded | now |')
out.append('|---|---|---|---|')
sd = os.path.join(ROOT, 'seeded')
for nm in sorted(os.listdir(sd)):
    mp = os.path.join(sd, nm, 'meta.json')
    if not os.path.exists(mp):
        continue
    m = json.load(open(mp))
    notes = m.get('needs_to_manifest', '')
    lines = [l.strip() for l in notes.split('\n') if l.strip() and not l.startswith('#')]
    desc = ' '.join(lines)[:260].replace('|', '/')

    def kind(c):
        if c.get('exit') == 1 and c.get('violation_lines'):
            return 'no-input' if all(l.rstrip().endswith('no-failing-input-found') for l in c['violation_lines']) else 'failing input'
        return 'missed'
    first = ', '.join('%s: %s' % (p, kind(c)) for p, c in sorted(m.get('what_i_ran', {}).get('checks', {}).items()))
    rc = m.get('recheck', {})
    now = rc.get('error') or ', '.join('%s: %s' % (p, {'concrete failing input': 'failing input', 'no-failing-input-found': 'no-input'}.get(c['kind'], c['kind']))
                                       for p, c in sorted(rc.get('checks', {}).items())) or '-'
    out.append('| %s | %s | %s | %s |' % (nm, desc, first, now))
p = os.path.join(ROOT, 'DESIGN.md')
s = open(p).read()
i = s.index('### 11.1 ')
open(p, 'w').write(s[:i] + '\n'.join(out) + '\n')
print('DESIGN.md tables regenerated')
