"""Validate a seeded change produced by an independent sub-agent and record it under /verif/seeded/.
usage: seedcheck.py <ID> <tag> [other property ids to run as well]
Steps: scratch worktree + patch; demo passes on /repo and fails on the patched tree; the 319 stable-pass
tests still pass with the patch; run bin/check <ID> against the patched tree; clean up."""
import json, os, shutil, subprocess, sys, time
pid, tag = sys.argv[1], sys.argv[2]
extra = sys.argv[3:]
src = '/tmp/seeded-%s-%s' % (pid, tag)
wt = '/tmp/seedchk-%s-%s' % (pid, tag)
res = {'property': pid, 'tag': tag}


def sh(cmd, env=None, timeout=3600):
    e = dict(os.environ)
    if env:
        e.update(env)
    p = subprocess.run(cmd, shell=True, stdout=subprocess.PIPE, stderr=subprocess.STDOUT, text=True, env=e, timeout=timeout)
    return p.returncode, p.stdout


sh('git -C /repo worktree remove --force %s' % wt)
rc, out = sh('git -C /repo worktree add -q %s HEAD && git -C %s apply %s/patch.diff' % (wt, wt, src))
if rc != 0:
    print('PATCH DOES NOT APPLY:', out[-500:])
    sys.exit(2)
try:
    rc0, out0 = sh('/venv/bin/python %s/demo.py' % src, {'REPO': '/repo', 'PYTHONPATH': '/repo'}, 900)
    rc1, out1 = sh('/venv/bin/python %s/demo.py' % src, {'REPO': wt, 'PYTHONPATH': wt}, 900)
    res['demo_unchanged_exit'] = rc0
    res['demo_patched_exit'] = rc1
    rcb, outb = sh('/venv/bin/python /verif/tools/baseline_check.py %s' % wt)
    res['baseline_with_patch'] = outb.strip().split('\n')[0]
    res['baseline_ok'] = (rcb == 0)
    res['checks'] = {}
    for p in [pid] + extra:
        t0 = time.time()
        rcc, outc = sh('cd /verif && VERIF_REPO=%s bin/check %s' % (wt, p), timeout=3000)
        lines = [l for l in outc.split('\n') if l.startswith('VIOLATION')]
        res['checks'][p] = {'exit': rcc, 'violation_lines': lines[:4], 'seconds': round(time.time() - t0)}
        rep = None
        for l in lines:
            if 'replay=' in l:
                rep = l.split('replay=')[1].split()[0]
                break
        if rep and os.path.exists(rep):
            try:
                res['checks'][p]['replay_title'] = json.load(open(rep))['title'][:300]
            except Exception:
                pass
finally:
    sh('git -C /repo worktree remove --force %s' % wt)
    for p in [pid] + extra:
        sh('cd /verif && bin/check %s' % p, timeout=3000)    # regenerate against /repo
caught = any(c['exit'] == 1 and c['violation_lines'] for c in res['checks'].values())
valid = res['demo_unchanged_exit'] == 0 and res['demo_patched_exit'] == 1 and res['baseline_ok']
res['valid_seed'] = valid
res['caught'] = caught
print(json.dumps(res, indent=1))
if valid:
    dst = '/verif/seeded/%s-%s' % (pid, tag)
    os.makedirs(dst, exist_ok=True)
    for f in ('patch.diff', 'demo.py', 'NOTES.md'):
        if os.path.exists(os.path.join(src, f)):
            shutil.copy(os.path.join(src, f), dst)
    notes = open(os.path.join(src, 'NOTES.md')).read() if os.path.exists(os.path.join(src, 'NOTES.md')) else ''
    json.dump({'breaks_property': pid, 'needs_to_manifest': notes[:1500], 'what_i_ran': res,
               'caught_by': [p for p, c in res['checks'].items() if c['exit'] == 1 and c['violation_lines']]},
              open(os.path.join(dst, 'meta.json'), 'w'), indent=1)
