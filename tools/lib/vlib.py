"""Shared machinery of the verification framework (see DESIGN.md section 2).

Everything a per-property driver (tools/props/cXX.py) needs:
  * paths and the environment used to run the implementation from /repo
  * regenerating G-files (write_if_changed), building the Coq development
    (coq_make, under a file lock), compiling obligation files one by one and
    reading `Print Assumptions` (check_obligations)
  * evaluating the executable model inside Coq on harness-written cases
    (coq_eval / coq_failing_cases)
  * the verdict protocol: VIOLATION / KNOWN-FINDING lines, replay files,
    evidence files (class Run)
"""
import fcntl
import hashlib
import json
import os
import re
import subprocess
import sys
import time
from concurrent.futures import ThreadPoolExecutor

ROOT = os.path.dirname(os.path.dirname(os.path.dirname(os.path.abspath(__file__))))
COQ = os.path.join(ROOT, 'coq')
BUILD = os.path.join(ROOT, 'build')
EVIDENCE = os.path.join(ROOT, 'evidence')
REPLAYS = os.path.join(ROOT, 'replays')
REPO = os.environ.get('VERIF_REPO', '/repo')
PY = '/venv/bin/python'
GUARD = 'PENNYLANEAI_DIASTATIC_MALT_VERIF'

COQ_FLAGS = ['-R', '.', 'MV']

ALLOWED_AXIOMS = set()   # the development is axiom-free; see DESIGN.md section 5

BANNED = re.compile(
    r'\b(Admitted|admit|Axiom|Axioms|Parameter|Parameters|Conjecture|Hypothesis|Variable|Variables|Hypotheses)\b'
    r'|Unset\s+Guard|bypass_check|type-in-type|impredicative-set|Admit\s+Obligations|Unset\s+Positivity|Unset\s+Universe')


def repo_env(extra=None):
    env = dict(os.environ)
    env['PYTHONPATH'] = REPO
    env.setdefault('PYTHONHASHSEED', '0')
    env[GUARD] = '1'
    env['PYTHONDONTWRITEBYTECODE'] = '1'
    if extra:
        env.update(extra)
    return env


def ensure_dir(d):
    os.makedirs(d, exist_ok=True)
    return d


def write_if_changed(path, text):
    """Write text to path unless it already holds exactly that (keeps mtimes so
    that make does not rebuild dependents of an unchanged generated file)."""
    ensure_dir(os.path.dirname(path))
    try:
        with open(path) as f:
            if f.read() == text:
                return False
    except OSError:
        pass
    tmp = path + '.tmp%d' % os.getpid()
    with open(tmp, 'w') as f:
        f.write(text)
    os.replace(tmp, path)
    return True


class _Lock(object):
    def __init__(self, name='coq'):
        ensure_dir(BUILD)
        self.path = os.path.join(BUILD, '.%s.lock' % name)

    def __enter__(self):
        self.f = open(self.path, 'w')
        fcntl.flock(self.f, fcntl.LOCK_EX)
        return self

    def __exit__(self, *a):
        fcntl.flock(self.f, fcntl.LOCK_UN)
        self.f.close()


def sh(cmd, timeout=600, cwd=None, env=None, input=None):
    """Run a command; returns (rc, combined output). Never raises on timeout."""
    def big_stack():
        # coqc parses the case literals the harness writes recursively: the default 8 MB stack overflows on large ones
        try:
            import resource
            soft, hard = resource.getrlimit(resource.RLIMIT_STACK)
            resource.setrlimit(resource.RLIMIT_STACK, (hard, hard))
        except Exception:   # noqa
            pass
    try:
        p = subprocess.run(cmd, cwd=cwd, env=env, input=input, stdout=subprocess.PIPE,
                           stderr=subprocess.STDOUT, timeout=timeout, text=True, preexec_fn=big_stack)
        return p.returncode, p.stdout
    except subprocess.TimeoutExpired as e:
        out = e.stdout or ''
        if isinstance(out, bytes):
            out = out.decode('utf8', 'replace')
        return 124, out + '\n[timeout after %ss]' % timeout


def strip_coq_comments(text):
    out = []
    depth = 0
    i = 0
    n = len(text)
    while i < n:
        if text.startswith('(*', i):
            depth += 1
            i += 2
        elif text.startswith('*)', i) and depth > 0:
            depth -= 1
            i += 2
        else:
            if depth == 0:
                out.append(text[i])
            elif text[i] == '\n':
                out.append('\n')
            i += 1
    return ''.join(out)


def lint_coq(only=None):
    """The stranger's grep of DESIGN.md 2.3 step 2: no Admitted / Axiom / ...
    anywhere in the development (comments and string literals excluded).
    `Variable`/`Hypothesis` are allowed inside a Section only."""
    bad = []
    for d, _, files in os.walk(COQ):
        for fn in files:
            if not fn.endswith('.v'):
                continue
            p = os.path.join(d, fn)
            if only is not None and os.path.relpath(p, COQ) not in only:
                continue
            with open(p) as f:
                text = strip_coq_comments(f.read())
            text = re.sub(r'"[^"]*"', '""', text)
            depth = 0
            for ln, line in enumerate(text.split('\n'), 1):
                if re.match(r'\s*Section\s', line):
                    depth += 1
                for m in BANNED.finditer(line):
                    w = m.group(0)
                    if w.split()[0] in ('Variable', 'Variables', 'Hypothesis', 'Hypotheses') and depth > 0:
                        continue
                    bad.append('%s:%d: %s' % (os.path.relpath(p, ROOT), ln, line.strip()[:120]))
                if re.match(r'\s*End\s', line) and depth > 0:
                    depth -= 1
    return bad


def coq_project_files():
    files = []
    for d, _, fs in os.walk(COQ):
        for fn in sorted(fs):
            if fn.endswith('.v'):
                files.append(os.path.relpath(os.path.join(d, fn), COQ))
    return sorted(files)


def coq_makefile():
    """(Re)create coq/_CoqProject and coq/Makefile when the set of .v files changed."""
    files = coq_project_files()
    text = '-R . MV\n-arg -w -arg -notation-overridden,-deprecated-hint-without-locality,-deprecated-instance-without-locality\n' + '\n'.join(files) + '\n'
    changed = write_if_changed(os.path.join(COQ, '_CoqProject'), text)
    if changed or not os.path.exists(os.path.join(COQ, 'Makefile')):
        rc, out = sh(['coq_makefile', '-f', '_CoqProject', '-o', 'Makefile'], cwd=COQ, timeout=120)
        if rc != 0:
            raise RuntimeError('coq_makefile failed: ' + out)


def coq_make(targets=None, timeout=1500, jobs=16):
    """Full .vo build (never -vos) of the given targets (paths relative to coq/,
    ending in .vo) or of everything."""
    with _Lock():
        coq_makefile()
        cmd = ['timeout', str(timeout), 'make', '-j%d' % jobs, '-k']
        if targets:
            cmd += list(targets)
        rc, out = sh(cmd, cwd=COQ, timeout=timeout + 30)
    return rc == 0, out


def coqc(vfile, timeout=300, cwd=None):
    return sh(['timeout', str(timeout), 'coqc'] + COQ_FLAGS +
              ['-w', '-notation-overridden,-deprecated-hint-without-locality,-deprecated-instance-without-locality', vfile],
              cwd=cwd or COQ, timeout=timeout + 10)


class Obligation(object):
    def __init__(self, name, path):
        self.name = name
        self.path = path
        self.ok = False
        self.closed = False
        self.axioms = []
        self.log = ''
        self.kind = ('refuted' if name.endswith('_refuted') else
                     'partial' if name.endswith('_partial') else 'full')

    def discharged(self):
        return self.ok and (self.closed or all(a in ALLOWED_AXIOMS for a in self.axioms))

    def to_json(self):
        return {'name': self.name, 'file': os.path.relpath(self.path, ROOT), 'compiled': self.ok,
                'print_assumptions': 'Closed under the global context' if self.closed else self.axioms,
                'kind': self.kind}


def _parse_assumptions(out):
    closed = 'Closed under the global context' in out
    axioms = []
    m = re.search(r'Axioms:\n((?:.|\n)*)', out)
    if m:
        for line in m.group(1).split('\n'):
            mm = re.match(r'^(\S+)\s*:', line)
            if mm:
                axioms.append(mm.group(1))
    return closed and not axioms, axioms


def check_obligations(pid, timeout=300):
    """Compile every coq/Properties/<pid>/*.v on its own (dependencies must be
    built) and read its Print Assumptions output.  Each file must contain a
    `Print Assumptions` line; one obligation = one file."""
    d = os.path.join(COQ, 'Properties', pid)
    files = sorted(f for f in os.listdir(d) if f.endswith('.v')) if os.path.isdir(d) else []
    obls = [Obligation(f[:-2], os.path.join(d, f)) for f in files]

    def one(o):
        with open(o.path) as f:
            src = f.read()
        if 'Print Assumptions' not in src:
            o.log = 'no Print Assumptions in obligation file'
            return o
        rc, out = coqc(os.path.relpath(o.path, COQ), timeout=timeout)
        o.log = out[-4000:]
        o.ok = (rc == 0)
        if o.ok:
            o.closed, o.axioms = _parse_assumptions(out)
        return o

    with ThreadPoolExecutor(max_workers=8) as ex:
        obls = list(ex.map(one, obls))
    return obls


def coq_eval(pid, name, body, timeout=600):
    """Write build/<pid>/<name>.v with the given body and compile it; returns
    (rc, stdout).  Used for the correspondence: the harness writes cases, the
    model is evaluated by vm_compute inside Coq."""
    d = ensure_dir(os.path.join(BUILD, pid))
    name = '%s_p%d' % (name, os.getpid())      # concurrent runs of the same check must not share case files
    path = os.path.join(d, name + '.v')
    with open(path, 'w') as f:
        f.write(body)
    rc, out = sh(['timeout', str(timeout), 'coqc', '-R', COQ, 'MV', '-w', '-all', path], cwd=d, timeout=timeout + 10)
    for ext in ('.vo', '.vok', '.vos', '.glob'):
        try:
            os.remove(os.path.join(d, name + ext))
        except OSError:
            pass
    try:
        os.remove(os.path.join(d, '.' + name + '.aux'))
        if rc == 0:
            os.remove(path)          # kept only when the evaluation failed, for inspection
    except OSError:
        pass
    return rc, out


def parse_coq_list_of_nat(out):
    """Parses the `= [a; b; c]` / `= []` answer of an `Eval vm_compute` whose
    type is list nat (possibly wrapped over several lines)."""
    m = re.search(r'=\s*(\[[^\]]*\]|nil)', out)
    if not m:
        return None
    s = m.group(1)
    if s == 'nil':
        return []
    return [int(x) for x in re.findall(r'\d+', s)]


def coq_str(s):
    return '"' + s.replace('"', '""') + '"'


def coq_list(items):
    return '[' + '; '.join(items) + ']'


class TimeLimitExceeded(Exception):
    pass


class time_limit(object):
    """with time_limit(s): ... raises TimeLimitExceeded in the main thread when the block runs longer (a conversion
    whose fixpoint iteration does not terminate must become a reported failure, not a hanging check)"""

    def __init__(self, seconds):
        self.seconds = seconds

    def __enter__(self):
        import signal

        def handler(signum, frame):
            raise TimeLimitExceeded('did not finish within %d s' % self.seconds)
        self.old = signal.signal(signal.SIGALRM, handler)
        signal.setitimer(signal.ITIMER_REAL, self.seconds)
        return self

    def __exit__(self, *a):
        import signal
        signal.setitimer(signal.ITIMER_REAL, 0)
        signal.signal(signal.SIGALRM, self.old)
        return False


def coq_bool(b):
    return 'true' if b else 'false'


def load_known_findings():
    p = os.path.join(ROOT, 'known_findings.json')
    if not os.path.exists(p):
        return {'findings': [], 'fixed': []}
    with open(p) as f:
        return json.load(f)


class Run(object):
    """One run of one property's check: collects obligations, correspondence
    counts, violations; writes evidence; prints the verdict lines."""

    def __init__(self, pid, tier, seed):
        self.pid = pid
        self.tier = tier
        self.seed = seed
        self.t0 = time.time()
        self.obligations = []
        self.evaluations = 0
        self.nontrivial = set()
        self.rule = ''
        self.samples = []
        self.extra = {}
        self.violations = []
        self.known_hits = []
        self.assumptions = []
        self.trusted_base = [
            'Coq 8.16.1 kernel and its VM (vm_compute); no native_compute',
            'the Python harness under /verif/tools (translators, exporters, generators, oracles)',
            'CPython 3.12.1 as semantic oracle',
        ]
        self.checker_cmd = 'make -C /verif/coq (full .vo build) ; coqc -R . MV Properties/%s/*.v (Print Assumptions parsed)' % pid
        self.known = [k for k in load_known_findings().get('findings', []) if k['property'] == pid]
        self.notes = []

    # -- bookkeeping -------------------------------------------------------
    def count(self, n=1):
        self.evaluations += n

    def nontriv(self, key):
        self.nontrivial.add(key if isinstance(key, (str, int, tuple)) else repr(key))

    def sample(self, s, limit=6):
        if len(self.samples) < limit:
            self.samples.append(s)

    def note(self, s):
        self.notes.append(s)
        print('note: ' + s)

    # -- verdicts ----------------------------------------------------------
    def known_finding(self, fid, what):
        key = (fid,)
        if key not in [k[:1] for k in self.known_hits]:
            self.known_hits.append((fid, what))

    def violation(self, title, replay, found_input=True, classify=None):
        """Report a violation unless `classify` names a listed known finding.
        replay: JSON-able dict describing the failing input (or the broken
        theorem/correspondence when found_input is False)."""
        if classify:
            for k in self.known:
                if k['id'] == classify:
                    self.known_finding(k['id'], k['what'])
                    return False
        ensure_dir(REPLAYS)
        blob = json.dumps(replay, sort_keys=True, default=str)
        h = hashlib.sha1((title + blob).encode()).hexdigest()[:10]
        path = os.path.join(REPLAYS, '%s-%s.json' % (self.pid, h))
        doc = {'property': self.pid, 'title': title, 'failing_input_found': found_input,
               'seed': self.seed, 'tier': self.tier, 'replay': replay}
        with open(path, 'w') as f:
            json.dump(doc, f, indent=1, sort_keys=True, default=str)
        self.violations.append((title, path, found_input))
        return True

    def add_obligations(self, obls):
        self.obligations.extend(obls)

    def finish(self):
        # a broken obligation with no concrete failing input reported so far
        broken = [o for o in self.obligations if not o.discharged()]
        have_input = any(v[2] for v in self.violations)
        if broken and not have_input and not any(not v[2] for v in self.violations):
            self.violation('proof obligation(s) no longer check: ' + ', '.join(o.name for o in broken),
                           {'broken_obligations': [dict(o.to_json(), log=o.log[-1500:]) for o in broken]},
                           found_input=False)
        cov = {
            'obligations': len(self.obligations),
            'discharged': sum(1 for o in self.obligations if o.discharged()),
            'checker_cmd': self.checker_cmd,
            'trusted_base': self.trusted_base,
            'evaluations': self.evaluations,
            'distinct_nontrivial': len(self.nontrivial),
            'rule': self.rule,
            'samples': self.samples or ['(none)'],
            'obligation_list': [o.to_json() for o in self.obligations],
            'partial_or_refuted': [o.name for o in self.obligations if o.kind != 'full'],
            'known_findings_seen': [k[0] for k in self.known_hits],
            'notes': self.notes,
        }
        cov.update(self.extra)
        ev = {
            'property_id': self.pid, 'tier': self.tier, 'seed': self.seed, 'level': 'proof',
            'coverage': cov, 'assumptions': self.assumptions,
            'wall_s': round(time.time() - self.t0, 2), 'violations': len(self.violations),
        }
        ensure_dir(EVIDENCE)
        with open(os.path.join(EVIDENCE, self.pid + '.json'), 'w') as f:
            json.dump(ev, f, indent=1, sort_keys=True, default=str)
        for fid, what in self.known_hits:
            print('KNOWN-FINDING: property=%s %s [%s]' % (self.pid, what, fid))
        for title, path, found in self.violations:
            print('VIOLATION property=%s replay=%s%s' % (self.pid, path, '' if found else ' no-failing-input-found'))
        print('%s %s: obligations %d/%d, evaluations %d (distinct non-trivial %d), violations %d, %.1fs' % (
            self.pid, self.tier, cov['discharged'], cov['obligations'], self.evaluations,
            len(self.nontrivial), len(self.violations), time.time() - self.t0))
        sys.stdout.flush()
        return 1 if self.violations else 0


def standard_proof_step(run, extra_targets=()):
    """Steps 1-2 of DESIGN.md 2.3 after the driver regenerated its G-files:
    lint, make of everything the obligations depend on, obligations."""
    d = os.path.join(COQ, 'Properties', run.pid)
    names = sorted(f for f in os.listdir(d) if f.endswith('.v')) if os.path.isdir(d) else []
    # build dependencies of the obligation files (make knows them through coqdep)
    deps = set()
    if names:
        rc, out = sh(['coqdep'] + COQ_FLAGS + ['-sort'] + [os.path.join('Properties', run.pid, n) for n in names], cwd=COQ)
        # -sort prints all files in dependency order, obligations included
        for tok in out.split():
            tok = tok.lstrip('./')
            if tok.endswith('.v') and not tok.startswith('Properties/%s/' % run.pid):
                deps.add(tok + 'o')
    deps.update(extra_targets)
    # the stranger's grep, over exactly the files this property's obligations are built from
    bad = lint_coq(only=set(t[:-1] for t in deps) | set(os.path.join('Properties', run.pid, n) for n in names))
    if bad:
        run.violation('banned construct in Coq development', {'lines': bad}, found_input=False)
    ok, log = coq_make(sorted(deps) or None)
    if not ok:
        run.extra['make_log_tail'] = log[-3000:]
    obls = check_obligations(run.pid)
    run.add_obligations(obls)
    return ok, log
