"""Differential execution of original vs converted functions (shared by C01, C02, C11).

Programs are written to a module file under build/tmp/<pid>/ (malt needs source files), imported,
converted with the real malt API, and both versions are run in separate Worlds under the same
decision vector; the observable outcome (return value, ordered log of external calls, exception type,
post-state of mutable arguments and module globals) is compared."""
import importlib.util
import os
import shutil
import sys

from lib import vlib, pyrt

_counter = [0]


def tmpdir():
    d = vlib.ensure_dir(os.path.join(vlib.BUILD, 'tmp', str(os.getpid())))
    os.environ['TMPDIR'] = d
    import tempfile
    tempfile.tempdir = d
    return d


def cleanup():
    d = os.path.join(vlib.BUILD, 'tmp', str(os.getpid()))
    shutil.rmtree(d, ignore_errors=True)


def load_module(sources, prelude=''):
    """sources: list of function sources (each defines f); they are renamed f0, f1, ... in one module."""
    d = tmpdir()
    _counter[0] += 1
    name = 'vgen_%d_%d' % (os.getpid(), _counter[0])
    path = os.path.join(d, name + '.py')
    text = [prelude, 'G = 0', '']
    for i, src in enumerate(sources):
        src = src.replace('def f(', 'def f%d(' % i, 1)
        if src.startswith('f = lambda'):
            src = 'f%d = lambda' % i + src[len('f = lambda'):]
        text.append(src)
        text.append('')
    with open(path, 'w') as f:
        f.write('\n'.join(text))
    spec = importlib.util.spec_from_file_location(name, path)
    mod = importlib.util.module_from_spec(spec)
    sys.modules[name] = mod
    spec.loader.exec_module(mod)
    return mod


class Obj(object):
    def __init__(self):
        self.v = 7

    def __repr__(self):
        return 'Obj(v=%r)' % (self.v,)


def canon_exc(name):
    return 'NameError' if name in ('UnboundLocalError', 'NameError') else name


def run_one(mod, fn, decisions, mutation, extra_globals=None):
    """Runs fn in a fresh World; returns the observable outcome as a comparable tuple."""
    world = pyrt.World(decisions)
    g = world.globals()
    # the harness' own closures are not part of the program under test
    from malt.impl import api as _api
    for nm in ('D', 'L', 'T'):
        g[nm] = _api.do_not_convert(g[nm])
    mod.__dict__.update(g)
    if extra_globals:
        mod.__dict__.update(extra_globals)
    mod.__dict__['G'] = 0
    args = [1, 2, 3]
    m = [5]
    o = Obj()
    if mutation:
        args += [m, o]
    old = sys.getrecursionlimit()
    try:
        try:
            v = fn(*args)
            res = ('return', repr(v))
        except RecursionError:
            res = ('raise', 'RecursionError')
        except BaseException as e:  # noqa
            res = ('raise', canon_exc(type(e).__name__))
    finally:
        sys.setrecursionlimit(old)
    log = [tuple(repr(x) if not isinstance(x, (int, str, bool, type(None), tuple)) else x for x in ev) for ev in world.log]
    return (res, log, repr(m), repr(o), repr(mod.__dict__.get('G')))


def describe_diff(a, b):
    names = ['result', 'external call log', 'list argument m', 'object argument o', 'module global G']
    for n, x, y in zip(names, a, b):
        if x != y:
            if n == 'external call log':
                for i, (p, q) in enumerate(zip(x, y)):
                    if p != q:
                        return '%s differs at event %d: original %r, converted %r' % (n, i, p, q)
                return '%s differs in length: original %d events, converted %d' % (n, len(x), len(y))
            return '%s differs: original %r, converted %r' % (n, x, y)
    return None
