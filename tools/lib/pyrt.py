"""Run-time support for generated programs (see tools/gen/progs.py): decision-driven
globals D / L / T / CM / E0.., an event log, and a line tracer.

A `World` owns one decision vector and one log, so original and converted
functions can be run in separate worlds and their logs compared."""
import sys


class E0(Exception):
    pass


class E1(Exception):
    pass


class E2(Exception):
    pass


class E3(Exception):
    pass


class World(object):
    def __init__(self, decisions, default=0):
        self.decisions = list(decisions)
        self.pos = 0
        self.default = default
        self.log = []           # ('T', k, args) / ('D', k, value) / ('L', k, n) / ('N', k, yielded) / ('CM+', k) / ('CM-', k, exc)
        self.dlog = []          # decisions in the order the model consumes them (booleans as 0/1)
        self.hook = None        # optional callable(kind, k): called when CM(k) is constructed

    def pop(self):
        if self.pos < len(self.decisions):
            v = self.decisions[self.pos]
        else:
            v = self.default
        self.pos += 1
        return v

    def globals(self):
        w = self

        def D(k, *reads):
            v = bool(w.pop())
            w.log.append(('D', k, tuple(reads), v))
            w.dlog.append(1 if v else 0)
            return v

        class _It(object):
            def __init__(self, k, n):
                self.k = k
                self.n = n
                self.i = 0

            def __iter__(self):
                return self

            def __next__(self):
                if self.i < self.n:
                    self.i += 1
                    w.log.append(('N', self.k, True))
                    w.dlog.append(1)
                    return self.i - 1 + 10 * self.k
                w.log.append(('N', self.k, False))
                w.dlog.append(0)
                raise StopIteration

        def L(k):
            n = int(w.pop()) % 4
            w.log.append(('L', k, n))
            return _It(k, n)

        def T(k, *reads):
            w.log.append(('T', k, tuple(reads)))
            h = k * 7919
            for r in reads:
                h = (h * 31 + (r if isinstance(r, int) else hash(repr(r)))) % 1000003
            return h

        class CM(object):
            def __init__(self, k):
                self.k = k
                if w.hook:
                    w.hook('CM', k)

            def __enter__(self):
                w.log.append(('CM+', self.k))
                return 100 + self.k

            def __exit__(self, et, ev, tb):
                w.log.append(('CM-', self.k, et.__name__ if et else None))
                return False

        return {'D': D, 'L': L, 'T': T, 'CM': CM, 'E0': E0, 'E1': E1, 'E2': E2, 'E3': E3}


def run_traced(fn, args, world, code_filter=None, on_line=None):
    """Calls fn(*args) under sys.settrace, returns (kind, value, lines) where lines is the
    list of (code object, line number) line events of frames whose code passes code_filter,
    preceded by a ('call') pseudo event (code, -1) at function entry."""
    events = []

    def tracer(frame, event, arg):
        co = frame.f_code
        if code_filter is not None and not code_filter(co):
            return None
        if event == 'call':
            events.append((co, -1))
            if on_line:
                on_line(co, -1)
        elif event == 'line':
            events.append((co, frame.f_lineno))
            if on_line:
                on_line(co, frame.f_lineno)
        return tracer

    old = sys.gettrace()
    sys.settrace(tracer)
    try:
        try:
            v = fn(*args)
            res = ('return', v)
        except BaseException as e:   # noqa
            res = ('raise', type(e).__name__)
    finally:
        sys.settrace(old)
    return res[0], res[1], events


# ---------------------------------------------------------------------------------------------
# CPython as oracle for variable events: every read / write / delete of a local (or closure)
# variable that a call really performs, in order, with the line that performed it.

_READ_OPS = {'LOAD_FAST', 'LOAD_FAST_CHECK', 'LOAD_DEREF', 'LOAD_CLASSDEREF', 'LOAD_FAST_AND_CLEAR'}
_WRITE_OPS = {'STORE_FAST', 'STORE_DEREF'}
_DEL_OPS = {'DELETE_FAST', 'DELETE_DEREF'}
_GLOBAL_READ = {'LOAD_GLOBAL', 'LOAD_NAME'}
_GLOBAL_WRITE = {'STORE_GLOBAL', 'STORE_NAME'}


def _instr_table(code):
    import dis
    tab = {}
    for ins in dis.get_instructions(code):
        tab[ins.offset] = (ins.opname, ins.argval)
    return tab


def run_var_events(fn, args, world=None, include_nested=True):
    """Calls fn(*args) tracing every executed bytecode instruction of fn's own code object (and, if
    include_nested, of code objects nested in it).  Returns (kind, value, events) where events is a
    list of tuples:
       ('line', code_name, lineno)                 a new line starts executing
       ('R'|'W'|'D', code_name, lineno, var)       local / cell variable read, written, deleted
       ('GR'|'GW', code_name, lineno, var)         global read / write
       ('call', code_name, lineno) / ('ret', code_name, lineno)
    Reads performed by LOAD_FAST_AND_CLEAR (comprehension inlining, 3.12) are flagged 'RC'."""
    root = fn.__code__
    codes = {root}
    if include_nested:
        todo = [root]
        while todo:
            c = todo.pop()
            for k in c.co_consts:
                if hasattr(k, 'co_code') and k not in codes:
                    codes.add(k)
                    todo.append(k)
    tables = {c: _instr_table(c) for c in codes}
    events = []
    mon = sys.monitoring
    tool = mon.DEBUGGER_ID
    EV = mon.events
    cur_line = {}

    def on_start(code, offset):
        events.append(('call', code.co_name, code.co_firstlineno))

    def on_return(code, offset, retval):
        events.append(('ret', code.co_name, cur_line.get(code, code.co_firstlineno)))

    def on_line(code, line):
        cur_line[code] = line
        events.append(('line', code.co_name, line))

    def on_instr(code, offset):
        op, argval = tables[code].get(offset, (None, None))
        line = cur_line.get(code, code.co_firstlineno)
        if op in _READ_OPS:
            events.append(('RC' if op == 'LOAD_FAST_AND_CLEAR' else 'R', code.co_name, line, argval))
        elif op in _WRITE_OPS:
            events.append(('W', code.co_name, line, argval))
        elif op in _DEL_OPS:
            events.append(('D', code.co_name, line, argval))
        elif op in _GLOBAL_READ:
            events.append(('GR', code.co_name, line, argval))
        elif op in _GLOBAL_WRITE:
            events.append(('GW', code.co_name, line, argval))

    mon.use_tool_id(tool, 'verif')
    try:
        mon.register_callback(tool, EV.PY_START, on_start)
        mon.register_callback(tool, EV.PY_RETURN, on_return)
        mon.register_callback(tool, EV.LINE, on_line)
        mon.register_callback(tool, EV.INSTRUCTION, on_instr)
        for c in codes:
            mon.set_local_events(tool, c, EV.PY_START | EV.PY_RETURN | EV.LINE | EV.INSTRUCTION)
        try:
            v = fn(*args)
            res = ('return', v)
        except BaseException as e:   # noqa
            res = ('raise', type(e).__name__)
    finally:
        for c in codes:
            mon.set_local_events(tool, c, 0)
        for e in (EV.PY_START, EV.PY_RETURN, EV.LINE, EV.INSTRUCTION):
            mon.register_callback(tool, e, None)
        mon.free_tool_id(tool)
    return res[0], res[1], events
