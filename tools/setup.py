"""bin/setup: regenerate all generated Coq files, build everything (full .vo)."""
import importlib
import os
import pkgutil
import sys
import traceback

sys.path.insert(0, os.path.dirname(os.path.abspath(__file__)))
from lib import vlib
import props


def main():
    rc = 0
    for m in sorted(x.name for x in pkgutil.iter_modules(props.__path__)):
        mod = importlib.import_module('props.' + m)
        gen = getattr(mod, 'generate', None)
        if gen:
            try:
                gen()
            except Exception:
                print('generate() of %s failed (the check of that property will report it):' % m)
                traceback.print_exc()
    ok, log = vlib.coq_make(None, timeout=3000)
    print(log[-3000:])
    if not ok:
        # make -k built everything it could; a file that does not compile is reported by the check(s)
        # whose obligations depend on it (standard_proof_step rebuilds and fails there)
        print('SETUP: some Coq files failed to build (see above); continuing')
    bad = vlib.lint_coq()
    for b in bad:
        print('LINT: ' + b)
    sys.exit(rc)


if __name__ == '__main__':
    main()
