"""Entry point: bin/check <ID> [--tier quick|thorough] [--replay file]."""
import argparse
import importlib
import os
import sys
import traceback

sys.path.insert(0, os.path.dirname(os.path.abspath(__file__)))
from lib import vlib


def main():
    ap = argparse.ArgumentParser()
    ap.add_argument('pid')
    ap.add_argument('--tier', default=os.environ.get('VERIF_TIER', 'quick'), choices=['quick', 'thorough'])
    ap.add_argument('--replay', default=None)
    a = ap.parse_args()
    seed = int(os.environ.get('VERIF_SEED', '0') or 0)
    mod = importlib.import_module('props.' + a.pid.lower())
    if a.replay:
        sys.exit(mod.replay(a.replay))
    run = vlib.Run(a.pid, a.tier, seed)
    # watchdog: a check that does not finish (e.g. a dataflow fixpoint of the code under test that no longer
    # terminates) must end as a reported violation, not as a hanging process
    import threading
    limit = int(os.environ.get('VERIF_WATCHDOG_S', '0') or 0) or (3600 if a.tier == 'quick' else 6 * 3600)

    def fire():
        frames = ''.join('\n'.join(traceback.format_stack(f)[-12:]) for f in sys._current_frames().values())
        run.violation('the check did not finish within %d s: a conversion or analysis of the code under test does not terminate' % limit,
                      {'stacks_at_timeout': frames[-4000:]}, found_input=False)
        code = run.finish()
        sys.stdout.flush()
        os._exit(code or 1)
    wd = threading.Timer(limit, fire)
    wd.daemon = True
    wd.start()
    try:
        mod.check(run)
    except Exception:
        tb = traceback.format_exc()
        print(tb)
        run.violation('check machinery crashed (tie between model and code could not be established)',
                      {'traceback': tb[-3000:]}, found_input=False)
    wd.cancel()
    sys.exit(run.finish())


if __name__ == '__main__':
    main()
