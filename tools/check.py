"""Entry point: bin/check <ID> [--tier quick|thorough] [--replay file]."""
import argparse
import importlib
import os
import sys
import traceback

sys.path.insert(0, os.path.dirname(os.path.abspath(__file__)))
from lib import vlib


def main():
    ap = argparse.ArgumentParser()
    ap.add_argument('pid')
    ap.add_argument('--tier', default=os.environ.get('VERIF_TIER', 'quick'), choices=['quick', 'thorough'])
    ap.add_argument('--replay', default=None)
    a = ap.parse_args()
    seed = int(os.environ.get('VERIF_SEED', '0') or 0)
    mod = importlib.import_module('props.' + a.pid.lower())
    if a.replay:
        sys.exit(mod.replay(a.replay))
    run = vlib.Run(a.pid, a.tier, seed)
    try:
        mod.check(run)
    except Exception:
        tb = traceback.format_exc()
        print(tb)
        run.violation('check machinery crashed (tie between model and code could not be established)',
                      {'traceback': tb[-3000:]}, found_input=False)
    sys.exit(run.finish())


if __name__ == '__main__':
    main()
