"""Shared program generator (DESIGN.md 3.2).

Generates the source of one function `def f(a, b, c)` over a small pool of
variables.  All control decisions are taken by harness-provided globals so that
every branch-decision sequence can be driven from a decision vector:

    D(k, *reads)      -> bool   (if / while tests)        pops a decision
    L(k)              -> iterator of ints (for loops)     pops a trip count
    T(k, *reads)      -> int    (tracer: value expression, logs the call)
    CM(k)             -> context manager (logs enter / exit)
    E0..E3            -> exception classes (subclasses of Exception)

Every statement sits on its own line (so line numbers identify CFG nodes).
`Opts` selects the constructs; `reads='none'|'safe'|'any'` controls whether
expressions read variables (none: C05 control only; safe: only definitely
assigned variables, so no implicit NameError; any: also maybe-unbound ones).
"""
import random

VARS = ['x', 'y', 'z', 'w']
PARAMS = ['a', 'b', 'c']
EXCS = ['E0', 'E1', 'E2']


class Opts(object):
    def __init__(self, **kw):
        self.max_stmts = 14
        self.max_depth = 4
        self.reads = 'safe'
        self.try_ = True
        self.finally_ = True
        self.with_ = True
        self.loop_else = True
        self.raise_ = True
        self.nested_def = False
        self.except_as = True
        self.jump_in_handler_finally = False   # known-finding shape (C05), separate stream
        self.finally_prob = 0.5
        self.methods = False          # `q = Q()` (prelude class, falsy while empty) and calls of its bound methods
        self.lambda_closures = False  # `h = lambda: T(k, x)` stored and called later (closure variables read late)
        self.raising_return = False   # `return o.missing`: evaluating the return value raises AttributeError (needs mutation=True)
        self.rich_finally = False  # compound statements (loops with their own break/continue, nested try) in finally bodies
        self.aug = True
        self.tuple_assign = True
        self.delete = False
        self.return_value = True
        self.names = None          # optional identifier pool override (C11)
        self.mutation = False      # extra params m (list) and o (object with attribute v), mutated and read
        self.boolops = False       # and/or/not/conditional expressions with side-effecting operands
        self.comprehension = False
        self.global_ = False       # `global G` + assignments to G
        self.nested_global_reads = None   # names (module globals) read only inside nested defs (C11)
        self.append = True         # with mutation: also emit m.append(...) (an effect no state variable tracks)
        self.only = None           # optional set of construct names: only these (plus assign) are generated
        self.fresh_for_targets = False   # every for loop gets its own target name (i1, i2, ...) never assigned elsewhere
        self.helper_calls = False  # calls to module-level helpers H1 / H2 (recursive conversion)
        self.__dict__.update(kw)


class Gen(object):
    def __init__(self, rnd, opts):
        self.r = rnd
        self.o = opts
        self.k = 0
        self.budget = opts.max_stmts
        self.lams = []
        self.lines = []
        self.vars = list(opts.names) if opts.names else VARS

    def key(self):
        self.k += 1
        return self.k

    def emit(self, ind, text):
        self.lines.append('    ' * ind + text)

    def reads(self, defined, maxn=2):
        if self.o.reads == 'none':
            return []
        pool = sorted(defined) if self.o.reads == 'safe' else sorted(set(defined) | set(self.vars))
        pool = [v for v in pool if v not in self.lams]      # lambda objects are called, never passed on (their repr is an address)
        if not pool:
            return []
        n = self.r.randint(0, min(maxn, len(pool)))
        return [self.r.choice(pool) for _ in range(n)]

    def texpr(self, defined, depth=0):
        o = self.o
        r = self.r
        if o.reads != 'none' and depth < 2:
            c = r.random()
            if o.boolops and c < 0.12:
                return '(%s %s %s)' % (self.texpr(defined, depth + 1), r.choice(['and', 'or']), self.texpr(defined, depth + 1))
            if o.boolops and c < 0.17:
                return '(not %s)' % self.texpr(defined, depth + 1)
            if o.boolops and c < 0.25:
                return '(%s if %s else %s)' % (self.texpr(defined, depth + 1), self.dexpr(defined), self.texpr(defined, depth + 1))
            if o.boolops and c < 0.30 and defined:
                return '(%s %s %s)' % (r.choice([v for v in sorted(defined) if v not in self.lams]), r.choice(['==', '!=', '<', '+', '-', '*']), self.texpr(defined, depth + 1))
            if o.boolops and c < 0.34:
                # comparison chain whose middle operands have side effects (each must be evaluated once)
                ops = [r.choice(['<', '<=', '==', '!=', '>', '>=']) for _ in range(r.randint(2, 3))]
                parts = [self.texpr(defined, depth + 1)]
                for op in ops:
                    parts += [op, self.texpr(defined, depth + 1)]
                return '(%s)' % ' '.join(parts)
            if o.comprehension and c < 0.40:
                return '[%s for q in L(%d)]' % (self.texpr(defined | {'q'}, depth + 1), self.key())
            if o.mutation and c < 0.46:
                return r.choice(['o.v', 'm[0]', 'len(m)'])
            if o.helper_calls and c < 0.6:
                return r.choice(['H1(%s)', 'H2(%s)', 'H2(%s, v=4)']) % self.texpr(defined, depth + 1)
        args = ''.join(', ' + v for v in self.reads(defined))
        return 'T(%d%s)' % (self.key(), args)

    def dexpr(self, defined):
        args = ''.join(', ' + v for v in self.reads(defined, 1))
        return 'D(%d%s)' % (self.key(), args)

    # returns the set of definitely-assigned variables after the block
    def block(self, ind, defined, depth, in_loop, in_handler_fin, minlen=1):
        n = self.r.randint(minlen, 3 if depth else 4)
        for i in range(n):
            if self.budget <= 0 and i >= minlen:
                break
            defined, falls = self.stmt(ind, defined, depth, in_loop, in_handler_fin)
            if not falls:
                break
        return defined

    def stmt(self, ind, defined, depth, in_loop, ihf):
        self.budget -= 1
        o = self.o
        r = self.r
        choices = ['assign'] * 5 + ['expr']
        if o.aug and defined:
            choices += ['aug']
        if o.tuple_assign:
            choices += ['tuple']
        if depth < o.max_depth and self.budget > 0:
            choices += ['if'] * 3 + ['while'] * 2 + ['for'] * 2
            if o.try_:
                choices += ['try'] * 3
            if o.with_:
                choices += ['with']
        # ihf: inside an except body of a try that has a finally, or inside a finally body:
        # no return (and in_loop was reset there, so no break/continue leaving it either)
        if in_loop:
            choices += ['break', 'continue']
        if depth > 0 and ((not ihf) or o.jump_in_handler_finally):
            choices += ['return']
            if o.raising_return and o.mutation:
                choices += ['retattr'] * 2
        if o.raise_ and depth > 0:
            choices += ['raise']
        if o.nested_def and depth < 2:
            choices += ['def']
            if o.nested_global_reads:
                choices += ['klass']
        if o.delete and defined:
            choices += ['del']
        if o.methods:
            choices += ['qpush', 'qpush', 'qdrain']
        if o.lambda_closures:
            choices += ['lam'] + (['lamcall'] * 2 if [h for h in self.lams if h in defined] else [])
        if o.mutation:
            choices += ['attr', 'sub'] + (['append'] if o.append else [])
        if o.global_:
            choices += ['global']
        if o.only is not None:
            choices = [x for x in choices if x in o.only or x == 'assign']
        c = r.choice(choices)
        if c == 'attr':
            self.emit(ind, 'o.v %s %s' % (r.choice(['=', '=', '+=']), self.texpr(defined)))
            return defined, True
        if c == 'sub':
            self.emit(ind, 'm[0] %s %s' % (r.choice(['=', '=', '+=']), self.texpr(defined)))
            return defined, True
        if c == 'append':
            self.emit(ind, 'm.append(%s)' % self.texpr(defined))
            return defined, True
        if c == 'qpush':
            v = r.choice(self.vars)
            self.emit(ind, '%s = q.push(%s)' % (v, self.texpr(defined)))
            return defined | {v}, True
        if c == 'qdrain':
            self.emit(ind, 'T(%d, q.drain())' % self.key())
            return defined, True
        if c == 'lam':
            h = 'h%d' % self.key()
            rd = self.reads(defined) or sorted(defined)[:1]
            self.emit(ind, '%s = lambda: T(%d%s)' % (h, self.key(), ''.join(', ' + v for v in rd)))
            self.lams.append(h)
            return defined | {h}, True
        if c == 'lamcall':
            self.emit(ind, 'T(%d, %s())' % (self.key(), r.choice([h for h in self.lams if h in defined])))
            return defined, True
        if c == 'retattr':
            self.emit(ind, 'return o.missing%d' % self.key())
            return defined, False
        if c == 'global':
            if r.random() < 0.5:
                self.emit(ind, 'G = T(%d, G)' % self.key())       # read-modify-write of the global
            else:
                self.emit(ind, 'G = %s' % self.texpr(defined))
            return defined, True
        if c == 'assign':
            v = r.choice(self.vars)
            self.emit(ind, '%s = %s' % (v, self.texpr(defined)))
            return defined | {v}, True
        if c == 'aug':
            v = r.choice([x for x in sorted(defined) if x not in self.lams]) if o.reads != 'any' else r.choice(sorted(set(defined) | set(self.vars)))
            self.emit(ind, '%s += %s' % (v, self.texpr(defined)))
            return defined | {v}, True
        if c == 'tuple':
            v1, v2 = r.sample(self.vars, 2)
            self.emit(ind, '%s, %s = %s, %s' % (v1, v2, self.texpr(defined), self.texpr(defined)))
            return defined | {v1, v2}, True
        if c == 'expr':
            self.emit(ind, self.texpr(defined))
            return defined, True
        if c == 'del':
            cands = sorted(defined - set(PARAMS) - set(self.lams)) or sorted(defined - set(self.lams)) or sorted(defined)
            v = r.choice(cands)
            k = r.random()
            if o.mutation and k < 0.3:
                # several targets, one of which may raise (IndexError) before / after the name is deleted
                tg = ['m[%d]' % r.choice([0, 7]), v]
                r.shuffle(tg)
                self.emit(ind, 'del %s' % ', '.join(tg))
            elif o.reads == 'any' and k < 0.5:
                v = r.choice(self.vars)            # possibly unbound: deleting it raises
                self.emit(ind, 'del %s' % v)
            else:
                self.emit(ind, 'del %s' % v)
            return defined - {v}, True
        if c == 'break':
            self.emit(ind, 'break')
            return defined, False
        if c == 'continue':
            self.emit(ind, 'continue')
            return defined, False
        if c == 'return':
            self.emit(ind, 'return %s' % self.texpr(defined) if (o.return_value and r.random() < 0.8) else 'return')
            return defined, False
        if c == 'raise':
            self.emit(ind, 'raise %s()' % r.choice(EXCS))
            return defined, False
        if c == 'if':
            self.emit(ind, 'if %s:' % self.dexpr(defined))
            d1 = self.block(ind + 1, defined, depth + 1, in_loop, ihf)
            kind = r.random()
            if kind < 0.45:
                self.emit(ind, 'else:')
                d2 = self.block(ind + 1, defined, depth + 1, in_loop, ihf)
                return d1 & d2, True
            if kind < 0.6:
                self.emit(ind, 'elif %s:' % self.dexpr(defined))
                d2 = self.block(ind + 1, defined, depth + 1, in_loop, ihf)
                self.emit(ind, 'else:')
                d3 = self.block(ind + 1, defined, depth + 1, in_loop, ihf)
                return d1 & d2 & d3, True
            return defined, True
        if c == 'while':
            self.emit(ind, 'while %s:' % self.dexpr(defined))
            self.block(ind + 1, defined, depth + 1, True, ihf)
            if o.loop_else and r.random() < 0.2:
                self.emit(ind, 'else:')
                self.block(ind + 1, defined, depth + 1, in_loop, ihf)
            return defined, True
        if c == 'for':
            v = ('i%d' % self.key()) if o.fresh_for_targets else r.choice(self.vars)
            self.emit(ind, 'for %s in L(%d):' % (v, self.key()))
            self.block(ind + 1, defined | {v}, depth + 1, True, ihf)
            if o.loop_else and r.random() < 0.2:
                self.emit(ind, 'else:')
                self.block(ind + 1, defined, depth + 1, in_loop, ihf)
            return defined, True
        if c == 'with':
            if r.random() < 0.5:
                v = r.choice(self.vars)
                self.emit(ind, 'with CM(%d) as %s:' % (self.key(), v))
                d1 = self.block(ind + 1, defined | {v}, depth + 1, in_loop, ihf)
            else:
                self.emit(ind, 'with CM(%d):' % self.key())
                d1 = self.block(ind + 1, defined, depth + 1, in_loop, ihf)
            return d1, True
        if c == 'klass':
            # a local class whose body binds X and whose method reads X: in Python the method sees the module
            # global X (class-body bindings are invisible from methods)
            nm = 'K%d' % self.key()
            x = r.choice(o.nested_global_reads)
            self.emit(ind, 'class %s(object):' % nm)
            self.emit(ind + 1, '%s = %d' % (x, self.key()))
            self.emit(ind + 1, 'def m(self, p):')
            self.emit(ind + 2, 'return T(%d, p, %s)' % (self.key(), x))
            self.emit(ind, '%s = %s().m(%s)' % (r.choice(self.vars), nm, self.texpr(defined)))
            return defined, True
        if c == 'def':
            name = 'g%d' % self.key()
            self.emit(ind, 'def %s(p):' % name)
            if o.nested_global_reads:
                self.emit(ind + 1, 'return T(%d, p, %s)' % (self.key(), r.choice(o.nested_global_reads)))
            else:
                self.emit(ind + 1, 'return %s' % self.texpr(defined | {'p'}))
            self.emit(ind, '%s = %s(%s)' % (r.choice(self.vars), name, self.texpr(defined)))
            return defined, True
        if c == 'try':
            has_fin = o.finally_ and r.random() < o.finally_prob
            nh = r.randint(0 if has_fin else 1, 2)
            self.emit(ind, 'try:')
            self.block(ind + 1, defined, depth + 1, in_loop, ihf)
            for _ in range(nh):
                kind = r.random()
                if kind < 0.2:
                    hdr = 'except:'
                elif kind < 0.5:
                    hdr = 'except %s:' % r.choice(EXCS + ['Exception'])
                elif kind < 0.7:
                    hdr = 'except (%s, %s):' % tuple(r.sample(EXCS, 2))
                else:
                    hdr = 'except %s as e:' % r.choice(EXCS) if o.except_as else 'except %s:' % r.choice(EXCS)
                self.emit(ind, hdr)
                keep = (not has_fin) or o.jump_in_handler_finally
                self.block(ind + 1, defined, depth + 1, in_loop and keep, ihf or has_fin)
                if hdr == 'except:':
                    break
            if nh and r.random() < 0.25:
                self.emit(ind, 'else:')
                self.block(ind + 1, defined, depth + 1, in_loop, ihf)
            if has_fin:
                self.emit(ind, 'finally:')
                # no jumps directly in a finally body (they swallow exceptions; out of guarantee)
                save = o.raise_
                o.raise_ = False
                self.block(ind + 1, defined, (depth + 1) if o.rich_finally else o.max_depth,
                           in_loop and o.rich_finally and o.jump_in_handler_finally, True)
                o.raise_ = save
            return defined, True
        raise AssertionError(c)


def gen_function(rnd, opts=None, name='f'):
    """-> source text of one function (ends with a newline)."""
    opts = opts or Opts()
    g = Gen(rnd, opts)
    params = PARAMS + (['m', 'o'] if opts.mutation else [])
    g.emit(0, 'def %s(%s):' % (name, ', '.join(params)))
    if opts.global_:
        g.emit(1, 'global G')
    if opts.methods:
        g.emit(1, 'q = Q()')
    defined = set(PARAMS)
    defined = g.block(1, defined, 0, False, False, minlen=2)
    if rnd.random() < 0.8:
        g.emit(1, 'return %s' % g.texpr(defined))
    return '\n'.join(g.lines) + '\n'


if __name__ == '__main__':
    import sys
    rnd = random.Random(int(sys.argv[1]) if len(sys.argv) > 1 else 0)
    for _ in range(3):
        print(gen_function(rnd))
