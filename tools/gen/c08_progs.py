"""C08 program generators (wrappers around / companions of tools/gen/progs.py).

  gen_static(rnd, opts)   scope-rich functions that only have to *compile*: any nesting of defs, lambdas,
                          classes, comprehensions, global / nonlocal declarations, all parameter kinds,
                          annotations, decorators, default values, imports, with / except targets, del,
                          walrus, attribute and subscript targets.  Judged by symtable (static oracle).
  gen_dynamic(rnd)        runnable functions `def f(a, b, c)` over the decision-driven runtime of
                          tools/lib/pyrt.py (D / L / T / CM / E0..): every statement on its own line, so the
                          variable events CPython performs can be attributed to statements.

A small identifier pool is used on purpose: whether a name is local, free or global is decided by the
interaction of all binding constructs of the whole function tree.
"""
from gen import progs

NAMES = ['x', 'y', 'z', 'w', 'u', 'v']
GLOBALS = ['g', 'h', 'k']
ATTRS = ['p', 'q']


class SOpts(object):
    def __init__(self, **kw):
        self.max_depth = 3            # nesting depth of function-like blocks
        self.max_stmts = 7
        self.classes = True
        self.comprehensions = True
        self.lambdas = True
        self.walrus = True
        self.walrus_in_comp = False   # outside the Coq model (oracle only)
        self.declarations = True      # global / nonlocal
        self.nested_params = True     # parameters on nested defs / lambdas
        self.annotations = True
        self.composite = True         # attribute / subscript targets and reads
        self.handlers = True
        self.ctor = False             # class with __init__(self) assigning self.attr
        self.__dict__.update(kw)


class SGen(object):
    def __init__(self, rnd, o):
        self.r = rnd
        self.o = o
        self.lines = []
        self.uid = 0
        self.declared = [set()]     # per function: names declared global / nonlocal inside a compound statement
        self.nl_ok = False          # the top-level function binds 'nn' (so nested functions may declare it nonlocal)

    def emit(self, ind, s):
        self.lines.append('    ' * ind + s)

    def name(self):
        r = self.r
        if self.declared[-1] and r.random() < 0.25:
            return r.choice(sorted(self.declared[-1]))
        return r.choice(NAMES) if r.random() < 0.8 else r.choice(GLOBALS)

    # ---------------------------------------------------------------- expressions
    def expr(self, d=0, incomp=False):
        r = self.r
        o = self.o
        k = r.random()
        if d >= 3 or k < 0.38:
            return self.name()
        if k < 0.45:
            return str(r.randint(0, 3))
        if k < 0.55:
            return '%s + %s' % (self.expr(d + 1, incomp), self.expr(d + 1, incomp))
        if k < 0.62:
            return '%s(%s)' % (self.name(), ', '.join(self.expr(d + 1, incomp) for _ in range(r.randint(0, 2))))
        if k < 0.69 and o.composite:
            return '%s.%s' % (self.atom(d + 1, incomp), r.choice(ATTRS))
        if k < 0.76 and o.composite:
            return '%s[%s]' % (self.atom(d + 1, incomp), r.choice([self.name(), '0', "'s'", '1:2', '%s, %s' % (self.name(), self.name()),
                                                                    '%s.%s' % (self.name(), r.choice(ATTRS)), '...']))
        if k < 0.82 and o.lambdas:
            return '(lambda%s: %s)' % (self.lambda_params(), self.expr(d + 1, incomp))
        if k < 0.90 and o.comprehensions:
            return self.comp(d + 1)
        if k < 0.94 and o.walrus and (o.walrus_in_comp or not incomp):
            return '(%s := %s)' % (r.choice(NAMES), self.expr(d + 1, incomp))
        if k < 0.97:
            return '(%s if %s else %s)' % (self.expr(d + 1, incomp), self.expr(d + 1, incomp), self.expr(d + 1, incomp))
        return '(%s, %s)' % (self.expr(d + 1, incomp), self.expr(d + 1, incomp))

    def atom(self, d, incomp):
        r = self.r
        k = r.random()
        if k < 0.7:
            return self.name()
        if k < 0.8:
            return '%s.%s' % (self.name(), r.choice(ATTRS))
        if k < 0.9:
            return '%s[%s]' % (self.name(), r.choice([self.name(), '0']))
        return '%s()' % self.name()

    def lambda_params(self):
        """every parameter kind a lambda can have: positional-only (/), positional with defaults, *args, keyword-only
        with and without defaults (after * or *args; their defaults live in args.kw_defaults), **kwargs; defaults
        may themselves be lambdas / comprehensions (expr at depth 1)"""
        r = self.r
        if not self.o.nested_params or r.random() < 0.25:
            return ''
        pool = list(NAMES)
        r.shuffle(pool)

        def dflt():
            return self.expr(1 if r.random() < 0.3 else 2)
        plain = []
        for _ in range(r.randint(0, 2)):
            p = pool.pop()
            plain.append(p if r.random() < 0.65 else '%s=%s' % (p, dflt()))
        plain.sort(key=lambda s: '=' in s)          # defaults must trail
        if plain and r.random() < 0.2:
            nd = [i for i, x in enumerate(plain) if '=' not in x]
            plain.insert(r.randint(1, len(plain)) if not nd else r.randint(1, max(1, len(plain))), '/')
            # a default may not precede a non-default, '/' may stand anywhere after the first parameter
        out = plain
        k = r.random()
        if k < 0.45:
            out.append('*%s' % pool.pop() if r.random() < 0.5 else '*')
            nkw = r.randint(1, 2)
            for _ in range(nkw):
                p = pool.pop()
                out.append('%s=%s' % (p, dflt()) if r.random() < 0.7 else p)
        if r.random() < 0.15 and pool:
            out.append('**%s' % pool.pop())
        if not out:
            return ''
        return ' ' + ', '.join(out)

    def comp_target(self):
        r = self.r
        if r.random() < 0.75:
            return r.choice(NAMES)
        a, b = r.sample(NAMES, 2)
        return '%s, %s' % (a, b)

    def comp(self, d):
        r = self.r
        gens = []
        for _ in range(1 if r.random() < 0.75 else 2):
            tgt = self.comp_target()
            if r.random() < 0.3:
                # the iterable mentions the clause's own target name: it is evaluated before the target is bound
                # (the leftmost one in the enclosing scope)
                t0 = tgt.split(',')[0].strip()
                it = r.choice([t0, '%s.%s' % (t0, r.choice(ATTRS)), '%s[0]' % t0, '%s()' % t0, '%s + %s' % (t0, self.name()),
                               '(%s, %s)' % (self.name(), t0)])
            else:
                it = self.expr(d + 1, True)
            g = 'for %s in %s' % (tgt, it)
            if r.random() < 0.4:
                g += ' if %s' % self.expr(d + 1, True)
            gens.append(g)
        if r.random() < 0.25:
            # a comprehension nested in the element / condition whose target reuses a name that this level reads AFTER
            # it: that later read is the enclosing function's variable again
            t = r.choice(NAMES + GLOBALS)
            inner = r.choice(['[%s for %s in %s]', '{%s for %s in %s}', 'list(%s for %s in %s)', '{%s: 1 for %s in %s}']) % (
                r.choice([t, '%s + 1' % t, '[%s for %s in %s]' % (t, t, self.name())]), t, self.expr(3, True))
            tail = r.choice([t, '%s.%s' % (t, r.choice(ATTRS)), '%s[0]' % t, '(%s, %s)' % (self.name(), t)])
            elt0 = '%s + %s' % (inner, tail)
            if r.random() < 0.3:
                gens.append('if %s if %s' % (inner, tail))
                elt0 = self.expr(d + 1, True)
        else:
            elt0 = None
        kind = r.random()
        if elt0 is not None:
            if kind < 0.4:
                return '[%s %s]' % (elt0, ' '.join(gens))
            if kind < 0.6:
                return '{%s %s}' % (elt0, ' '.join(gens))
            if kind < 0.8:
                return '{%s: %s %s}' % (self.expr(d + 1, True), elt0, ' '.join(gens))
            return 'list(%s %s)' % (elt0, ' '.join(gens))
        if kind < 0.4:
            return '[%s %s]' % (self.expr(d + 1, True), ' '.join(gens))
        if kind < 0.6:
            return '{%s %s}' % (self.expr(d + 1, True), ' '.join(gens))
        if kind < 0.8:
            return '{%s: %s %s}' % (self.expr(d + 1, True), self.expr(d + 1, True), ' '.join(gens))
        return 'list(%s %s)' % (self.expr(d + 1, True), ' '.join(gens))

    def target(self):
        r = self.r
        k = r.random()
        if self.declared[-1] and r.random() < 0.3:
            return r.choice(sorted(self.declared[-1]))
        if k < 0.7 or not self.o.composite:
            return r.choice(NAMES) if r.random() < 0.9 else r.choice(GLOBALS)
        if k < 0.85:
            return '%s.%s' % (self.name(), r.choice(ATTRS))
        return '%s[%s]' % (self.name(), r.choice([self.name(), '0', "'s'"]))

    # ---------------------------------------------------------------- statements
    def params(self, method=False):
        r = self.r
        o = self.o
        out = []
        pool = list(NAMES)
        r.shuffle(pool)
        if method:
            out.append('self')
        if not o.nested_params and self.depth > 0:
            return ', '.join(out)

        def one(nm, default_ok):
            s = nm
            if o.annotations and r.random() < 0.3:
                s += ': %s' % self.annotation()
                if default_ok and r.random() < 0.4:
                    s += ' = %s' % self.expr(1 if r.random() < 0.3 else 2)
            elif default_ok and r.random() < 0.4:
                s += '=%s' % self.expr(1 if r.random() < 0.3 else 2)
            return s
        n = r.randint(0, 3)
        plain = [one(pool.pop(), False) for _ in range(r.randint(0, min(2, n)))]
        if plain and r.random() < 0.15:
            plain.insert(r.randint(1, len(plain)), '/')
        dflt = [one(pool.pop(), True) for _ in range(n - len([p for p in plain if p != '/']))]
        dflt.sort(key=lambda s: '=' in s)
        out += plain + dflt
        if r.random() < 0.25 and pool:
            out.append('*' + one(pool.pop(), False))
            if r.random() < 0.6 and pool:
                out.append(one(pool.pop(), True))
        elif r.random() < 0.2 and pool:
            out.append('*')
            out.append(one(pool.pop(), True))
            if r.random() < 0.3 and pool:
                out.append(one(pool.pop(), True))
        if r.random() < 0.15 and pool:
            out.append('**' + one(pool.pop(), False))
        return ', '.join(out)

    def annotation(self):
        """parameter / return annotation: a name, an attribute, or (o.annotation_lambdas) a lambda with or without
        parameters and defaults -- a lambda inside an annotation runs a nested annotation / declaration pass"""
        r = self.r
        if getattr(self.o, 'annotation_lambdas', True) and r.random() < 0.22:
            k = r.random()
            if k < 0.3:
                return '(lambda: %s)' % self.name()
            if k < 0.7:
                p, q = r.sample(NAMES, 2)
                return '(lambda %s, %s=%s: %s + %s + %s)' % (p, q, self.name(), p, q, self.name())
            if k < 0.85:
                p = r.choice(NAMES)
                return '(lambda *, %s=%s: %s)' % (p, self.name(), p)
            return '(lambda%s: %s)' % (self.lambda_params(), self.expr(2))
        return r.choice(['int', self.name(), '%s.%s' % (self.name(), r.choice(ATTRS))])

    def simple(self, ind):
        r = self.r
        o = self.o
        k = r.random()
        if k < 0.30:
            self.emit(ind, '%s = %s' % (self.target(), self.expr()))
        elif k < 0.36:
            self.emit(ind, '%s, %s = %s' % (self.target(), self.target(), self.expr()))
        elif k < 0.44:
            self.emit(ind, '%s += %s' % (self.target(), self.expr()))
        elif k < 0.50:
            self.emit(ind, self.expr())
        elif k < 0.56:
            self.emit(ind, 'del %s' % self.target())
        elif k < 0.62:
            c = r.random()
            if c < 0.3:
                self.emit(ind, 'import %s' % r.choice(['os', 'os.path', 'x', 'y.z']))
            elif c < 0.6:
                self.emit(ind, 'import %s as %s' % (r.choice(['os', 'os.path']), r.choice(NAMES)))
            elif c < 0.8:
                self.emit(ind, 'from os import %s' % r.choice(['path', 'sep as %s' % r.choice(NAMES)]))
            else:
                self.emit(ind, 'import os, sys as %s' % r.choice(NAMES))
        elif k < 0.68 and o.annotations:
            c = r.random()
            ann = r.choice(['int', self.name(), '(%s := int)' % r.choice(NAMES)])
            if c < 0.35:
                self.emit(ind, '%s: %s = %s' % (r.choice(NAMES), ann, self.expr()))
            elif c < 0.55:
                self.emit(ind, '%s: %s' % (r.choice(NAMES), r.choice(['int', self.name()])))
            else:
                # attribute / subscript / nested targets, with and without a value: CPython evaluates the object and
                # index expressions of the target even when there is no value (and stores only when there is one)
                o1, o2 = self.name(), self.name()
                tgt = r.choice(['%s.%s' % (o1, r.choice(ATTRS)), '%s[%s]' % (o1, o2), "%s['s']" % o1,
                                '%s.%s[%s]' % (o1, r.choice(ATTRS), o2), '%s[%s].%s' % (o1, o2, r.choice(ATTRS)),
                                '%s().%s' % (o1, r.choice(ATTRS)), '%s[%s + %s]' % (o1, o2, self.name()),
                                '(%s)' % r.choice(NAMES)])
                if r.random() < 0.55:
                    self.emit(ind, '%s: %s' % (tgt, ann))
                else:
                    self.emit(ind, '%s: %s = %s' % (tgt, ann, self.expr()))
        elif k < 0.74:
            self.emit(ind, 'return %s' % self.expr() if self.depth_fn > 0 else 'pass')
        elif k < 0.78:
            self.emit(ind, 'assert %s, %s' % (self.expr(), self.expr()))
        elif k < 0.82:
            self.emit(ind, 'raise %s' % self.expr())
        else:
            self.emit(ind, '%s = %s' % (r.choice(NAMES), self.expr()))

    def block(self, ind, n, loop=False):
        for _ in range(max(1, n)):
            self.stmt(ind, loop)

    def stmt(self, ind, loop=False):
        r = self.r
        o = self.o
        self.budget -= 1
        k = r.random()
        if self.budget <= 0 or ind >= 5 or k < 0.5:
            return self.simple(ind)
        if k < 0.58:
            self.emit(ind, 'if %s:' % self.expr())
            self.cblock(ind + 1, r.randint(1, 2), loop)
            if r.random() < 0.5:
                self.emit(ind, 'else:')
                self.cblock(ind + 1, r.randint(1, 2), loop)
        elif k < 0.63:
            self.emit(ind, 'while %s:' % self.expr())
            self.cblock(ind + 1, r.randint(1, 2), True)
            if r.random() < 0.2:
                self.emit(ind, 'else:')
                self.cblock(ind + 1, 1, loop)
        elif k < 0.70:
            self.emit(ind, 'for %s in %s:' % (r.choice([self.target(), '%s, %s' % (r.choice(NAMES), r.choice(NAMES))]), self.expr()))
            self.cblock(ind + 1, r.randint(1, 2), True)
            if r.random() < 0.2:
                self.emit(ind, 'else:')
                self.cblock(ind + 1, 1, loop)
        elif k < 0.76:
            items = []
            for _ in range(1 if r.random() < 0.8 else 2):
                items.append('%s as %s' % (self.expr(2), self.target()) if r.random() < 0.6 else self.expr(2))
            self.emit(ind, 'with %s:' % ', '.join(items))
            self.cblock(ind + 1, r.randint(1, 2), loop)
        elif k < 0.83 and o.handlers:
            self.emit(ind, 'try:')
            self.cblock(ind + 1, r.randint(1, 2), loop)
            nh = r.randint(1, 2)
            for i in range(nh):
                c = r.random()
                if c < 0.5:
                    self.emit(ind, 'except %s as %s:' % (self.name(), r.choice(NAMES)))
                elif c < 0.8 or i < nh - 1:
                    self.emit(ind, 'except %s:' % self.name())
                else:
                    self.emit(ind, 'except:')
                self.cblock(ind + 1, r.randint(1, 2), loop)
            if r.random() < 0.2:
                self.emit(ind, 'else:')
                self.cblock(ind + 1, 1, loop)
            if r.random() < 0.3:
                self.emit(ind, 'finally:')
                self.cblock(ind + 1, 1, False)
        elif k < 0.86 and o.declarations and self.depth_fn >= 1:
            self.deep_decl(ind)
        elif k < 0.93 and self.depth < o.max_depth:
            self.fundef(ind)
        elif k < 0.97 and o.classes and self.depth < o.max_depth:
            self.classdef(ind)
        elif loop:
            self.emit(ind, r.choice(['break', 'continue']))
        else:
            self.simple(ind)

    def cblock(self, ind, n, loop=False):
        """block of a compound statement (if / elif / else / for / while / try / except / finally / with bodies, any
        depth, any sibling position): may hold a `global mm` / `nonlocal nn` declaration at any position of the block.
        The declared name is only used textually after the declaration (Python rejects a use before it), in this
        block, in sibling blocks and after the compound statement."""
        r = self.r
        n = max(1, n)
        pos = r.randint(0, n - 1) if (self.o.declarations and r.random() < 0.2) else -1
        for i in range(n):
            if i == pos:
                cands = []
                if 'mm' not in self.declared[-1]:
                    cands.append('global mm')
                if self.depth_fn > 1 and self.nl_ok and 'nn' not in self.declared[-1]:
                    cands += ['nonlocal nn'] * 2
                if cands:
                    d = r.choice(cands)
                    self.emit(ind, d)
                    self.declared[-1].add(d.split()[1])
                    if r.random() < 0.7:
                        self.emit(ind, '%s = %s' % (d.split()[1], self.expr(2)))
            self.stmt(ind, loop)

    def deep_decl(self, ind):
        """a name bound here and declared nonlocal (or global) two or more function levels below, read-only, write-only
        or read+write there; the functions in between do not mention it (CPython: free in each of them)"""
        r = self.r
        v = r.choice(NAMES)
        kind = r.choice(['nonlocal', 'nonlocal', 'nonlocal', 'global'])
        if kind == 'nonlocal' or r.random() < 0.5:
            self.emit(ind, '%s = %s' % (v, self.expr(2)))
        levels = r.randint(2, 3)
        names = []
        for i in range(levels):
            self.uid += 1
            names.append('fn%d' % self.uid)
            self.emit(ind + i, 'def %s(%s):' % (names[-1], r.choice(['', 'p%d' % i, 'p%d=%s' % (i, self.name())])))
        b = ind + levels
        if r.random() < 0.3:
            self.emit(b, 'if %s:' % self.name())
            b += 1
            self.emit(b, '%s %s' % (kind, v))
            self.emit(b, 'pass')
            b -= 1
            self.emit(b, 'else:')
            self.emit(b + 1, 'pass')
        else:
            self.emit(b, '%s %s' % (kind, v))
        use = r.randint(0, 3)
        if use == 0:
            self.emit(b, 'return %s + %s' % (v, self.name()))
        elif use == 1:
            self.emit(b, '%s = %s' % (v, r.choice(['1', 'p0', self.name()]) if v != 'p0' else '1'))
        elif use == 2:
            self.emit(b, '%s += 1' % v)
            self.emit(b, 'return %s' % v)
        else:
            self.emit(b, 'del %s' % v)
        for i in reversed(range(levels - 1)):
            self.emit(ind + i + 1, r.choice(['return %s()' % names[i + 1], '%s()' % names[i + 1], 'return %s' % names[i + 1]]))

    def decls(self, ind):
        r = self.r
        if not self.o.declarations:
            return
        if r.random() < 0.3:
            self.emit(ind, 'global %s' % ', '.join(r.sample(GLOBALS + NAMES[:2], r.randint(1, 2))))
        if self.depth_fn > 1 and r.random() < 0.35:
            self.emit(ind, 'nonlocal %s' % ', '.join(r.sample(NAMES, r.randint(1, 2))))

    def fundef(self, ind, method=False, name=None):
        r = self.r
        o = self.o
        if r.random() < 0.15:
            self.emit(ind, '@%s' % self.expr(2))
            if r.random() < 0.3:
                self.emit(ind, '@%s' % self.expr(2))
        self.uid += 1
        nm = name or (r.choice(NAMES) if r.random() < 0.5 else 'fn%d' % self.uid)
        ret = ' -> %s' % self.annotation() if (o.annotations and r.random() < 0.15) else ''
        self.emit(ind, 'def %s(%s)%s:' % (nm, self.params(method), ret))
        self.depth += 1
        self.depth_fn += 1
        self.declared.append(set())
        self.decls(ind + 1)
        self.block(ind + 1, r.randint(1, 3))
        self.declared.pop()
        self.depth -= 1
        self.depth_fn -= 1

    def classdef(self, ind):
        r = self.r
        self.uid += 1
        nm = r.choice(NAMES) if r.random() < 0.3 else 'K%d' % self.uid
        base = '(%s)' % self.name() if r.random() < 0.3 else ''
        self.emit(ind, 'class %s%s:' % (nm, base))
        self.depth += 1
        save = self.depth_fn
        if r.random() < 0.2 and self.o.declarations:
            self.emit(ind + 1, 'global %s' % r.choice(GLOBALS))
        n = r.randint(1, 3)
        for i in range(n):
            c = r.random()
            if c < 0.45:
                self.emit(ind + 1, '%s = %s' % (r.choice(NAMES), self.expr()))
            elif c < 0.9:
                if self.o.ctor and r.random() < 0.5:
                    self.emit(ind + 1, 'def __init__(self, %s):' % r.choice(NAMES))
                    self.emit(ind + 2, 'self.%s = %s' % (r.choice(ATTRS), self.expr(2)))
                    self.emit(ind + 2, 'self.%s += %s' % (r.choice(ATTRS), self.expr(2)))
                else:
                    self.fundef(ind + 1, method=True)
            else:
                self.emit(ind + 1, self.expr())
        self.depth -= 1
        self.depth_fn = save


def gen_static(rnd, opts=None):
    """-> source of one top-level function `f` (may not compile: the caller filters with compile())."""
    o = opts or SOpts()
    g = SGen(rnd, o)
    g.depth = 0
    g.depth_fn = 0
    g.budget = o.max_stmts + rnd.randint(0, 6)
    save = o.nested_params
    o.nested_params = True
    ps = g.params()
    o.nested_params = save
    g.emit(0, 'def f(%s):' % ps)
    g.depth = 1
    g.depth_fn = 1
    if o.declarations and rnd.random() < 0.3:
        g.emit(1, 'global %s' % ', '.join(rnd.sample(GLOBALS, rnd.randint(1, 2))))
    if o.declarations and rnd.random() < 0.5:
        g.emit(1, 'nn = 0')
        g.nl_ok = True
    g.block(1, rnd.randint(2, 5))
    return '\n'.join(g.lines) + '\n'


def compiles(src):
    import warnings
    try:
        with warnings.catch_warnings():
            warnings.simplefilter('ignore')
            compile(src, '<c08>', 'exec')
        return True
    except (SyntaxError, ValueError, RecursionError):
        return False


# ------------------------------------------------------------------------------------------------
# runnable programs: progs.Gen plus scope-relevant statements written over the same runtime

GX_NAMES = ['GX', 'GY']


class DGen(progs.Gen):
    """Adds to the shared generator: del, nested def reading / rebinding outer variables (nonlocal),
    lambdas, comprehensions, walrus, global declarations, attribute / subscript stores on a local
    object, imports, multi-target with / for."""

    def block(self, ind, defined, depth, in_loop, in_handler_fin, minlen=1):
        # a `global GX` declaration inside the body of a compound statement (any sibling block, any depth), followed
        # by stores / reads of GX later in the text
        r = self.r
        gx = getattr(self, 'gx', None)
        if gx is None:
            gx = self.gx = []
        if depth > 0 and len(gx) < len(GX_NAMES) and r.random() < 0.22:
            nm = GX_NAMES[len(gx)]
            self.emit(ind, 'global %s' % nm)
            gx.append(nm)
            if r.random() < 0.7:
                self.emit(ind, '%s = %s' % (nm, self.texpr(defined)))
        return progs.Gen.block(self, ind, defined, depth, in_loop, in_handler_fin, minlen)

    def stmt(self, ind, defined, depth, in_loop, ihf):
        r = self.r
        if getattr(self, 'gx', None) and r.random() < 0.12 and self.budget > 0:
            self.budget -= 1
            nm = r.choice(self.gx)
            if r.random() < 0.6:
                self.emit(ind, '%s = %s' % (nm, self.texpr(defined)))
            else:
                self.emit(ind, '%s = %s + 1' % (r.choice(self.vars), nm))
                return defined, True
            return defined, True
        if r.random() < 0.28 and self.budget > 0:
            self.budget -= 1
            return self.extra(ind, defined), True
        return progs.Gen.stmt(self, ind, defined, depth, in_loop, ihf)

    def rd(self, defined):
        pool = sorted(defined)
        return self.r.choice(pool) if pool else '0'

    def shadow_comp(self, ind, defined, v):
        """a comprehension whose iterable reads the name of the clause's own target (parameter / local, global,
        closure variable; all four kinds; also in a nested clause)"""
        r = self.r

        def kind(elt, clauses):
            c = r.randint(0, 3)
            if c == 0:
                return '[%s %s]' % (elt, clauses)
            if c == 1:
                return 'len({%s %s})' % (elt, clauses)
            if c == 2:
                return '{%s: 1 %s}' % (elt, clauses)
            return 'sum(%s %s)' % (elt, clauses)
        where = r.randint(0, 5)
        d = self.rd(defined)
        if where == 4 and d != '0':            # nested: the inner target reuses f's variable, the outer level reads it after
            deep = r.random() < 0.4
            inner = 'sum(%s for %s in (q, 1))' % (d, d) if not deep else \
                'sum(sum(%s for %s in (q2, 1)) for q2 in (q, 2))' % (d, d)
            self.emit(ind, '%s = %s' % (v, kind('%s + %s' % (inner, d), 'for q in (1, 2)')))
            return defined | {v}
        if where == 5:                         # the same over a global the function only reads
            inner = r.choice(['len([GW for GW in (q,)])', 'len({GW for GW in (q,)})', 'sum(1 for GW in (q,))'])
            self.emit(ind, '%s = %s' % (v, kind('%s + len(GW)' % inner, 'for q in (1, 2) if %s if GW' % inner)))
            return defined | {v}
        where = where % 4
        if where == 0 and d != '0':            # parameter / local of f
            self.emit(ind, '%s = %s' % (v, kind('%s + 1' % d, 'for %s in (%s, 2)' % (d, d))))
        elif where == 1:                       # global that the function only reads
            self.emit(ind, '%s = %s' % (v, kind('GW + 1', 'for GW in GW')))
        elif where == 2 and d != '0':          # closure variable, read by a nested def
            nm = 'g%d' % self.key()
            self.emit(ind, 'def %s(p):' % nm)
            self.emit(ind + 1, 'return %s' % kind('%s + p' % d, 'for %s in (%s, p)' % (d, d)))
            self.emit(ind, '%s = %s(%s)' % (v, nm, self.texpr(defined)))
        elif d != '0':                         # nested clauses: the leftmost iterable reads its own target
            self.emit(ind, '%s = %s' % (v, kind('q', 'for %s in ((%s, 1),) for q in %s' % (d, d, d))))
        else:
            self.emit(ind, '%s = %s' % (v, kind('GW', 'for GW in (GW,) for q in GW')))
        return defined | {v}

    def extra(self, ind, defined):
        r = self.r
        k = r.randint(0, 16)
        v = r.choice(self.vars)
        if k >= 14:
            return self.shadow_comp(ind, defined, v)
        if k == 13 and r.random() < 0.7:
            w = self.rd(defined)
            if w in self.vars or w in progs.PARAMS:
                # the variable of f is declared nonlocal two function levels below (read-only / write-only / read+write)
                a, b = 'g%d' % self.key(), 'g%d' % self.key()
                self.emit(ind, 'def %s(p):' % a)
                self.emit(ind + 1, 'def %s():' % b)
                self.emit(ind + 2, 'nonlocal %s' % w)
                use = r.randint(0, 2)
                if use == 0:
                    self.emit(ind + 2, 'return %s + p' % w)
                elif use == 1:
                    self.emit(ind + 2, '%s = p' % w)
                    self.emit(ind + 2, 'return p')
                else:
                    self.emit(ind + 2, '%s += p' % w)
                    self.emit(ind + 2, 'return %s' % w)
                self.emit(ind + 1, 'return %s()' % b)
                self.emit(ind, '%s = %s(%s)' % (v, a, self.texpr(defined)))
                return defined | {v}
        if k == 0:
            self.emit(ind, '%s = [q + %s for q in (1, 2) if q]' % (v, self.rd(defined)))
            return defined | {v}
        if k == 1:
            form = r.randint(0, 5)
            a1, a2 = self.rd(defined), self.rd(defined)
            if form == 0:
                self.emit(ind, '%s = (lambda p, r=%s: p + r + %s)(%s)' % (v, a1, a2, self.texpr(defined)))
            elif form == 1:     # keyword-only default (args.kw_defaults)
                self.emit(ind, '%s = (lambda p, *, r=%s: p + r)(%s)' % (v, a1, self.texpr(defined)))
            elif form == 2:     # positional-only, *args, keyword-only default, **kwargs
                self.emit(ind, '%s = (lambda p, /, *aa, r=%s, s=%s, **kk: p + r + s)(%s)' % (v, a1, a2, self.texpr(defined)))
            elif form == 3:     # defaults that are a lambda / a comprehension
                self.emit(ind, '%s = (lambda p, r=(lambda: %s), *, s=[q for q in (%s,)]: p + r() + s[0])(%s)' % (
                    v, a1, a2, self.texpr(defined)))
            elif form == 4:     # nested def: keyword-only default, annotation on a keyword-only parameter, decorator
                nm = 'g%d' % self.key()
                self.emit(ind, '@DEC(%s)' % a2)
                self.emit(ind, 'def %s(p, /, *aa, r: TY = %s, **kk):' % (nm, a1))
                self.emit(ind + 1, 'return p + r')
                self.emit(ind, '%s = %s(%s)' % (v, nm, self.texpr(defined)))
            else:               # keyword-only default that is itself a lambda with a keyword-only default
                self.emit(ind, '%s = (lambda *, r=(lambda *, s=%s: s): r())()' % (v, a1))
            return defined | {v}
        if k == 2:
            v2 = r.choice(self.vars)
            self.emit(ind, '%s = (%s := %s) + 1' % (v, v2, self.texpr(defined)))
            return defined | {v, v2}
        if k == 3:
            nm = 'g%d' % self.key()
            w = self.rd(defined)
            self.emit(ind, 'def %s(p%s, r=%s):' % (nm, ': TY' if r.random() < 0.4 else '', self.rd(defined)))
            if w in self.vars or w in progs.PARAMS:
                form = r.randint(0, 3)
                if form == 0:
                    self.emit(ind + 1, 'nonlocal %s' % w)
                    self.emit(ind + 1, '%s = p + r' % w)
                elif form == 1:             # declaration inside the body of an if (not the last sibling block)
                    self.emit(ind + 1, 'if p:')
                    self.emit(ind + 2, 'nonlocal %s' % w)
                    self.emit(ind + 2, '%s = p + r' % w)
                    self.emit(ind + 1, 'else:')
                    self.emit(ind + 2, '%s = r' % w)
                elif form == 2:             # inside a loop body, used after the loop
                    self.emit(ind + 1, 'for q in (1, 2):')
                    self.emit(ind + 2, 'if q:')
                    self.emit(ind + 3, 'nonlocal %s' % w)
                    self.emit(ind + 1, '%s = p + r' % w)
                else:                       # inside try / with bodies
                    self.emit(ind + 1, 'try:')
                    self.emit(ind + 2, 'with CM(%d):' % self.key())
                    self.emit(ind + 3, 'nonlocal %s' % w)
                    self.emit(ind + 3, '%s = p + r' % w)
                    self.emit(ind + 1, 'finally:')
                    self.emit(ind + 2, '%s = %s + 1' % (w, w))
            self.emit(ind + 1, 'return %s' % self.texpr(defined | {'p', 'r'}))
            self.emit(ind, '%s = %s(%s)' % (v, nm, self.texpr(defined)))
            return defined | {v}
        if k == 4:
            self.emit(ind, 'import os.path as %s' % v)
            return defined | {v}
        if k == 5:
            self.emit(ind, 'GO.p = %s' % self.texpr(defined))
            return defined
        if k == 6:
            self.emit(ind, 'GO.d[%s] = GO.p + %s' % (self.rd(defined), self.texpr(defined)))
            return defined
        if k == 7:
            self.emit(ind, 'GV = %s' % self.texpr(defined))       # GV is declared global in f
            return defined
        if k == 8:
            self.emit(ind, '%s = GV + %s' % (v, self.rd(defined)))
            return defined | {v}
        if k == 9 and defined:
            d = self.rd(defined)
            if d in self.vars:
                self.emit(ind, 'del %s' % d)
                return defined - {d}
            self.emit(ind, self.texpr(defined))
            return defined
        if k == 10:
            v2 = r.choice(self.vars)
            self.emit(ind, 'for %s, %s in [(1, 2)]:' % (v, v2))
            self.emit(ind + 1, '%s' % self.texpr(defined | {v, v2}))
            return defined
        if k == 11:
            self.emit(ind, '%s = {q: %s for q in (1,)}' % (v, self.rd(defined)))
            return defined | {v}
        if k == 12:
            form = r.randint(0, 5)
            d = self.rd(defined)
            if form == 0:
                self.emit(ind, '%s: int = %s' % (v, self.texpr(defined)))
                return defined | {v}
            if form == 1:       # value-less declarations: nothing stored, target sub-expressions still evaluated
                self.emit(ind, '%s: int' % v)
            elif form == 2:
                self.emit(ind, 'GO.p: int')
            elif form == 3:
                self.emit(ind, 'GO.d[%s]: TY' % d)
            elif form == 4:
                self.emit(ind, 'GH(%s).d[%s]: int = %s' % (d, d, self.texpr(defined)))
            else:
                self.emit(ind, 'GH(%s).p: TY' % d)
            return defined
        self.emit(ind, '%s = sum(q + %s for q in (1, 2))' % (v, self.rd(defined)))
        return defined | {v}


def gen_dynamic(rnd, max_stmts=14):
    o = progs.Opts(reads='safe', nested_def=True, delete=True, max_stmts=max_stmts)
    g = DGen(rnd, o)
    g.emit(0, 'def f(%s):' % ', '.join(progs.PARAMS))
    g.emit(1, 'global GV')
    defined = g.block(1, set(progs.PARAMS), 0, False, False, minlen=2)
    if rnd.random() < 0.8:
        g.emit(1, 'return %s' % g.texpr(defined))
    return '\n'.join(g.lines) + '\n'


if __name__ == '__main__':
    import random
    import sys
    rnd = random.Random(int(sys.argv[1]) if len(sys.argv) > 1 else 0)
    n = 0
    while n < 3:
        s = gen_static(rnd)
        if compiles(s):
            print(s)
            n += 1
    print(gen_dynamic(rnd))
