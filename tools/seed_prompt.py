"""Writes /tmp/seedprompt-<ID>[-n].txt: the task given to a fresh mutation sub-agent (property text only)."""
import json, sys
pid = sys.argv[1]
tag = sys.argv[2] if len(sys.argv) > 2 else '1'
hint = sys.argv[3] if len(sys.argv) > 3 else ''
p = {json.loads(l)['id']: json.loads(l) for l in open('/verif/properties.jsonl')}[pid]
wt = '/tmp/seedwt-%s-%s' % (pid, tag)
out = '/tmp/seeded-%s-%s' % (pid, tag)
text = f"""You are testing a verification effort from the outside. The Python project PennyLaneAI/diastatic-malt (an AutoGraph fork: a source-to-source transpiler that rewrites Python control flow into overloadable operator calls) is checked out in /repo. Do NOT modify /repo and do NOT look at or use anything under /verif (it must stay independent of your work).

A semantic property the project is supposed to satisfy:

  {pid}: {p['title']}
  {p['statement']}
  Quantified over: {p['quantifier']['text']}

YOUR TASK: produce ONE realistic code change to the project (the kind of mistake a developer could plausibly make in a refactoring, optimisation or bug fix -- not sabotage, not a syntax error, not a renamed symbol) that BREAKS this property while
  (a) the package still imports and the existing test-suite still passes (the same tests pass as before your change), and
  (b) the breakage does NOT show up in ordinary simple use: it needs something specific to manifest -- an unusual input or program shape, a multi-step sequence of operations, a particular nesting or interleaving, a fault at a particular point, or two cooperating code sites that each look fine alone. {hint}

HOW TO WORK
 1. Create your own scratch worktree:   git -C /repo worktree add {wt} HEAD   and make your change there (python: PYTHONPATH={wt} /venv/bin/python ...; every shell prints a harmless conda warning line, ignore it).
 2. Read the relevant source under {wt}/malt to find a good spot. Anchored files for this property: {', '.join(p['anchors']['files'][:12])}.
 3. Write a small demonstration program {out}/demo.py that takes the repo path from the environment variable REPO (default /repo), inserts it into sys.path FIRST, exercises the property, prints what it observes and exits 0 if the property holds on what it tried and 1 if it is violated. It must exit 0 with REPO=/repo (unchanged code) and exit 1 with REPO={wt} (your change).
 4. Check the test-suite still passes with your change:  cd {wt} && PYTHONPATH={wt} /venv/bin/python -m pytest -q -p no:cacheprovider --timeout=900 --continue-on-collection-errors -x -q tests/pyct tests/operators tests/core tests/converters 2>&1 | tail -5   -- many tests of this suite fail to collect or fail already on the unchanged code; what matters is that the set of PASSING tests is not reduced: compare with the same command run in /repo (counts of passed must be equal).
 5. Save:  {out}/patch.diff  (output of `git -C {wt} diff`),  {out}/demo.py,  {out}/NOTES.md (what the change is, why it is realistic, what exactly is needed for the breakage to manifest, the commands you ran and their results).
 6. Remove your worktree when done:  git -C /repo worktree remove --force {wt}

Keep the change small (1-15 lines). Final message: 10 lines summarising the change, what it needs to manifest, and the demo results on both trees."""
open('/tmp/seedprompt-%s-%s.txt' % (pid, tag), 'w').write(text)
print('/tmp/seedprompt-%s-%s.txt' % (pid, tag))
