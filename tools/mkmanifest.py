"""Writes /verif/MANIFEST.json from the table below (run after adding a property driver)."""
import json
import os

ROOT = os.path.dirname(os.path.dirname(os.path.abspath(__file__)))

NOTE_BASE = ('Trusted: Coq 8.16.1 kernel + VM (vm_compute), no native_compute, no axioms (Print Assumptions under every '
             'obligation is parsed on every run); the Python translators/exporters/oracles in /verif/tools; CPython 3.12.1 as oracle. ')

CHECKS = {
    'C20': dict(
        text='Universally quantified Coq theorems (round-trip of to_ast/eval, == iff attribute tuple, equal => equal hash, '
             'unequal => compare unequal, call_options and uses specifications) over a model whose tables are regenerated from '
             'malt/core/converter.py on every run and re-proved; plus an exhaustive correspondence of the model (evaluated in Coq) '
             'with the implementation over all 8 x (1+7+128+24) constructor calls and all pairs for ==/hash. Complete for this property.',
        note=NOTE_BASE + 'Modelled, not verified: Python hash() (an arbitrary function of the tuple), frozenset equality, '
             'the binding of ag__ names (exercised exhaustively by the oracle with the real extra locals).',
        technique='Coq proof over tables generated from source + exhaustive model/implementation correspondence',
        design='4/C20'),
}

NOT_YET = {}


def main():
    props = [json.loads(l) for l in open(os.path.join(ROOT, 'properties.jsonl'))]
    checks = []
    na = []
    for p in props:
        pid = p['id']
        if pid in CHECKS:
            c = CHECKS[pid]
            checks.append({
                'property_id': pid,
                'quick_cmd': 'bin/check %s --tier quick' % pid,
                'thorough_cmd': 'bin/check %s --tier thorough' % pid,
                'evidence_file': '/verif/evidence/%s.json' % pid,
                'replay_cmd_template': 'bin/check %s --replay {path}' % pid,
                'engine': 'coq-malt',
                'level_claimed': {'category': 'proof', 'text': c['text'], 'design_ref': 'DESIGN.md section ' + c['design']},
                'level_note': c['note'],
                'technique': c['technique'],
            })
        else:
            na.append({'property_id': pid, 'reason': NOT_YET.get(
                pid, 'not claimed yet: the model and check for this property are still being built (see DESIGN.md section 4); '
                     'the technique applies, nothing is asserted until the check exists')})
    m = {
        'version': 1,
        'setup_cmd': 'bin/setup',
        'hooks': {
            'guard': 'PENNYLANEAI_DIASTATIC_MALT_VERIF',
            'enable': 'no source hooks: the harness observes by monkey-patching from /verif/tools; checks export PENNYLANEAI_DIASTATIC_MALT_VERIF=1 anyway',
            'baseline_off_cmd': 'cd /repo && /venv/bin/python -m pytest -ra -q -p no:cacheprovider --timeout=900 --continue-on-collection-errors',
            'source_commits': [],
            'add_only': True,
        },
        'engines': [{'name': 'coq-malt', 'path': '/verif/coq', 'serves_properties': sorted(CHECKS),
                     'kind_free_text': 'Coq 8.16.1 development (models + theorems); tables regenerated from /repo by tools/translate, '
                                       'hand models tied by correspondence evaluated with vm_compute on harness-written cases'}],
        'checks': checks,
        'not_applicable': na,
        'notes': 'bin/check <ID> --tier quick|thorough; known findings in /verif/known_findings.json; design in DESIGN.md',
    }
    with open(os.path.join(ROOT, 'MANIFEST.json'), 'w') as f:
        json.dump(m, f, indent=1)
    print('wrote MANIFEST.json with %d checks, %d not_applicable' % (len(checks), len(na)))


if __name__ == '__main__':
    main()
