"""Writes /verif/MANIFEST.json from the table below (run after adding a property driver)."""
import json
import os

ROOT = os.path.dirname(os.path.dirname(os.path.abspath(__file__)))

NOTE_BASE = ('Trusted: Coq 8.16.1 kernel + VM (vm_compute), no native_compute, no axioms (Print Assumptions under every '
             'obligation is parsed on every run); the Python translators/exporters/oracles in /verif/tools; CPython 3.12.1 as oracle. ')

CHECKS = {
    'C20': dict(
        text='Universally quantified Coq theorems (round-trip of to_ast/eval, == iff attribute tuple, equal => equal hash, '
             'unequal => compare unequal, call_options and uses specifications) over a model whose tables are regenerated from '
             'malt/core/converter.py on every run and re-proved; plus an exhaustive correspondence of the model (evaluated in Coq) '
             'with the implementation over all 8 x (1+7+128+24) constructor calls and all pairs for ==/hash; the conversion-cache sub-key (api.PyToPy.get_caching_key, translated on every run) is proved to cover every attribute == compares, so reused code embeds the requested options (cache_key_complete, reused_code_embeds_requested_options), with an oracle converting one function under sequences of option values. Complete for this property.',
        note=NOTE_BASE + 'Modelled, not verified: Python hash() (an arbitrary function of the tuple), frozenset equality, '
             'the binding of ag__ names (exercised exhaustively by the oracle with the real extra locals).',
        technique='Coq proof over tables generated from source + exhaustive model/implementation correspondence',
        design='4/C20'),
}

CHECKS['C05'] = dict(
    text='Kernel-checked theorem cfg_contains_executions: for every function skeleton (assign/if/while/for/break/continue/return/'
         'raise/try-except-else-finally/with, any nesting), every decision sequence and any fuel, the executed node trace is a path '
         'of the model graph from the entry to an exit node, jumps running through enclosing finally bodies and raises reaching '
         'enclosing handlers -- no guard left: the handler-jump defect of cfg.py found by this check was repaired in /repo and the theorem '
         'is now unconditional (regression witness kept). '
         'Tied on every run: the model graph is a sub-graph of what malt.pyct.cfg.build returns (same nodes, same error nodes) and '
         'the trace semantics reproduces real CPython line traces under logged decisions, on seeded generated programs; oracle checks '
         'Graph well-formedness (next/prev mirror, stmt_prev/stmt_next recomputed lexically) and path-ness of real traces on the real graph.',
    note=NOTE_BASE + 'Modelled not verified: the imperative GraphBuilder (tied by sub-graph inclusion, so quirk edges of the '
         'implementation are tolerated), lambda nodes (contracted), implicit exceptions (excluded by property and by cfg.py), '
         'exceptions leaving a try-with-finally end the claimed trace.',
    technique='Coq proof (induction on fuel, CPS edge model) + model/impl graph inclusion + CPython trace correspondence',
    design='4/C05')
CHECKS['C01'] = dict(
    text='Partial proof: (1) the pass pipeline extracted from PyToPy.transform_ast on every run is proved to satisfy the ordering '
         'constraints the lowering passes rely on (pipeline_order_sound); (2) the break, continue and return canonicalisation passes '
         '(incl. ConditionalReturnRewriter) are modelled as executable Gallina (the actual guard-placement state machines) and proved '
         'semantics-preserving for all programs of a lowering language with opaque user atoms -- if / while / for / break / continue / '
         'return / raise / with / try-except-else-finally (exceptions from raise statements and from user statements / return values that '
         'raise while being evaluated, bare except clauses, handler dispatch by decision, finally clauses that complete normally) -- all stores, all decision sequences, runs that complete, return or end in an exception '
         '(break_lowering_correct, continue_lowering_correct, return_lowering_correct and their composition lowering_correct: mutual induction over a relational big-step '
         'semantics, linked to the fuelled interpreter); the models are tied to break_statements.py / continue_statements.py / '
         'return_statements.py on every run by structural comparison of their outputs on the real passes\' inputs (~330 generated '
         'programs), the side conditions of the composition theorem are proved to follow from a condition on the source program alone '
         '(lowering_correct_source), and the semantics of the lowering language itself is validated against CPython on every run (event '
         'log, decisions incl. handler dispatch and the way the call ends, ~1000 runs). Proving the try/else case exposed a defect in the first repair of /repo, since corrected. '
         '(3) functionalisation (control_flow.py turning if / while / for bodies into local functions whose non-state variables become locals of '
         'the generated function) is proved equivalent on everything live for every annotated program that passes decidable side conditions '
         '(functionalise_correct); the conditions are evaluated in Coq on every generated program, on the live sets of the real analysis and on the '
         'locals of the really generated body functions read off with CPython\'s symtable (translation validation, ~115 programs per run). '
         '(4) the expression passes (conditional_expressions.py, logical_expressions.py: and / or / not / conditional expressions / == != rewritten into '
         'operator calls with lambdas) are proved to preserve value, trace and decisions for all expressions with the operator implementations '
         'translated from malt/operators on every run (expression_passes_correct; comparison chains with an overloaded operator are the known '
         'finding chain_refuted); model tied structurally to the real passes (~330 expressions per run), expression semantics validated against CPython. '
         '(5) the variables pass (variables.py: reads through ag__.ld, del as ld + Undefined placeholder, augmented assignment through a '
         'preliminary ld) is proved to preserve outcome, event log and store relation for every core-language block started from a store in which '
         'unbound variables may hold their placeholder, and never to let the placeholder reach user code (variables_pass_correct; '
         'operand_must_be_wrapped is the witness of the defect repaired in /repo 7e8458c); the model on generic trees is tied to the real pass on whole '
         'function bodies (~40 per run) and linked to the core-language model by pass_models_agree; semantics validated against CPython with the real '
         'ag__.ld / ag__.Undefined (~440 runs). '
         '(6) the default control-flow operators (operators/control_flow.py if_stmt / while_stmt / for_stmt and their _py_ implementations, translated '
         'on every run) are proved to follow the protocol of the native statements for every callback record (control_operators_correct: '
         'test before every fetch for loops with a lowered break), tied to the real operators by logged runs (~160 per run). '
         '(7) the call_trees pass is proved to preserve the order of evaluation of callee, arguments, unpackings and keywords and the call made '
         '(call_trees_correct; sole_star_refuted is the known finding f(*x, k=g())); model tied to the real pass on every maximal expression of '
         'generated programs, call semantics validated against CPython. '
         'The end-to-end claim (13 passes + loader) is validated, not proved: a differential oracle runs original vs '
         'malt.to_graph(original) on seeded generated programs x decision vectors x option sets (recursive on/off, feature sets) and '
         'compares return value, ordered external-call log, exception type, mutated arguments and module globals.',
    note=NOTE_BASE + 'Composition of all passes is validated by differential testing only. Known findings listed in '
         'known_findings.json (for-loop target killed on the loop-exit edge; LISTS augmented subscript assignment; chained equality with the EQUALITY_OPERATORS feature; closure variables of stored lambdas; dict(**kw) with a rebound name dict; sole starred argument unpacked before keywords).',
    technique='Coq proofs by mutual induction over big-step semantics (lowering, functionalisation, expression passes) + generated operator/pipeline tables + structural and semantic model/implementation correspondence + differential oracle against CPython (partial: composition validated)',
    design='4/C01')
CHECKS['C16'] = dict(
    text='Kernel-checked theorems state, for all call trees mixing every wrapper of the API with exceptions raised at any node and '
         'swallowed at any ancestor, that the per-thread context stack is restored to the very same objects on every exit, that the '
         'identity assert never fires, that the status inside do_not_convert and user-requested converted regions is as specified, and '
         'that under any interleaving no thread is ever disturbed. The model interprets tables regenerated from the source on every '
         'run (fail-closed translator, side conditions re-proved by vm_compute) and is tied by exhaustive two-level plus random '
         'trace correspondence on the real API from 1 to 8 threads (thorough: 16).',
    note=NOTE_BASE + 'Thread-locality of threading.local itself is CPython\'s; wrapped callables are plain functions (no generators / '
         'coroutines); no asynchronous exceptions between __enter__ and the with body.',
    technique='generated tables + interpreter model, induction over call trees and schedules, trace correspondence',
    design='4/C16')

CHECKS['C11'] = dict(
    text='Kernel-checked theorems over an executable model of Namer.new_symbol: for any namespace, any scope chain and any number '
         'of requests the generated names are pairwise distinct, outside the namespace, outside the reserved set, and the search loop '
         'terminates; with the reserved set that activity.Scope.referenced computes on this run (translated from source; side condition '
         'covers_writes re-proved) no generated name equals a name the user code reads or writes in the requesting or an enclosing scope. '
         'Tied by request-sequence correspondence against the real Namer and judged by a differential oracle over programs whose '
         'identifiers come from the converter vocabulary in every role.',
    note=NOTE_BASE + 'Identifiers are ASCII strings (str.isdigit on non-ASCII digits not modelled); the fixed alias ag__ is not '
         'produced by the Namer (known finding); capture through names visible only via eval/locals is out of scope.',
    technique='Coq proof (pigeonhole termination, freshness induction) + generated reserved-set table + differential oracle',
    design='4/C11')
CHECKS['C13'] = dict(
    text='Kernel-checked theorems over decision tables regenerated from api.py, conversion.py, config.py and config_lib.py on every '
         'run: the full conversion policy and its not-converted and fallback consequences (exhaustive over all ~7M situations, lifted '
         'with forall-combinators), functools.partial unwrapping at any depth and rule prefix matching over all strings (inductive). '
         'Tied by ~3.8k model/implementation cases and a differential oracle with fault injection at 24 pipeline stages. Partial: '
         'binding is proved outside two known-finding callable kinds (binding_refuted).',
    note=NOTE_BASE + 'Atom leaf tests (inspect.*, sys.modules scans, the weak-reference cache) are measured, not modelled; what '
         'runs inside a converted callee is C01, builtin overloads are C14.',
    technique='exhaustive finite proof + induction over tables generated from source, instrumented correspondence, fault-injecting oracle',
    design='4/C13')
CHECKS['C10'] = dict(
    text='Kernel-checked theorems over an n-thread interleaving machine, for every program satisfying a decidable double-checked-'
         'locking discipline, re-established on each run for the instruction skeleton extracted from PyToPy.transform_function: at '
         'most one transform per key and epoch, coherence, no aliasing, no staleness, no errors, lock release -- all interleavings, all '
         'request histories. Tied by deterministic forced schedules on the real PyToPy and cache-operation sequences on the real '
         'CodeObjectCache. Partial: GIL atomicity, weakref and RLock behaviour are validated by the oracle, not proved; no_error is '
         'refuted under alias GC (known finding).',
    note=NOTE_BASE + 'Assumes GIL-atomic dict operations, RLock semantics, code objects compare by value, C20 eq/hash of options.',
    technique='invariant proof over small-step interleaving semantics + generated skeleton + forced-schedule correspondence',
    design='4/C10')

CHECKS['C02'] = dict(
    text='Both forms of the property are proved in Coq. Dataflow form (state_complete / state_only_what_is_needed): for every control '
         'statement and every simple name bound in its bodies, live-out implies carried and among the declared outputs, live-in implies '
         'carried, declared nonlocal/global implies carried, and nothing else is carried -- over selection formulas translated from '
         'control_flow.py on every run. Semantic form (tracing_if_sound / tracing_while_sound / tracing_for_sound / '
         'tracing_harness_loops_sound): an executable model of the tracing protocol (both branches run, the second after set_state of '
         'the entry values, first nouts entries of the chosen branch kept; carried state re-injected before every iteration into a store '
         'whose other variables hold arbitrary tracing garbage on assigned names) agrees with the original statement on every variable '
         'live after it, for arbitrary bodies (functions on stores), values, iteration counts (divergence matched by divergence), and '
         '(tracing_program_sound, tracing_program_sound_reinjected: carried state re-injected before every iteration into arbitrary '
         'garbage) for whole structured programs of any nesting depth under big-step semantics, with '
         'the state tuple and nouts being those of the generated formulas; the remaining hypotheses are the semantic contents of C08 '
         '(bodies write only their modified set) and C07 (liveness: live-out values depend only on live-in values; loop header kills '
         'nothing; for whole programs: the closure of the loop header sets, checked by an executable checker). Tied by calling the real '
         '_get_block_vars on random liveness sets and on every context of the converted programs against the model, by running the '
         'protocol model against the injected backend on concrete stores, and by running random nested jump-free programs through the '
         'real pipeline with the injected backend against the executable whole-program model (checker + both interpreters, proved '
         'sound for the big-step relations). End to end the semantic form is additionally validated: the '
         'tracing-style if/while/for backend is injected into the real pipeline and compared with the original on pure generated '
         'programs. Partial: composite names and exceptions inside bodies are validated only.',
    note=NOTE_BASE + 'The tracing protocol is the documented one as implemented by the harness backend (tied to its Coq model on every '
         'run); programs are side-effect free and definitely assigned.',
    technique='Coq proof (simulation invariant over an executable protocol model) over generated selection formulas + direct '
              'correspondence with _get_block_vars and with the injected backend + tracing-backend differential oracle',
    design='4/C02')
CHECKS['C12'] = dict(
    text='Kernel-checked theorems over a model of _stack_trace_inside_mapped_code, the metadata daisy chain across any depth of '
         'nested converted calls (induction on depth), the exception re-creation rule over if-chains and tables regenerated from '
         'the source on every run, and create_source_map. Tied by correspondence on synthetic cases and on every real recorded '
         'traceback and source map, with the theorem hypotheses evaluated on real runs. Partial: origin inheritance through the '
         'passes and CPython frames/tracebacks are judged differentially by a marker oracle only; two _refuted witnesses correspond '
         'to known findings.',
    note=NOTE_BASE + 'The "plain type" spec is a hand list of builtins; "same type" for KeyError means the KeyError-named subclass; '
         'lambda frames are named after the enclosing def.',
    technique='Coq proof over generated tables + model/implementation correspondence + differential traceback/marker oracle',
    design='4/C12')

CHECKS['C14'] = dict(
    text='Proved for all argument values and any arity: every supported builtin whose overload (parameter list and forwarding chain '
         'generated from py_builtins.py on every run) passes the per-run symbolic conformance check forwards exactly one identically '
         'bound call of the same builtin, in any keyword order; what the frame search returns; super() finds the function frame through '
         'any number of generated body frames. Tied by exhaustive call-shape correspondence with recorder builtins (~2100 shapes), '
         'bind vs CPython binding, documented signatures vs real builtins, find_frame vs real stacks; judged by a value/laziness/stdout '
         'oracle. Partial: eval/locals proved only for calls directly in the function body (refuted inside functionalised bodies = known '
         'finding); the builtins\' own behaviour is CPython\'s.',
    note=NOTE_BASE + 'Hand-written documented signatures and bind are validated against CPython every run; registries empty; user '
         'values never equal UNSPECIFIED; frames are modelled by their f_locals only.',
    technique='generated overload tables + symbolic case-split proofs + exhaustive shape correspondence + differential oracle',
    design='4/C14')
CHECKS['C15'] = dict(
    text='Kernel-checked theorems over a character-level model of _unfold_continuations and dedent_block: dedenting keeps every '
         'token, string byte, comment and newline and removes exactly the block indentation, for all sources satisfying a decidable '
         'guard; over rules generated from _parse_lambda, selection never returns a lambda other than the creator. Tied by a generated-'
         'rule discipline re-checked each run and ~2000 Coq-evaluated correspondence cases; the specification lexer is validated '
         'against tokenize; oracle: ast.dump(parse_entity(f)) vs the node CPython compiled, over generated modules. Three guard regions '
         '(backslash-newline in strings, after comments, gluing tokens) are known findings with refuted witnesses.',
    note=NOTE_BASE + 'CPython tokenize / inspect.getblock / linecache / ast.parse are the oracle, not modelled beyond PyLex; f-strings '
         'lexed as plain strings; ASCII text with space and tab only.',
    technique='Coq lexical state machine + simulation proofs; generated decision rules; differential oracle against CPython AST',
    design='4/C15')

CHECKS['C06'] = dict(
    text='The generic gen/kill soundness (fixpoint_sound_fwd / fixpoint_sound_bwd: any solution of the equations is sound along every chain) is proved and composed with C05 so that it holds along every execution trace of the skeleton semantics (all trip counts incl. zero); the transfer equations are translated from the analysis source on every run with their gen/kill shape re-proved; per generated program Coq checks that the solution the real analysis reports is the exact fixed point on the implementation graph and that the annotations follow from it. Oracle: CPython variable events (sys.monitoring) give the real last writer / use-before-overwrite at every statement instance. The event-level theorem is guarded by the for-header known finding; closure-crossing and except-as parts are partial.',
    note=NOTE_BASE + 'Trusts the exporter/oracle in tools/export/flow.py, the C05 graph tie, CPython 3.12 monitoring events and the statement-per-line generator; assumes no implicit exceptions; the worklist itself is not modelled (the per-run fixed-point check carries it).',
    technique='Coq gen/kill theory + generated transfer + reflective per-program fixed-point checks + CPython last-writer oracle',
    design='4/C06')
CHECKS['C07'] = dict(
    text='The generic gen/kill soundness (fixpoint_sound_fwd / fixpoint_sound_bwd: any solution of the equations is sound along every chain) is proved and composed with C05 so that it holds along every execution trace of the skeleton semantics (all trip counts incl. zero); the transfer equations are translated from the analysis source on every run with their gen/kill shape re-proved; per generated program Coq checks that the solution the real analysis reports is the exact fixed point on the implementation graph and that the annotations follow from it. Oracle: CPython variable events (sys.monitoring) give the real last writer / use-before-overwrite at every statement instance. The event-level theorem is guarded by the for-header known finding; closure-crossing and except-as parts are partial.',
    note=NOTE_BASE + 'Trusts the exporter/oracle in tools/export/flow.py, the C05 graph tie, CPython 3.12 monitoring events and the statement-per-line generator; assumes no implicit exceptions; the worklist itself is not modelled (the per-run fixed-point check carries it).',
    technique='Coq gen/kill theory + generated transfer + reflective per-program fixed-point checks + CPython use-before-overwrite oracle',
    design='4/C07')

CHECKS['C03'] = dict(
    text='Kernel-checked theorems over tables regenerated from the current converter templates, operator sources and docs: names / getter / '
         'setter alignment and call wiring for arbitrary variable lists; get/set laws on an environment + heap model; nouts bounds and '
         'outputs-first for the current formulas; callback arities (converter = operator implementation = documented example). Every dynamic '
         'operator invocation of ~425 generated programs is judged against the property text by instrumented operators. Partial: attachment '
         'of directives to loops is validated dynamically, not proved; the laws carry the guards of three known findings.',
    note=NOTE_BASE + 'Trusted: translator shape recognition, templates.replace splicing semantics and Python sorted (validated by the static '
         'correspondence), heap objects modelled as plain records, while-loop identification via the source map.',
    technique='generated tables + Coq proofs by computation/induction + in-Coq correspondence + instrumented-operator oracle',
    design='4/C03')
CHECKS['C04'] = dict(
    text='Kernel-checked reflective theorem: any pass-table pipeline satisfying the decidable traversal/ordering discipline leaves no native '
         'overloadable construct outside the documented exemptions, for all programs (structural induction) and all option sets; the tables '
         '(per visit_* method: fields traversed, replaced or not, kinds introduced by templates; pass order; feature gates; grammar) are '
         'regenerated from the converter sources on every run and table_ok is re-proved by vm_compute. Partial: the pass semantics is an '
         'abstraction (templates reduced to the kinds they introduce), tied by exhaustive behavioural probing and survivor correspondence '
         'rather than by proof; static + dynamic routing oracle on planted constructs.',
    note=NOTE_BASE + 'spec_exempt / spec_natives are the reading of the property text; material hidden in EXTRA_LOOP_TEST annotations is '
         'attributed to the pass that creates it; visit_BoolOp pinned by AST hash.',
    technique='reflection over generated traversal tables + probing + static/dynamic routing oracle',
    design='4/C04')
CHECKS['C09'] = dict(
    text='Kernel-checked theorems over an executable model of erase / wrap / instantiate: cells are matched by name for any free-variable '
         'order and never mis-bound (the conversion raises otherwise); the parameter list and default objects are preserved with no user '
         'code evaluated; the globals dict is passed through; top-level decorators are dropped -- for every configuration satisfying a '
         'decidable discipline re-proved for the table regenerated from the source on each run. The end-to-end cell-sharing theorem is '
         'partial (CPython name resolution / FunctionType / cells are a validated hand model).',
    note=NOTE_BASE + 'CPython name resolution, FunctionType and cell semantics are compared with symtable / co_freevars / object identity on '
         '~425 generated functions per run; other passes are assumed not to edit the parameter list (checked per case).',
    technique='generated config + induction over name/cell lists + per-run cfg_ok + vm_compute correspondence + differential oracle',
    design='4/C09')

CHECKS['C08'] = dict(
    text='Kernel-checked for all programs of the model AST (mutual structural induction): the bound / global / nonlocal / parameter '
         'classification of every def and lambda computed by the executable model of the activity analysis equals CPython\'s binding rule, '
         'modulo the property\'s two exemptions; reads, writes and deletes of simple statements are in the statement\'s sets. The model is '
         'tied by exact correspondence of all recorded Scope objects with activity.resolve, the binding-rule spec by symtable and by '
         'instrumented CPython runs (sys.monitoring). Free variables and statements with lambdas/comprehensions are validated by '
         'correspondence and oracle only (partial); two known findings with refuted witnesses.',
    note=NOTE_BASE + 'The annotations set and call ARGS_SCOPE are not modelled; free variables compared in the inclusive sense.',
    technique='executable Gallina model + structural-induction proofs + differential correspondence (symtable, sys.monitoring)',
    design='4/C08')
CHECKS['C17'] = dict(
    text='Kernel-checked theorems over trees with node identities: template instantiation never duplicates or shares a node, and the '
         'context adjuster yields position-consistent contexts wherever its handler table is locally correct; re-proved each run for the '
         'handler table and the templates extracted from source. Tied by identity-aware correspondence on recorded real templates.replace '
         'calls. Partial: unparse/parse/compile/import and whole-pipeline composition are validated by the oracle (captured transform_ast '
         'tree: identity walk, ctx check, compile, parse(unparse(t)) == t, to_code equals the loaded module text), not proved.',
    note=NOTE_BASE + 'The pos_rule spec is validated against CPython\'s AST validator; the model is total, ValueError paths are outside it.',
    technique='table-generic induction + generated tables + identity-aware correspondence + loader oracle',
    design='4/C17')

CHECKS['C18'] = dict(
    text='Kernel-checked for every interpretation of the operations: expression-level ANF (hoisted statements + rewritten expression) '
         'preserves world, result and exception under a decidable order guard; ANF shape, freshness / rendering of temporaries and '
         'rejection of lazy constructs are proved in full; dispatch table, default configuration and gensym parameters are translated '
         'from anf.py on every run (tables_ok). Statement-level composition and compound statements are not proved, only tied '
         '(exact-output correspondence of the executable model with anf.transform on ~1100 cases per run) and differentially tested on '
         'CPython with tracer objects in every operand position. Outside the guard the property is false: known findings, three with '
         'refuted witnesses.',
    note=NOTE_BASE + 'Assumes names are atoms (no rebinding by operand operations), user names not of shape tmp_<digits>; BoolOp / '
         'IfExp / lambda opaque; the model semantics is validated through the refuted witnesses and the exact-output tie, not separately.',
    technique='nested-inductive model + monadic event semantics + two-phase commutation proof + generated table + tracer-object oracle',
    design='4/C18')

CHECKS['C19'] = dict(
    text='Partial proof. Kernel-checked: for one function graph, any in/out type maps closed under the visit_node inclusions are sound for '
         'every execution along CFG edges, for all variables whose every binding the inferrer types, with a truthful resolver (invariant '
         'over the trace); a certificate theorem reduces these hypotheses to a decidable check. Each run re-validates in Coq that the real '
         'Analyzer\'s maps meet the hypotheses (certificate) and that the model worklist reproduces them, on seeded generated functions; an '
         'instrumented twin compares every annotated expression / binding / closure capture with type() at run time. Variables with an '
         'untyped binding are refuted by machine-checked witnesses and listed as known findings.',
    note=NOTE_BASE + 'Worklist termination / fixed point validated per function, not proved; nested functions (closure types, side '
         'effects, alias calls) covered by the run-time oracle only; resolver truthfulness by construction of the scripted resolver.',
    technique='dataflow invariant proof + certificate checking in Coq + instrumented differential oracle',
    design='4/C19')

NOT_YET = {}


# what the last session (seed rounds 9 and 10) added to models / theorems / streams; appended to the level text
ADDENDA = {
    'C01': ' Deterministic grids added to the oracle: closures escaping by every route, two kinds of jump in one loop, bodies that consist of a docstring / constant only.',
    'C03': ' Added: visit_Delete translated and modelled (Contract/Delete), getter_total_across_delete; the oracle re-reads the state after every branch and iteration.',
    'C04': ' Added: tuple-valued child fields in the traversal discipline (slice-store bounds under LISTS).',
    'C05': ' Added stream: layered try/finally and loops whose jumps of different targets share finally guards, with directed decision vectors.',
    'C06': ' Added stream: explicit raise deeper in a try body than the fall-through path.',
    'C07': ' Added: liveness judged inside nested-function activations (closure reads of enclosing local functions), reads in every position of comprehensions.',
    'C09': ' Added: cache configuration translated (Iface/Served), served_by_equal_code, address_key_serves_other_function; short-lived module episodes with address reuse.',
    'C10': ' Added: allowlist key chain translated, function-object layer (allowlist_key_is_function_object, enabled_entity_requests_converted); entry layer above the transpiler cache (entry_coherent).',
    'C11': ' Added: names of the generated wrapper scopes (wrapper_names_never_capture, requests_go_to_context_namer).',
    'C14': ' Added: namespace model for globals() / locals() (globals_locals_hand_out_own_mapping) judged on multi-step traces.',
    'C15': ' Added: file layouts and text normalisation before parsing (parse_norm, never_substituted_in_file); modules outside sys.modules.',
    'C16': ' Added: inner functions of converted code as callees (scope-options decision tree translated, status_inside_nested_function).',
    'C17': ' Added: docstring layouts through the loader (the text written for the module must re-parse to the tree), tiny bodies.',
    'C18': ' Added: anf_renaming_invariant (the transformation commutes with every renaming of program variables), hoist template translated; lazily evaluated positions of try statements.',
    'C19': ' Added: closure certificate for sibling local functions (closure_types_reach_callee_entry, closure_late_site_refuted); two known findings.',
    'C20': ' Added: option flow through both scope entry points (callee_options_through_scopes).',
}
for _k, _v in ADDENDA.items():
    if _k in CHECKS:
        CHECKS[_k]['text'] = CHECKS[_k]['text'] + _v


def main():
    props = [json.loads(l) for l in open(os.path.join(ROOT, 'properties.jsonl'))]
    checks = []
    na = []
    for p in props:
        pid = p['id']
        if pid in CHECKS:
            c = CHECKS[pid]
            checks.append({
                'property_id': pid,
                'quick_cmd': 'bin/check %s --tier quick' % pid,
                'thorough_cmd': 'bin/check %s --tier thorough' % pid,
                'evidence_file': '/verif/evidence/%s.json' % pid,
                'replay_cmd_template': 'bin/check %s --replay {path}' % pid,
                'engine': 'coq-malt',
                'level_claimed': {'category': 'proof', 'text': c['text'], 'design_ref': 'DESIGN.md section ' + c['design']},
                'level_note': c['note'],
                'technique': c['technique'],
            })
        else:
            na.append({'property_id': pid, 'reason': NOT_YET.get(
                pid, 'not claimed yet: the model and check for this property are still being built (see DESIGN.md section 4); '
                     'the technique applies, nothing is asserted until the check exists')})
    m = {
        'version': 1,
        'setup_cmd': 'bin/setup',
        'hooks': {
            'guard': 'PENNYLANEAI_DIASTATIC_MALT_VERIF',
            'enable': 'no source hooks: the harness observes by monkey-patching from /verif/tools; checks export PENNYLANEAI_DIASTATIC_MALT_VERIF=1 anyway',
            'baseline_off_cmd': 'cd /repo && /venv/bin/python -m pytest -ra -q -p no:cacheprovider --timeout=900 --continue-on-collection-errors',
            'source_commits': [],
            'add_only': True,
        },
        'engines': [{'name': 'coq-malt', 'path': '/verif/coq', 'serves_properties': sorted(CHECKS),
                     'kind_free_text': 'Coq 8.16.1 development (models + theorems); tables regenerated from /repo by tools/translate, '
                                       'hand models tied by correspondence evaluated with vm_compute on harness-written cases'}],
        'checks': checks,
        'not_applicable': na,
        'notes': 'bin/check <ID> --tier quick|thorough; known findings in /verif/known_findings.json; design in DESIGN.md',
    }
    with open(os.path.join(ROOT, 'MANIFEST.json'), 'w') as f:
        json.dump(m, f, indent=1)
    print('wrote MANIFEST.json with %d checks, %d not_applicable' % (len(checks), len(na)))


if __name__ == '__main__':
    main()
