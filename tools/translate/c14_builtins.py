"""Fail-closed syntactic translator:
   malt/operators/py_builtins.py + the builtin branch of malt/impl/api.py:converted_call
   -> coq/Generated/C14_gen.v

Recognised shapes (anything else raises Untranslatable -> tie broken):

  SUPPORTED_BUILTINS = (<builtin names>)
  BUILTIN_FUNCTIONS_MAP = {'<key>': <function name>, ...}
  <r> = type_registry.TypeRegistry()                 registries
  def overload_of(f): if f in SUPPORTED_BUILTINS: return BUILTIN_FUNCTIONS_MAP[f.__name__]; return f
  every overload / helper reachable from the map entries of the supported builtins:
    parameters: any kinds; defaults in {0, True, False, None, '<str>', UNSPECIFIED}
    body := [docstring] stmt*
      o = registry_lookup(<r>, <param>); if o is not None: return o(<args>)      -> BDispatch
      u = tuple(set(<kw>.keys()) - set((<names>))); if u: raise <Exc>(...)        -> BKwAllowed
      fn = <helper>; for x in <star>: o = registry_lookup(<r>, x);
          if o is None or (fn != <helper> and o != fn): fn = <helper>; break
          fn = o
      ...; return fn(<args>)                                                      -> BCommon
      fn = <helper>; for x in <star>: o = registry_lookup(<r>, x);
          if o is not None: fn = o; break
      ...; return fn(<args>)                                                      -> BFirst
      if <cond>: <body> [else: <body>]        (without else the rest of the block is the else)
      return <callee>(<args>) | <callee>(<args>) as last statement | raise TypeError/ValueError(...)
    cond := p is UNSPECIFIED | p is not UNSPECIFIED | p | not c | c and c | c or c
    args := p | <const> | *p | k=p | k=<const> | **p ;  callee := a builtin name | a module function
  _find_originating_frame: pinned statement shape (hand-modelled in Builtins/Frames.v)
  eval/super/locals/globals _in_original_context: the `innermost=` flag of their frame search and
    what they read from the frame; for locals/globals whether the frame's own mapping object or a
    copy of it is handed out (ctx_ns_gen)
  converted_call: the `if inspect_utils.isbuiltin(f):` block: `if f is <b>: return py_builtins.<fn>(...)`*
    then `if kwargs: return overload_of(f)(*args, **kwargs) else: return overload_of(f)(*args)`
"""
import ast
import builtins
import os


class Untranslatable(Exception):
    pass


def _fail(node, msg, fname='py_builtins.py'):
    raise Untranslatable('untranslatable: %s:%s: %s' % (fname, getattr(node, 'lineno', '?'), msg))


def cstr(s):
    return '"' + s.replace('"', '""') + '"'


def clist(items):
    return '[' + '; '.join(items) + ']'


def copt(s):
    return 'None' if s is None else '(Some %s)' % cstr(s)


def _const(node):
    if isinstance(node, ast.Constant):
        v = node.value
        if v is True:
            return 'CTrue'
        if v is False:
            return 'CFalse'
        if v is None:
            return 'CNone'
        if isinstance(v, int) and not isinstance(v, bool) and v == 0:
            return 'CInt0'
        if isinstance(v, str):
            return '(CStr %s)' % cstr(v)
    if isinstance(node, ast.Name) and node.id == 'UNSPECIFIED':
        return 'CUnspec'
    return None


def _nodoc(body):
    if body and isinstance(body[0], ast.Expr) and isinstance(body[0].value, ast.Constant) \
            and isinstance(body[0].value.value, str):
        return body[1:]
    return body


class FnTranslator(object):
    def __init__(self, fn, funcs, registries):
        self.fn = fn
        self.funcs = funcs
        self.registries = registries
        a = fn.args
        self.params = [x.arg for x in a.posonlyargs + a.args + a.kwonlyargs]
        self.star = a.vararg.arg if a.vararg else None
        self.dstar = a.kwarg.arg if a.kwarg else None
        self.callees = set()
        self.fnvars = {}      # local name -> ('common'|'first', registry, star, helper)

    def sig(self):
        a = self.fn.args
        out = []
        pos = a.posonlyargs + a.args
        defaults = [None] * (len(pos) - len(a.defaults)) + list(a.defaults)
        for i, (p, d) in enumerate(zip(pos, defaults)):
            kind = 'PosOnly' if i < len(a.posonlyargs) else 'PosOrKw'
            out.append(self._param(p, kind, d))
        for p, d in zip(a.kwonlyargs, a.kw_defaults):
            out.append(self._param(p, 'KwOnly', d))
        return 'mksig %s %s %s' % (clist(out), copt(self.star), copt(self.dstar))

    def _param(self, p, kind, d):
        if d is None:
            dd = 'Required'
        else:
            c = _const(d)
            if c is None:
                _fail(d, 'default of %s.%s is not a recognised constant: %s' % (self.fn.name, p.arg, ast.unparse(d)))
            dd = '(Default %s)' % c
        return 'mkparam %s %s %s' % (cstr(p.arg), kind, dd)

    # ---- expressions
    def aexp(self, node):
        if isinstance(node, ast.Name) and node.id in self.params:
            return 'AParam %s' % cstr(node.id)
        c = _const(node)
        if c is not None:
            return 'AConst %s' % c
        _fail(node, 'argument expression ' + ast.unparse(node))

    def cargs(self, call):
        out = []
        for a in call.args:
            if isinstance(a, ast.Starred):
                if not (isinstance(a.value, ast.Name) and a.value.id == self.star):
                    _fail(a, 'starred argument is not the *parameter')
                out.append('CStar %s' % cstr(a.value.id))
            else:
                out.append('CPos (%s)' % self.aexp(a))
        for k in call.keywords:
            if k.arg is None:
                if not (isinstance(k.value, ast.Name) and k.value.id == self.dstar):
                    _fail(k, '** argument is not the **parameter')
                out.append('CStarStar %s' % cstr(k.value.id))
            else:
                out.append('CKw %s (%s)' % (cstr(k.arg), self.aexp(k.value)))
        return clist(out)

    def cond(self, node):
        if isinstance(node, ast.Compare) and len(node.ops) == 1 and isinstance(node.left, ast.Name) \
                and node.left.id in self.params and isinstance(node.comparators[0], ast.Name) \
                and node.comparators[0].id == 'UNSPECIFIED':
            if isinstance(node.ops[0], ast.Is):
                return '(CIsUnspec %s)' % cstr(node.left.id)
            if isinstance(node.ops[0], ast.IsNot):
                return '(CNot (CIsUnspec %s))' % cstr(node.left.id)
        if isinstance(node, ast.Name) and node.id in self.params:
            return '(CTruthy %s)' % cstr(node.id)
        if isinstance(node, ast.UnaryOp) and isinstance(node.op, ast.Not):
            return '(CNot %s)' % self.cond(node.operand)
        if isinstance(node, ast.BoolOp):
            ctor = 'CAnd' if isinstance(node.op, ast.And) else 'COr'
            parts = [self.cond(v) for v in node.values]
            out = parts[-1]
            for p in reversed(parts[:-1]):
                out = '(%s %s %s)' % (ctor, p, out)
            return out
        _fail(node, 'condition ' + ast.unparse(node))

    def target(self, func):
        if not isinstance(func, ast.Name):
            _fail(func, 'callee ' + ast.unparse(func))
        n = func.id
        if n in self.params or n == self.star or n == self.dstar:
            _fail(func, 'call of a parameter')
        if n in self.funcs:
            self.callees.add(n)
            return 'THelper %s' % cstr(n)
        if hasattr(builtins, n):
            return 'TBuiltin %s' % cstr(n)
        _fail(func, 'unknown callee ' + n)

    # ---- statements
    def is_lookup(self, stmt, argname=None):
        """o = registry_lookup(R, x) -> (o, R, x)"""
        if isinstance(stmt, ast.Assign) and len(stmt.targets) == 1 and isinstance(stmt.targets[0], ast.Name) \
                and isinstance(stmt.value, ast.Call) and isinstance(stmt.value.func, ast.Name) \
                and stmt.value.func.id == 'registry_lookup' and len(stmt.value.args) == 2 \
                and not stmt.value.keywords and all(isinstance(a, ast.Name) for a in stmt.value.args):
            r, x = stmt.value.args[0].id, stmt.value.args[1].id
            if r not in self.registries:
                _fail(stmt, 'unknown registry ' + r)
            return stmt.targets[0].id, r, x
        return None

    def block(self, stmts):
        if not stmts:
            _fail(self.fn, 'control reaches the end of %s without a forwarding call' % self.fn.name)
        s = stmts[0]
        rest = stmts[1:]
        # registry dispatch on one parameter
        lk = self.is_lookup(s)
        if lk and lk[2] in self.params:
            o, r, p = lk
            if not rest:
                _fail(s, 'registry lookup without test')
            t = rest[0]
            ok = (isinstance(t, ast.If) and not t.orelse and len(t.body) == 1 and isinstance(t.body[0], ast.Return)
                  and ast.unparse(t.test) == '%s is not None' % o
                  and isinstance(t.body[0].value, ast.Call) and isinstance(t.body[0].value.func, ast.Name)
                  and t.body[0].value.func.id == o)
            if not ok:
                _fail(t, 'registry dispatch shape')
            return '(BDispatch %s %s %s %s)' % (cstr(r), cstr(p), self.cargs(t.body[0].value), self.block(rest[1:]))
        # allowed-keywords check
        if isinstance(s, ast.Assign) and self.dstar and len(s.targets) == 1 and isinstance(s.targets[0], ast.Name) \
                and rest and isinstance(rest[0], ast.If):
            u = s.targets[0].id
            v = s.value
            t = rest[0]
            pat = None
            if isinstance(v, ast.Call) and ast.unparse(v.func) == 'tuple' and len(v.args) == 1 \
                    and isinstance(v.args[0], ast.BinOp) and isinstance(v.args[0].op, ast.Sub):
                l, r = v.args[0].left, v.args[0].right
                if ast.unparse(l) == 'set(%s.keys())' % self.dstar and isinstance(r, ast.Call) \
                        and ast.unparse(r.func) == 'set' and len(r.args) == 1 \
                        and isinstance(r.args[0], (ast.Tuple, ast.List, ast.Set)) \
                        and all(isinstance(e, ast.Constant) and isinstance(e.value, str) for e in r.args[0].elts):
                    pat = [e.value for e in r.args[0].elts]
            if pat is not None:
                ok = (isinstance(t.test, ast.Name) and t.test.id == u and not t.orelse and len(t.body) == 1
                      and isinstance(t.body[0], ast.Raise))
                if not ok:
                    _fail(t, 'allowed-keywords check shape')
                return '(BKwAllowed %s %s %s %s)' % (cstr(self.dstar), clist([cstr(x) for x in pat]),
                                                     self.exc(t.body[0]), self.block(rest[1:]))
        # fn = helper ; for x in star: ...
        if isinstance(s, ast.Assign) and len(s.targets) == 1 and isinstance(s.targets[0], ast.Name) \
                and isinstance(s.value, ast.Name) and s.value.id in self.funcs and rest and isinstance(rest[0], ast.For):
            fnv, helper = s.targets[0].id, s.value.id
            loop = rest[0]
            if not (isinstance(loop.target, ast.Name) and isinstance(loop.iter, ast.Name) and loop.iter.id == self.star
                    and not loop.orelse and loop.body):
                _fail(loop, 'dispatch loop header')
            x = loop.target.id
            lk = self.is_lookup(loop.body[0])
            if not lk or lk[2] != x:
                _fail(loop, 'dispatch loop must start with a registry lookup of the loop variable')
            o, r, _ = lk
            tail = [ast.unparse(b) for b in loop.body[1:]]
            common = ['if %s is None or (%s != %s and %s != %s):\n    %s = %s\n    break' % (o, fnv, helper, o, fnv, fnv, helper),
                      '%s = %s' % (fnv, o)]
            first = ['if %s is not None:\n    %s = %s\n    break' % (o, fnv, o)]
            if tail == common:
                kind = 'BCommon'
            elif tail == first:
                kind = 'BFirst'
            else:
                _fail(loop, 'dispatch loop body shape')
            self.callees.add(helper)
            self.fnvars[fnv] = (kind, r, self.star, helper)
            return self.block(rest[1:])
        if isinstance(s, ast.If):
            c = self.cond(s.test)
            then = self.block(s.body)
            if s.orelse:
                if rest:
                    _fail(rest[0], 'statement after if/else')
                return '(BIf %s %s %s)' % (c, then, self.block(s.orelse))
            return '(BIf %s %s %s)' % (c, then, self.block(rest))
        if isinstance(s, ast.Return):
            if rest:
                _fail(rest[0], 'statement after return')
            if not isinstance(s.value, ast.Call):
                _fail(s, 'return of a non-call')
            return self.call('BReturn', s.value)
        if isinstance(s, ast.Expr) and isinstance(s.value, ast.Call):
            if rest:
                _fail(rest[0], 'statement after a forwarding call')
            return self.call('BCallNone', s.value)
        if isinstance(s, ast.Raise):
            return '(BRaise %s)' % self.exc(s)
        _fail(s, 'statement ' + ast.unparse(s).split('\n')[0])

    def call(self, ctor, call):
        if isinstance(call.func, ast.Name) and call.func.id in self.fnvars:
            if ctor != 'BReturn':
                _fail(call, 'dispatch result must be returned')
            kind, r, star, helper = self.fnvars[call.func.id]
            return '(%s %s %s %s %s)' % (kind, cstr(r), cstr(star), cstr(helper), self.cargs(call))
        return '(%s (%s) %s)' % (ctor, self.target(call.func), self.cargs(call))

    def exc(self, s):
        e = s.exc
        name = e.func.id if isinstance(e, ast.Call) and isinstance(e.func, ast.Name) else (
            e.id if isinstance(e, ast.Name) else None)
        if name == 'TypeError':
            return 'ETypeError'
        if name == 'ValueError':
            return 'EValueError'
        _fail(s, 'raise of ' + ast.unparse(s))

    def translate(self):
        a = self.fn
        if a.decorator_list:
            _fail(a, 'decorated function')
        return 'mkfn (%s) %s' % (self.sig(), self.block(_nodoc(a.body)))


FIND_FRAME_SHAPE = '''ctx_frame = inspect.currentframe()
result = None
while ctx_frame is not None:
    if ctx_frame.f_locals.get(caller_fn_scope.name, None) is caller_fn_scope:
        result = ctx_frame
        if innermost:
            break
    ctx_frame = ctx_frame.f_back
assert result is not None, 'the conversion process should ensure the caller_fn_scope is always found somewhere on the call stack'
return result'''


def _frames(funcs):
    """-> Gallina list of (context builtin, innermost flag, what is read)."""
    ff = funcs.get('_find_originating_frame')
    if ff is None:
        raise Untranslatable('untranslatable: py_builtins.py: _find_originating_frame missing')
    if [a.arg for a in ff.args.args] != ['caller_fn_scope', 'innermost'] or ff.args.vararg or ff.args.kwarg:
        _fail(ff, '_find_originating_frame parameters')
    got = '\n'.join(ast.unparse(s) for s in _nodoc(ff.body))
    if got != FIND_FRAME_SHAPE:
        _fail(ff, '_find_originating_frame body is not the pinned shape')
    dflt = ff.args.defaults
    if len(dflt) != 1 or not isinstance(dflt[0], ast.Constant) or not isinstance(dflt[0].value, bool):
        _fail(ff, '_find_originating_frame default of innermost')
    default_inner = dflt[0].value
    out = []
    ns = []
    for b, fname in (('eval', 'eval_in_original_context'), ('super', 'super_in_original_context'),
                     ('locals', 'locals_in_original_context'), ('globals', 'globals_in_original_context')):
        fn = funcs.get(fname)
        if fn is None:
            raise Untranslatable('untranslatable: py_builtins.py: %s missing' % fname)
        calls = [n for n in ast.walk(fn) if isinstance(n, ast.Call) and isinstance(n.func, ast.Name)
                 and n.func.id == '_find_originating_frame']
        if len(calls) != 1:
            _fail(fn, 'exactly one frame search expected in ' + fname)
        c = calls[0]
        if not (len(c.args) >= 1 and isinstance(c.args[0], ast.Name) and c.args[0].id == 'caller_fn_scope'):
            _fail(c, 'frame search argument')
        inner = default_inner
        if len(c.args) == 2:
            if not isinstance(c.args[1], ast.Constant):
                _fail(c, 'innermost argument')
            inner = bool(c.args[1].value)
        for k in c.keywords:
            if k.arg != 'innermost' or not isinstance(k.value, ast.Constant):
                _fail(c, 'innermost argument')
            inner = bool(k.value.value)
        if b in ('locals', 'globals'):
            # what is handed out: the frame's own mapping object (Live) or a copy of it (Snapshot);
            # anything else fails closed
            attr = 'f_' + b
            stmts = _nodoc(fn.body)
            ok = False
            if len(stmts) == 1 and isinstance(stmts[0], ast.Return) and stmts[0].value is not None:
                v = stmts[0].value

                def own(e):
                    return isinstance(e, ast.Attribute) and e.attr == attr and e.value is c
                if own(v):
                    ok = True
                    ns.append('(%s, Live)' % cstr(b))
                elif (isinstance(v, ast.Call) and not v.keywords and len(v.args) == 1 and isinstance(v.func, ast.Name)
                      and v.func.id == 'dict' and own(v.args[0])) or \
                     (isinstance(v, ast.Call) and not v.keywords and not v.args and isinstance(v.func, ast.Attribute)
                      and v.func.attr == 'copy' and own(v.func.value)):
                    ok = True
                    ns.append('(%s, Snapshot)' % cstr(b))
        elif b == 'eval':
            body = [ast.unparse(s) for s in _nodoc(fn.body)]
            ok = body == ['ctx_frame = _find_originating_frame(caller_fn_scope, innermost=%s)' % inner,
                          'args = (args[0], ctx_frame.f_globals if len(args) < 2 else args[1], '
                          'ctx_frame.f_locals if len(args) < 3 else args[2])',
                          'return f(*args)']
        else:
            body = [ast.unparse(s) for s in _nodoc(fn.body)]
            ok = body == ['if args:\n    return f(*args)',
                          'ctx_frame = _find_originating_frame(caller_fn_scope, innermost=%s)' % inner,
                          "type_arg = ctx_frame.f_locals['__class__']",
                          'self_arg_name = ctx_frame.f_code.co_varnames[0]',
                          'self_arg = ctx_frame.f_locals[self_arg_name]',
                          'return f(type_arg, self_arg)']
        if not ok:
            _fail(fn, fname + ' body is not the pinned shape')
        out.append('(%s, %s)' % (cstr(b), 'true' if inner else 'false'))
    return clist(out), clist(ns)


def _converted_call(repo):
    path = os.path.join(repo, 'malt', 'impl', 'api.py')
    with open(path) as f:
        tree = ast.parse(f.read())
    cc = [n for n in tree.body if isinstance(n, ast.FunctionDef) and n.name == 'converted_call']
    if len(cc) != 1:
        raise Untranslatable('untranslatable: api.py: converted_call not found')
    cc = cc[0]
    blocks = [s for s in cc.body if isinstance(s, ast.If) and ast.unparse(s.test) == 'inspect_utils.isbuiltin(f)']
    if len(blocks) != 1 or blocks[0].orelse:
        _fail(cc, 'the `if inspect_utils.isbuiltin(f):` block', 'api.py')
    ctx = []
    body = blocks[0].body
    for s in body[:-1]:
        ok = (isinstance(s, ast.If) and not s.orelse and len(s.body) == 1 and isinstance(s.body[0], ast.Return)
              and isinstance(s.test, ast.Compare) and ast.unparse(s.test.left) == 'f' and len(s.test.ops) == 1
              and isinstance(s.test.ops[0], ast.Is) and isinstance(s.test.comparators[0], ast.Name))
        if not ok:
            _fail(s, 'builtin branch statement', 'api.py')
        b = s.test.comparators[0].id
        call = ast.unparse(s.body[0].value)
        want = {'eval': 'py_builtins.eval_in_original_context(f, args, caller_fn_scope)',
                'super': 'py_builtins.super_in_original_context(f, args, caller_fn_scope)',
                'globals': 'py_builtins.globals_in_original_context(caller_fn_scope)',
                'locals': 'py_builtins.locals_in_original_context(caller_fn_scope)'}
        if want.get(b) != call:
            _fail(s, 'context builtin %s is not routed to its *_in_original_context' % b, 'api.py')
        ctx.append(b)
    last = body[-1]
    ok = (isinstance(last, ast.If) and ast.unparse(last.test) == 'kwargs' and len(last.body) == 1 and len(last.orelse) == 1
          and ast.unparse(last.body[0]) == 'return py_builtins.overload_of(f)(*args, **kwargs)'
          and ast.unparse(last.orelse[0]) == 'return py_builtins.overload_of(f)(*args)')
    if not ok:
        _fail(last, 'overload call shape', 'api.py')
    # nothing before the builtin block may return for a plain builtin except the documented early outs
    return clist([cstr(b) for b in ctx])


def _partial_branch(repo):
    """The functools.partial branch of converted_call -> (keyword layers, positional order) as Gallina lists.
    Recognised: new_kwargs built by `X = {}` followed by `[if S is not None:] X = S.copy()` (while X is
    still empty) / `[if S is not None:] X.update(S)`, or `X = dict(S [or {}], **S')`, or `X = {**S, **S'}`
    with S in {f.keywords, kwargs}; new_args = <f.args | args> + <f.args | args>; logging calls ignored;
    return converted_call(f.func, new_args, new_kwargs, caller_fn_scope=caller_fn_scope, options=options)."""
    path = os.path.join(repo, 'malt', 'impl', 'api.py')
    with open(path) as f:
        tree = ast.parse(f.read())
    cc = [n for n in tree.body if isinstance(n, ast.FunctionDef) and n.name == 'converted_call'][0]
    blocks = [s for s in cc.body if isinstance(s, ast.If) and ast.unparse(s.test) == 'isinstance(f, functools.partial)']
    if len(blocks) != 1 or blocks[0].orelse:
        _fail(cc, 'the `if isinstance(f, functools.partial):` block', 'api.py')
    # the partial branch must come before the builtin branch (a partial of a builtin is unwrapped first)
    order = [ast.unparse(s.test) for s in cc.body if isinstance(s, ast.If)]
    if order.index('isinstance(f, functools.partial)') > order.index('inspect_utils.isbuiltin(f)'):
        _fail(blocks[0], 'partial branch after the builtin branch', 'api.py')

    def src(node):
        t = ast.unparse(node)
        if t in ('f.keywords', '(f.keywords or {})', 'f.keywords or {}'):
            return 'LPartial'
        if t in ('kwargs', '(kwargs or {})', 'kwargs or {}'):
            return 'LCall'
        return None
    kw_var = args_var = None
    layers = None
    arg_order = None
    ret = None
    for s in blocks[0].body:
        if isinstance(s, ast.Expr) and isinstance(s.value, ast.Call) and ast.unparse(s.value.func) == 'logging.log':
            continue
        guard = None
        inner = s
        if isinstance(s, ast.If) and not s.orelse and len(s.body) == 1 and isinstance(s.test, ast.Compare) \
                and len(s.test.ops) == 1 and isinstance(s.test.ops[0], ast.IsNot) \
                and ast.unparse(s.test.comparators[0]) == 'None':
            guard = src(s.test.left)
            inner = s.body[0]
            if guard is None:
                _fail(s, 'partial branch guard', 'api.py')
        if isinstance(inner, ast.Assign) and len(inner.targets) == 1 and isinstance(inner.targets[0], ast.Name):
            t, v = inner.targets[0].id, inner.value
            if isinstance(v, ast.Dict) and not v.keys and guard is None and layers is None:
                kw_var, layers = t, []
                continue
            if isinstance(v, ast.Dict) and v.keys and all(k is None for k in v.keys) and guard is None and layers is None \
                    and all(src(x) for x in v.values):
                kw_var, layers = t, [src(x) for x in v.values]
                continue
            if isinstance(v, ast.Call) and ast.unparse(v.func) == 'dict' and guard is None and layers is None \
                    and len(v.args) <= 1 and all(k.arg is None for k in v.keywords) \
                    and all(src(x) for x in v.args) and all(src(k.value) for k in v.keywords):
                kw_var, layers = t, [src(x) for x in v.args] + [src(k.value) for k in v.keywords]
                continue
            if isinstance(v, ast.Call) and isinstance(v.func, ast.Attribute) and v.func.attr == 'copy' and not v.args \
                    and t == kw_var and layers == [] and src(v.func.value) and guard in (None, src(v.func.value)):
                layers = [src(v.func.value)]
                continue
            if isinstance(v, ast.BinOp) and isinstance(v.op, ast.Add) and guard is None and arg_order is None:
                names = {'f.args': 'LPartial', 'args': 'LCall'}
                l, r = names.get(ast.unparse(v.left)), names.get(ast.unparse(v.right))
                if l and r:
                    args_var, arg_order = t, [l, r]
                    continue
            _fail(inner, 'partial branch assignment ' + ast.unparse(inner), 'api.py')
        if isinstance(inner, ast.Expr) and isinstance(inner.value, ast.Call) and isinstance(inner.value.func, ast.Attribute) \
                and inner.value.func.attr == 'update' and ast.unparse(inner.value.func.value) == kw_var \
                and len(inner.value.args) == 1 and not inner.value.keywords and layers is not None:
            l = src(inner.value.args[0])
            if l is None or guard not in (None, l):
                _fail(inner, 'partial branch update', 'api.py')
            layers.append(l)
            continue
        if isinstance(inner, ast.Return) and guard is None:
            ret = ast.unparse(inner.value)
            continue
        _fail(s, 'partial branch statement ' + ast.unparse(s).split('\n')[0], 'api.py')
    want = 'converted_call(f.func, %s, %s, caller_fn_scope=caller_fn_scope, options=options)' % (args_var, kw_var)
    if layers is None or arg_order is None or ret != want:
        _fail(blocks[0], 'partial branch does not end in %s' % want, 'api.py')
    return clist(layers), clist(arg_order)


def translate(repo):
    path = os.path.join(repo, 'malt', 'operators', 'py_builtins.py')
    with open(path) as f:
        tree = ast.parse(f.read())
    funcs = {}
    registries = set()
    supported = fmap = None
    for n in tree.body:
        if isinstance(n, ast.FunctionDef):
            if n.name in funcs:
                _fail(n, 'function %s defined twice' % n.name)
            funcs[n.name] = n
        elif isinstance(n, ast.Assign) and len(n.targets) == 1 and isinstance(n.targets[0], ast.Name):
            t = n.targets[0].id
            if t == 'SUPPORTED_BUILTINS':
                if supported is not None or not isinstance(n.value, ast.Tuple) or \
                        not all(isinstance(e, ast.Name) and hasattr(builtins, e.id) for e in n.value.elts):
                    _fail(n, 'SUPPORTED_BUILTINS shape')
                supported = [e.id for e in n.value.elts]
            elif t == 'BUILTIN_FUNCTIONS_MAP':
                if fmap is not None or not isinstance(n.value, ast.Dict) or not all(
                        isinstance(k, ast.Constant) and isinstance(k.value, str) and isinstance(v, ast.Name)
                        for k, v in zip(n.value.keys, n.value.values)):
                    _fail(n, 'BUILTIN_FUNCTIONS_MAP shape')
                fmap = [(k.value, v.id) for k, v in zip(n.value.keys, n.value.values)]
            elif ast.unparse(n.value) == 'type_registry.TypeRegistry()':
                registries.add(t)
            elif t == 'UNSPECIFIED':
                if ast.unparse(n.value) != 'object()':
                    _fail(n, 'UNSPECIFIED must be a fresh object()')
            else:
                _fail(n, 'module-level assignment to ' + t)
        elif isinstance(n, (ast.Import, ast.ImportFrom)) or (isinstance(n, ast.Expr) and isinstance(n.value, ast.Constant)):
            pass
        else:
            _fail(n, 'module-level statement')
    if supported is None or fmap is None:
        raise Untranslatable('untranslatable: py_builtins.py: SUPPORTED_BUILTINS / BUILTIN_FUNCTIONS_MAP missing')
    # a module-level name that shadows a builtin would change what `int(...)` in a helper means
    for name in list(funcs) + list(registries):
        if hasattr(builtins, name):
            _fail(funcs.get(name, tree), 'module-level name %s shadows a builtin' % name)
    keys = [k for k, _ in fmap]
    if len(set(keys)) != len(keys):
        raise Untranslatable('untranslatable: py_builtins.py: duplicate key in BUILTIN_FUNCTIONS_MAP')
    oo = funcs.get('overload_of')
    if oo is None or [ast.unparse(s) for s in _nodoc(oo.body)] != [
            'if f in SUPPORTED_BUILTINS:\n    return BUILTIN_FUNCTIONS_MAP[f.__name__]', 'return f'] \
            or [a.arg for a in oo.args.args] != ['f']:
        raise Untranslatable('untranslatable: py_builtins.py: overload_of is not the pinned shape')
    rl = funcs.get('registry_lookup')
    if rl is None or [ast.unparse(s) for s in _nodoc(rl.body)] != [
            'try:\n    return reg.lookup(obj)\nexcept LookupError:\n    pass', 'return None']:
        raise Untranslatable('untranslatable: py_builtins.py: registry_lookup is not the pinned shape')

    # translate every function reachable from the overloads of the supported builtins
    todo = []
    d = dict(fmap)
    for b in supported:
        if b in d:
            if d[b] not in funcs:
                raise Untranslatable('untranslatable: py_builtins.py: BUILTIN_FUNCTIONS_MAP[%r] = %s is not a module function' % (b, d[b]))
            todo.append(d[b])
    done = {}
    while todo:
        name = todo.pop(0)
        if name in done:
            continue
        tr = FnTranslator(funcs[name], funcs, registries)
        done[name] = tr.translate()
        todo.extend(sorted(tr.callees))
    out = ['(* GENERATED on every run by tools/translate/c14_builtins.py from malt/operators/py_builtins.py and',
           '   malt/impl/api.py -- do not edit *)',
           'From Coq Require Import List String Bool.',
           'Import ListNotations.',
           'Require Import MV.Builtins.Binding MV.Builtins.Overload.',
           'Local Open Scope string_scope.',
           'Definition table_gen : table := mktable',
           '  %s' % clist([cstr(b) for b in supported]),
           '  %s' % clist(['(%s, %s)' % (cstr(k), cstr(v)) for k, v in fmap if v in done]),
           '  [']
    out.append(';\n'.join('   (%s, %s)' % (cstr(n), done[n]) for n in sorted(done)))
    out.append('  ].')
    out.append('(* context builtin -> does its frame search stop at the innermost match *)')
    ctx, ctx_ns = _frames(funcs)
    out.append('Definition ctx_gen : list (string * bool) := %s.' % ctx)
    out.append('(* locals / globals: is the mapping handed out the own object of the frame or a copy (Builtins/Namespaces.v) *)')
    out.append('Require Import MV.Builtins.Namespaces.')
    out.append('Definition ctx_ns_gen : ns_table := %s.' % ctx_ns)
    out.append('(* builtins that converted_call routes to the *_in_original_context functions *)')
    out.append('Definition routed_gen : list string := %s.' % _converted_call(repo))
    kwl, argl = _partial_branch(repo)
    out.append('(* functools.partial branch of converted_call: dict-update layers of new_kwargs, order of new_args *)')
    out.append('Require Import MV.Builtins.Partial.')
    out.append('Definition partial_kw_layers_gen : list layer := %s.' % kwl)
    out.append('Definition partial_arg_order_gen : list layer := %s.' % argl)
    return '\n'.join(out) + '\n'


if __name__ == '__main__':
    import sys
    print(translate(sys.argv[1] if len(sys.argv) > 1 else '/repo'))
