"""Fail-closed translator: implementations of the logical / conditional-expression operators
(malt/operators/logical.py, malt/operators/conditional_expressions.py) -> coq/Generated/C01_ops_gen.v
(`ops_gen : optable`, terms of ExprLang.oterm).

Each operator is symbolically evaluated.  A body is a docstring, simple assignments `x = <expr>` and one
`return <expr>`.  Expressions: parameters used as values (OArg i) or called as thunks `p()` (OForce i), local names,
`a and b`, `a or b`, `not a`, `a == b`, `x if c else y`, calls of other functions of the same module (inlined).
Evaluation order is kept: a local whose value forces a thunk is bound by OLet where it is assigned (a term without
OForce is pure and is substituted); the same for call arguments, left to right.  Anything else: Untranslatable."""
import ast
import os


class Untranslatable(Exception):
    pass


class _Thunk(object):
    def __init__(self, i):
        self.i = i


# intermediate terms: ('arg', i) ('force', i) ('and', a, b) ('or', a, b) ('not', a) ('eq', a, b) ('if', c, a, b)
#                     ('var', name) ('let', name, a, b)

def _pure(t):
    if t[0] in ('arg', 'var'):
        return True
    if t[0] == 'force' or t[0] == 'let':
        return False
    return all(_pure(x) for x in t[1:] if isinstance(x, tuple))


def _module_functions(path):
    tree = ast.parse(open(path).read())
    return {n.name: n for n in tree.body if isinstance(n, ast.FunctionDef)}


class _Sym(object):
    def __init__(self, fns, where):
        self.fns, self.where, self.fresh = fns, where, 0

    def fail(self, node, msg):
        raise Untranslatable('untranslatable: %s:%s: %s' % (self.where, getattr(node, 'lineno', '?'), msg))

    def call(self, name, args, depth=0):
        """args: terms (pure) or _Thunk -> term of the call"""
        if depth > 6 or name not in self.fns:
            raise Untranslatable('untranslatable: %s: call of %s' % (self.where, name))
        fn = self.fns[name]
        params = [a.arg for a in fn.args.args]
        if fn.args.vararg or fn.args.kwarg or fn.args.kwonlyargs or len(params) != len(args):
            raise Untranslatable('untranslatable: %s: signature of %s' % (self.where, name))
        env = dict(zip(params, args))
        body = list(fn.body)
        if body and isinstance(body[0], ast.Expr) and isinstance(body[0].value, ast.Constant):
            body = body[1:]
        return self.block(body, env, depth, name)

    def block(self, body, env, depth, name):
        if not body:
            raise Untranslatable('untranslatable: %s: %s does not return' % (self.where, name))
        st = body[0]
        if isinstance(st, ast.Assign) and len(st.targets) == 1 and isinstance(st.targets[0], ast.Name):
            t = self.expr(st.value, env, depth)
            x = st.targets[0].id
            if _pure(t):
                return self.block(body[1:], dict(env, **{x: t}), depth, name)
            self.fresh += 1
            v = '%s#%d' % (x, self.fresh)
            return ('let', v, t, self.block(body[1:], dict(env, **{x: ('var', v)}), depth, name))
        if isinstance(st, ast.Return) and st.value is not None and len(body) == 1:
            return self.expr(st.value, env, depth)
        if isinstance(st, ast.Delete):
            return self.block(body[1:], env, depth, name)
        self.fail(st, 'statement %s' % type(st).__name__)

    def expr(self, e, env, depth):
        if isinstance(e, ast.Name):
            if e.id not in env or isinstance(env[e.id], _Thunk):
                self.fail(e, 'name %s used as a value' % e.id)
            return env[e.id]
        if isinstance(e, ast.Call) and isinstance(e.func, ast.Name) and not e.keywords:
            f = e.func.id
            if f in env and isinstance(env[f], _Thunk):
                if e.args:
                    self.fail(e, 'thunk called with arguments')
                return ('force', env[f].i)
            # arguments left to right; an argument that is not pure is bound first
            lets, cargs = [], []
            for a in e.args:
                if isinstance(a, ast.Name) and isinstance(env.get(a.id), _Thunk):
                    cargs.append(env[a.id])
                    continue
                t = self.expr(a, env, depth)
                if _pure(t):
                    cargs.append(t)
                else:
                    self.fresh += 1
                    v = 'arg#%d' % self.fresh
                    lets.append((v, t))
                    cargs.append(('var', v))
            out = self.call(f, cargs, depth + 1)
            for v, t in reversed(lets):
                out = ('let', v, t, out)
            return out
        if isinstance(e, ast.BoolOp) and len(e.values) == 2:
            return ('and' if isinstance(e.op, ast.And) else 'or', self.expr(e.values[0], env, depth), self.expr(e.values[1], env, depth))
        if isinstance(e, ast.UnaryOp) and isinstance(e.op, ast.Not):
            return ('not', self.expr(e.operand, env, depth))
        if isinstance(e, ast.Compare) and len(e.ops) == 1 and isinstance(e.ops[0], ast.Eq):
            return ('eq', self.expr(e.left, env, depth), self.expr(e.comparators[0], env, depth))
        if isinstance(e, ast.IfExp):
            return ('if', self.expr(e.test, env, depth), self.expr(e.body, env, depth), self.expr(e.orelse, env, depth))
        self.fail(e, 'expression ' + ast.unparse(e))


def _emit(t, scope):
    k = t[0]
    if k == 'arg':
        return '(OArg %d)' % t[1]
    if k == 'force':
        return '(OForce %d)' % t[1]
    if k == 'var':
        return '(OVar %d)' % scope.index(t[1])
    if k == 'let':
        return '(OLet %s %s)' % (_emit(t[2], scope), _emit(t[3], [t[1]] + scope))
    name = {'and': 'OAndP', 'or': 'OOrP', 'not': 'ONotP', 'eq': 'OEqP', 'if': 'OIfP'}[k]
    return '(%s %s)' % (name, ' '.join(_emit(x, scope) for x in t[1:]))


def _is_thunk_param(fns, fname, pname, depth=0):
    """called directly in fname, or passed on to a function that calls the corresponding parameter"""
    if depth > 6 or fname not in fns:
        return False
    for c in ast.walk(fns[fname]):
        if isinstance(c, ast.Call) and isinstance(c.func, ast.Name):
            if c.func.id == pname and not c.args:
                return True
            for i, a in enumerate(c.args):
                if isinstance(a, ast.Name) and a.id == pname and c.func.id in fns and i < len(fns[c.func.id].args.args):
                    if _is_thunk_param(fns, c.func.id, fns[c.func.id].args.args[i].arg, depth + 1):
                        return True
    return False


def _operator(fns, name, where, nparams):
    fn = fns.get(name)
    if fn is None:
        raise Untranslatable('untranslatable: %s: operator %s not found' % (where, name))
    params = [a.arg for a in fn.args.args]
    if len(params) != nparams:
        raise Untranslatable('untranslatable: %s: %s takes %d parameters' % (where, name, len(params)))
    args = [_Thunk(i) if _is_thunk_param(fns, name, p) else ('arg', i) for i, p in enumerate(params)]
    return _emit(_Sym(fns, where).call(name, args), [])


def translate(repo):
    lp = os.path.join(repo, 'malt', 'operators', 'logical.py')
    cp = os.path.join(repo, 'malt', 'operators', 'conditional_expressions.py')
    lf, cf = _module_functions(lp), _module_functions(cp)
    t = [('op_and', _operator(lf, 'and_', 'operators/logical.py', 2)),
         ('op_or', _operator(lf, 'or_', 'operators/logical.py', 2)),
         ('op_not', _operator(lf, 'not_', 'operators/logical.py', 1)),
         ('op_ifexp', _operator(cf, 'if_exp', 'operators/conditional_expressions.py', 4)),
         ('op_eq', _operator(lf, 'eq', 'operators/logical.py', 2)),
         ('op_not_eq', _operator(lf, 'not_eq', 'operators/logical.py', 2))]
    strip = lambda s: s[1:-1] if s.startswith('(') and s.endswith(')') else s
    out = ['(* GENERATED on every run by tools/translate/c01_ops.py from malt/operators/logical.py and conditional_expressions.py *)',
           'Require Import MV.Expr.ExprLang.',
           'Definition ops_gen : optable :=',
           '  {| ' + ';\n     '.join('%s := %s' % (k, strip(v)) for k, v in t) + ' |}.']
    return '\n'.join(out) + '\n'


if __name__ == '__main__':
    import sys
    print(translate(sys.argv[1] if len(sys.argv) > 1 else '/repo'))
