"""Fail-closed translator for C03 (operator calling contract) -> coq/Generated/C03_gen.v

Sources and recognised shapes (anything else raises Untranslatable -> tie broken):

 malt/converters/control_flow.py  (syntactic, ast)
   * ControlFlowTransformer._create_state_functions(self, <vars>, <decls>, <getter>, <setter>)
        if not <vars>:  template = <str>; return templates.replace(template, kw=<local>...)
        <acc> = []
        for v in <vars>:
          if v.is_simple(): <acc>.append(v)
          else: <acc>.append(templates.replace_as_expression('<callee>(lambda: P, Q)', P=v, Q=ast.Constant(str(v))))
        template = <str>; return templates.replace(template, kw=..., )
     template strings: two `def`s; getter body `return ()` / `return P,`; setter body `pass` /
     [placeholder statement;] `P, = Q`.
   * visit_If / visit_While / visit_For: the `templates.replace(template, kw...)` whose result is
     bound to `new_nodes`: the template text (function defs with their parameter lists, last
     statement = the operator call, its arguments `p` or `(p,)`), the keyword bindings classified
     (local variable / tuple(v) / tuple(ast.Constant(str(s)) for s in v) / ast.Constant(v) /
     new_symbol / node.<field> / other), the unpacking of self._get_block_vars(...), the arguments
     of self._create_state_functions(...), how `opts` is built (self._create_loop_options(node),
     plus for `for`: opts.keys.append(ast.Constant('<k>')) / opts.values.append(ast.Constant(
     parser.unparse(node.target, ...)))), and for `for` the extra-test definition (if/else on
     anno.hasanno(node, anno.Basic.EXTRA_LOOP_TEST)).
   * _get_block_vars: scope_vars = tuple(<set expr>), input_only = <set expr over & | ->,
     scope_vars = sorted(scope_vars, key=lambda v: (v in <set>, v)), nouts = len(a) - len(b),
     return a, b, c.
   * _create_loop_options: compared (alpha-normalised) with the canonical shape.
 malt/converters/variables.py  (syntactic, ast)
   * VariableAccessTransformer.visit_Delete(self, node):
        node = self.generic_visit(node)
        if not any|all(isinstance(T, ast.Name) for T in node.targets): return node
        R = []
        for T in node.targets:
          if isinstance(T, ast.Name): template = <str>; R.extend(templates.replace(template, P=T, Q=ast.Constant(T.id)))
          else: R.append(ast.Delete(targets=[T]))
        return R
     template statements: `ag__.ld(P)` / `P = ag__.Undefined(Q)` / `del P`  -> delete_rule_gen (the generated
     getters read simple names directly: they stay total only if no name is ever unbound).
 malt/converters/conditional_expressions.py, logical_expressions.py: the call templates of
     if_exp / and_ / or_ / not_ (arguments `p` or `lambda: p`).
 malt/operators/control_flow.py, conditional_expressions.py, logical.py
   * parameter lists (reflective, inspect.signature)
   * with how many arguments each callback parameter is called: direct calls `p(...)` (also in
     nested defs), followed through calls to module-level helpers / local aliases of them.
 g3doc/reference/operators.md: per operator section the `*   name:` bullets under `Args:` and the
     code examples (`def name(params):` + the `ag__.<op>(...)` call) -> documented arities.
"""
import ast
import inspect
import os
import re
import textwrap


class Untranslatable(Exception):
    pass


def _fail(fn, node, msg):
    raise Untranslatable('untranslatable: %s:%s: %s' % (fn, getattr(node, 'lineno', '?'), msg))


def cs(s):
    return '"' + s.replace('"', '""') + '"'


def clist(items):
    return '[' + '; '.join(items) + ']'


def cslist(strs):
    return clist([cs(s) for s in strs])


CF = 'malt/converters/control_flow.py'


# ------------------------------------------------------------------------------ helpers

def _find_class(tree, name, fn):
    for n in tree.body:
        if isinstance(n, ast.ClassDef) and n.name == name:
            return n
    _fail(fn, tree, 'class %s not found' % name)


def _find_method(cls, name, fn):
    for n in cls.body:
        if isinstance(n, ast.FunctionDef) and n.name == name:
            return n
    _fail(fn, cls, 'method %s not found' % name)


def _nodoc(body):
    if body and isinstance(body[0], ast.Expr) and isinstance(body[0].value, ast.Constant) \
            and isinstance(body[0].value.value, str):
        return body[1:]
    return body


def _is_call_to(node, dotted):
    return isinstance(node, ast.Call) and ast.unparse(node.func) == dotted


def _name(node):
    return node.id if isinstance(node, ast.Name) else None


def _classify_src(v, fn):
    """keyword value of a templates.replace call -> Gallina `src` term"""
    if isinstance(v, ast.Name):
        return 'SVar %s' % cs(v.id)
    if _is_call_to(v, 'tuple') and len(v.args) == 1 and not v.keywords:
        a = v.args[0]
        if isinstance(a, ast.Name):
            return 'STupleOf %s' % cs(a.id)
        if isinstance(a, ast.GeneratorExp) and len(a.generators) == 1:
            g = a.generators[0]
            if (not g.ifs and not g.is_async and isinstance(g.target, ast.Name) and isinstance(g.iter, ast.Name)
                    and ast.unparse(a.elt) == 'ast.Constant(str(%s))' % g.target.id):
                return 'SNamesOf %s' % cs(g.iter.id)
        _fail(fn, v, 'tuple(...) binding of unknown shape: ' + ast.unparse(v))
    if _is_call_to(v, 'ast.Constant') and len(v.args) == 1 and isinstance(v.args[0], ast.Name):
        return 'SConstOf %s' % cs(v.args[0].id)
    if _is_call_to(v, 'self.ctx.namer.new_symbol') and v.args and isinstance(v.args[0], ast.Constant):
        return 'SNewSym %s' % cs(v.args[0].value)
    if isinstance(v, ast.Attribute) and _name(v.value) == 'node':
        return 'SNodeField %s' % cs(v.attr)
    if _is_call_to(v, 'parser.parse_expression') and len(v.args) == 1 and isinstance(v.args[0], ast.Constant) \
            and v.args[0].value == 'None':
        return 'SNone'
    return 'SOther'


def _binds(call, fn):
    if not (isinstance(call, ast.Call) and len(call.args) == 1):
        _fail(fn, call, 'templates.replace call shape')
    out = []
    for kw in call.keywords:
        if kw.arg is None:
            _fail(fn, call, '**kwargs in templates.replace')
        out.append('(%s, %s)' % (cs(kw.arg), _classify_src(kw.value, fn)))
    return out


def _parse_template(text, fn, at):
    try:
        return ast.parse(textwrap.dedent(text)).body
    except SyntaxError as e:
        _fail(fn, at, 'template does not parse: %s' % e)


def _def_sig(d, fn):
    a = d.args
    if a.vararg or a.kwarg or a.kwonlyargs or a.posonlyargs or a.defaults or d.decorator_list:
        _fail(fn, d, 'template def with non-plain parameters')
    return '(%s, %s)' % (cs(d.name), cslist([x.arg for x in a.args]))


def _flatten(stmts):
    """statements in source order, descending into if/else bodies (not into loops / defs)"""
    for s in stmts:
        yield s
        if isinstance(s, ast.If):
            for t in _flatten(s.body):
                yield t
            for t in _flatten(s.orelse):
                yield t


def _replace_calls(method, fn):
    """-> list of (target name or None, template text, call node, stmt) for every templates.replace(template, ...)"""
    cur = None
    out = []
    for s in _flatten(_nodoc(method.body)):
        if isinstance(s, ast.Assign) and len(s.targets) == 1 and _name(s.targets[0]) == 'template':
            if not (isinstance(s.value, ast.Constant) and isinstance(s.value.value, str)):
                _fail(fn, s, 'template is not a string literal')
            cur = s.value.value
            continue
        call = None
        tgt = None
        if isinstance(s, ast.Assign) and len(s.targets) == 1 and isinstance(s.value, ast.Call):
            call, tgt = s.value, _name(s.targets[0])
        elif isinstance(s, ast.Return) and isinstance(s.value, ast.Call):
            call, tgt = s.value, '<return>'
        if call is not None and ast.unparse(call.func) == 'templates.replace' and call.args \
                and _name(call.args[0]) == 'template':
            if cur is None:
                _fail(fn, s, 'templates.replace(template) before any template literal')
            out.append((tgt, cur, call, s))
    return out


# ------------------------------------------------------------------------------ _create_state_functions

def _state_tpl(text, call, fn):
    body = _parse_template(text, fn, call)
    if not (len(body) == 2 and all(isinstance(d, ast.FunctionDef) for d in body)):
        _fail(fn, call, 'state template must consist of two function definitions')
    g, s = body
    if not (len(g.body) == 1 and isinstance(g.body[0], ast.Return)):
        _fail(fn, call, 'getter body must be a single return')
    rv = g.body[0].value
    if isinstance(rv, ast.Tuple) and not rv.elts:
        ret = 'RetEmpty'
    elif isinstance(rv, ast.Tuple) and len(rv.elts) == 1 and isinstance(rv.elts[0], ast.Name):
        ret = 'RetSplice %s' % cs(rv.elts[0].id)
    else:
        _fail(fn, call, 'getter return shape: ' + ast.unparse(g.body[0]))
    sb = list(s.body)
    pre = []
    while len(sb) > 1 and isinstance(sb[0], ast.Expr) and isinstance(sb[0].value, ast.Name):
        pre.append(sb.pop(0).value.id)      # placeholder statements (nonlocal_declarations)
    if len(sb) != 1:
        _fail(fn, call, 'setter body shape')
    st = sb[0]
    if isinstance(st, ast.Pass):
        sbody = 'SetPass'
    elif (isinstance(st, ast.Assign) and len(st.targets) == 1 and isinstance(st.targets[0], ast.Tuple)
          and len(st.targets[0].elts) == 1 and isinstance(st.targets[0].elts[0], ast.Name)
          and isinstance(st.value, ast.Name)):
        sbody = 'SetUnpack %s %s' % (cs(st.targets[0].elts[0].id), cs(st.value.id))
    else:
        _fail(fn, call, 'setter statement shape: ' + ast.unparse(st))
    return ('{| st_getter := %s; st_ret := %s; st_setter := %s; st_pre := %s; st_body := %s; st_binds := %s |}'
            % (_def_sig(g, fn), ret, _def_sig(s, fn), cslist(pre), sbody, clist(_binds(call, fn))))


def _guard_case(stmts, acc, loopvar, fn):
    if not (len(stmts) == 1 and isinstance(stmts[0], ast.Expr) and isinstance(stmts[0].value, ast.Call)):
        _fail(fn, stmts[0] if stmts else None, 'guard loop branch shape')
    c = stmts[0].value
    if not (ast.unparse(c.func) == acc + '.append' and len(c.args) == 1 and not c.keywords):
        _fail(fn, c, 'guard loop branch must append to ' + acc)
    a = c.args[0]
    if _name(a) == loopvar:
        return 'GSelf'
    if _is_call_to(a, 'templates.replace_as_expression') and len(a.args) == 1 and isinstance(a.args[0], ast.Constant):
        try:
            e = ast.parse(a.args[0].value.strip(), mode='eval').body
        except SyntaxError:
            _fail(fn, a, 'guard expression template does not parse')
        kws = {k.arg: k.value for k in a.keywords}
        if not isinstance(e, ast.Call) or e.keywords:
            _fail(fn, a, 'guard expression template is not a call')
        callee = ast.unparse(e.func)
        shapes = []
        for arg in e.args:
            lam = False
            if isinstance(arg, ast.Lambda):
                if arg.args.args or arg.args.vararg or arg.args.kwarg or arg.args.kwonlyargs:
                    _fail(fn, a, 'guard thunk takes parameters')
                lam = True
                arg = arg.body
            if not (isinstance(arg, ast.Name) and arg.id in kws):
                _fail(fn, a, 'guard expression argument is not a bound placeholder')
            v = kws[arg.id]
            if _name(v) == loopvar:
                what = 'GVar'
            elif ast.unparse(v) == 'ast.Constant(str(%s))' % loopvar:
                what = 'GStrName'
            else:
                what = 'GOtherArg'
            shapes.append('(%s, %s)' % ('true' if lam else 'false', what))
        return 'GCall %s %s' % (cs(callee), clist(shapes))
    _fail(fn, a, 'guard loop appends an unknown expression')


def _state_functions(cls):
    fn = CF
    m = _find_method(cls, '_create_state_functions', fn)
    params = [a.arg for a in m.args.args][1:]
    if len(params) == 5 and params[4] == 'reserved':
        params = params[:4]          # the names generated symbols must avoid (property C11), not part of the contract
    if len(params) != 4 or m.args.vararg or m.args.kwarg or m.args.defaults:
        _fail(fn, m, '_create_state_functions signature')
    body = _nodoc(m.body)
    # fresh names for template parameters: `<v> = self.ctx.namer.new_symbol('<root>', reserved)`
    fresh = [st for st in body if isinstance(st, ast.Assign) and len(st.targets) == 1 and isinstance(st.targets[0], ast.Name)
             and isinstance(st.value, ast.Call) and ast.unparse(st.value.func) == 'self.ctx.namer.new_symbol'
             and len(st.value.args) == 2 and isinstance(st.value.args[0], ast.Constant) and ast.unparse(st.value.args[1]) == 'reserved']
    body = [st for st in body if st not in fresh]
    if len(body) != 5:
        _fail(fn, m, '_create_state_functions must have 5 statements (if-empty, accumulator, loop, template, return)')
    s_if, s_acc, s_for, s_tpl, s_ret = body
    if not (isinstance(s_if, ast.If) and isinstance(s_if.test, ast.UnaryOp) and isinstance(s_if.test.op, ast.Not)
            and isinstance(s_if.test.operand, ast.Name) and not s_if.orelse):
        _fail(fn, s_if, 'empty-case test shape')
    empty_test = s_if.test.operand.id
    sub = ast.FunctionDef(name='x', body=s_if.body, args=m.args, decorator_list=[], lineno=s_if.lineno)
    calls = _replace_calls(sub, fn)
    if len(calls) != 1 or calls[0][0] != '<return>' or not isinstance(s_if.body[-1], ast.Return):
        _fail(fn, s_if, 'empty case must return one templates.replace')
    empty = _state_tpl(calls[0][1], calls[0][2], fn)
    if not (isinstance(s_acc, ast.Assign) and len(s_acc.targets) == 1 and isinstance(s_acc.targets[0], ast.Name)
            and isinstance(s_acc.value, ast.List) and not s_acc.value.elts):
        _fail(fn, s_acc, 'accumulator initialisation')
    acc = s_acc.targets[0].id
    if not (isinstance(s_for, ast.For) and isinstance(s_for.target, ast.Name) and isinstance(s_for.iter, ast.Name)
            and not s_for.orelse and len(s_for.body) == 1 and isinstance(s_for.body[0], ast.If)):
        _fail(fn, s_for, 'guard loop shape')
    lv = s_for.target.id
    gi = s_for.body[0]
    if ast.unparse(gi.test) != lv + '.is_simple()':
        _fail(fn, gi, 'guard loop must branch on %s.is_simple()' % lv)
    simple = _guard_case(gi.body, acc, lv, fn)
    comp = _guard_case(gi.orelse, acc, lv, fn)
    sub = ast.FunctionDef(name='x', body=[s_tpl, s_ret], args=m.args, decorator_list=[], lineno=s_tpl.lineno)
    calls = _replace_calls(sub, fn)
    if len(calls) != 1 or calls[0][0] != '<return>':
        _fail(fn, s_ret, 'full case must return one templates.replace')
    full = _state_tpl(calls[0][1], calls[0][2], fn)
    return ('{| sf_params := %s; sf_empty_test := %s; sf_empty := %s;\n     sf_full := %s;\n     sf_loop_over := %s; '
            'sf_loop_into := %s; sf_simple := %s; sf_composite := %s |}'
            % (cslist(params), cs(empty_test), empty, full, cs(s_for.iter.id), cs(acc), simple, comp))


# ------------------------------------------------------------------------------ visit_If / While / For

def _call_args(call, fn, lambdas=False):
    out = []
    if call.keywords:
        _fail(fn, call, 'operator call template uses keywords')
    for a in call.args:
        if isinstance(a, ast.Name):
            out.append('APlace %s' % cs(a.id))
        elif isinstance(a, ast.Tuple) and len(a.elts) == 1 and isinstance(a.elts[0], ast.Name):
            out.append('ATuple1 %s' % cs(a.elts[0].id))
        elif lambdas and isinstance(a, ast.Lambda) and isinstance(a.body, ast.Name) and not (
                a.args.vararg or a.args.kwarg or a.args.kwonlyargs or a.args.defaults):
            out.append('ALambda %d %s' % (len(a.args.args), cs(a.body.id)))
        else:
            _fail(fn, call, 'operator call argument shape: ' + ast.unparse(a))
    return out


def _visit_method(cls, name, opname):
    fn = CF
    m = _find_method(cls, name, fn)
    calls = _replace_calls(m, fn)
    main = [c for c in calls if c[0] == 'new_nodes']
    if len(main) != 1:
        _fail(fn, m, '%s: expected exactly one `new_nodes = templates.replace(template, ...)`' % name)
    _, text, call, _ = main[0]
    rets = [s for s in ast.walk(m) if isinstance(s, ast.Return)]
    if not (len(rets) == 1 and _name(rets[0].value) == 'new_nodes'):
        _fail(fn, m, '%s must return new_nodes' % name)
    body = _parse_template(text, fn, call)
    last = body[-1]
    if not (isinstance(last, ast.Expr) and isinstance(last.value, ast.Call)
            and ast.unparse(last.value.func) == 'ag__.' + opname):
        _fail(fn, call, '%s: template does not end with a call of ag__.%s' % (name, opname))
    for st in body[:-1]:
        for c in ast.walk(st):
            if isinstance(c, ast.Call):
                _fail(fn, call, '%s: template contains another call' % name)
    defs = []
    items = []
    for st in body[:-1]:
        if isinstance(st, ast.FunctionDef):
            defs.append(_def_sig(st, fn))
            items.append(st.name)
        elif isinstance(st, ast.Expr) and isinstance(st.value, ast.Name):
            items.append(st.value.id)
        else:
            _fail(fn, call, '%s: template statement shape: %s' % (name, ast.unparse(st)))
    # _get_block_vars unpacking, _create_state_functions arguments, opts
    bv = sf = sf_into = decls = None
    opts = 'OptsNone'
    opts_var = None
    extra_keys = []
    extra_vals = []
    for s in _flatten(_nodoc(m.body)):
        if isinstance(s, ast.Assign) and len(s.targets) == 1 and isinstance(s.value, ast.Call):
            f = ast.unparse(s.value.func)
            if f == 'self._get_block_vars':
                t = s.targets[0]
                if not (isinstance(t, ast.Tuple) and all(isinstance(e, ast.Name) for e in t.elts)):
                    _fail(fn, s, '_get_block_vars result must be unpacked into names')
                if bv is not None:
                    _fail(fn, s, '_get_block_vars called twice')
                bv = [e.id for e in t.elts]
            elif f == 'self._create_state_functions':
                if sf is not None or s.value.keywords or not all(isinstance(a, ast.Name) for a in s.value.args) \
                        or _name(s.targets[0]) is None:
                    _fail(fn, s, '_create_state_functions call shape')
                sf = [a.id for a in s.value.args]
                sf_into = s.targets[0].id
            elif f == 'self._create_nonlocal_declarations':
                if decls is not None or len(s.value.args) != 1 or not isinstance(s.value.args[0], ast.Name) \
                        or _name(s.targets[0]) is None:
                    _fail(fn, s, '_create_nonlocal_declarations call shape')
                decls = (s.targets[0].id, s.value.args[0].id)
            elif f == 'self._create_loop_options':
                if ast.unparse(s.value) != 'self._create_loop_options(node)' or _name(s.targets[0]) is None:
                    _fail(fn, s, '_create_loop_options call shape')
                opts_var = s.targets[0].id
        elif isinstance(s, ast.Expr) and isinstance(s.value, ast.Call) and opts_var is not None:
            f = ast.unparse(s.value.func)
            if f == opts_var + '.keys.append':
                a = s.value.args[0]
                if not (_is_call_to(a, 'ast.Constant') and isinstance(a.args[0], ast.Constant)
                        and isinstance(a.args[0].value, str)):
                    _fail(fn, s, 'opts key shape')
                extra_keys.append(a.args[0].value)
            elif f == opts_var + '.values.append':
                a = s.value.args[0]
                ok = (_is_call_to(a, 'ast.Constant') and len(a.args) == 1 and _is_call_to(a.args[0], 'parser.unparse')
                      and a.args[0].args and ast.unparse(a.args[0].args[0]) == 'node.target')
                extra_vals.append('true' if ok else 'false')
    for s in ast.walk(m):
        # any other use of the opts variable than the recognised ones breaks the tie
        if isinstance(s, ast.Name) and opts_var is not None and s.id == opts_var and isinstance(s.ctx, ast.Store):
            pass
    if bv is None or sf is None or decls is None:
        _fail(fn, m, '%s: _get_block_vars / _create_state_functions / _create_nonlocal_declarations call not found' % name)
    if opts_var is not None:
        if len(extra_keys) != len(extra_vals) or len(extra_keys) > 1:
            _fail(fn, m, '%s: opts extension shape' % name)
        opts = 'OptsLoop %s %s %s' % (cs(opts_var),
                                      ('(Some %s)' % cs(extra_keys[0])) if extra_keys else 'None',
                                      extra_vals[0] if extra_vals else 'false')
        # uses of the opts variable: assignment, .keys.append, .values.append, the binding -- nothing else
        uses = [n for n in ast.walk(m) if isinstance(n, ast.Name) and n.id == opts_var]
        if len(uses) != 2 + 2 * len(extra_keys):
            _fail(fn, m, '%s: unrecognised use of %s' % (name, opts_var))
    # extra test (for)
    extra = 'None'
    for s in _nodoc(m.body):
        if isinstance(s, ast.If) and ast.unparse(s.test) == 'anno.hasanno(node, anno.Basic.EXTRA_LOOP_TEST)':
            sub = ast.FunctionDef(name='x', body=s.body, args=m.args, decorator_list=[], lineno=s.lineno)
            cc = _replace_calls(sub, fn)
            if len(cc) != 1:
                _fail(fn, s, 'extra test branch shape')
            tgt, ttext, tcall, _ = cc[0]
            tb = _parse_template(ttext, fn, tcall)
            if not (len(tb) == 1 and isinstance(tb[0], ast.FunctionDef)):
                _fail(fn, s, 'extra test template must be one def')
            then_name = else_name = None
            else_fn = None
            for t in s.orelse:
                if isinstance(t, ast.Assign) and len(t.targets) == 1 and isinstance(t.targets[0], ast.Name):
                    if isinstance(t.value, ast.List) and not t.value.elts:
                        else_fn = t.targets[0].id
                    else:
                        else_name = (t.targets[0].id, _classify_src(t.value, fn))
                else:
                    _fail(fn, t, 'extra test else-branch statement shape')
            for t in s.body:
                if isinstance(t, ast.Assign) and len(t.targets) == 1 and isinstance(t.targets[0], ast.Name) \
                        and else_name and t.targets[0].id == else_name[0]:
                    then_name = (t.targets[0].id, _classify_src(t.value, fn))
            if not (then_name and else_name and then_name[0] == else_name[0] and else_fn == tgt):
                _fail(fn, s, 'extra test if/else must define the same two variables')
            extra = ('(Some {| et_def := %s; et_binds := %s; et_var := %s; et_then := %s; et_else := %s; et_fn_var := %s |})'
                     % (_def_sig(tb[0], fn), clist(_binds(tcall, fn)), cs(then_name[0]), then_name[1], else_name[1], cs(tgt)))
    return ('{| t_op := %s; t_call := %s;\n     t_items := %s; t_defs := %s;\n     t_binds := %s;\n     t_blockvars := %s; '
            't_statefn_args := %s; t_statefn_into := %s; t_decls := (%s, %s); t_opts := %s;\n     t_extra := %s |}'
            % (cs(opname), clist(_call_args(last.value, fn)), cslist(items), clist(defs), clist(_binds(call, fn)),
               cslist(bv), cslist(sf), cs(sf_into), cs(decls[0]), cs(decls[1]), opts, extra))


# ------------------------------------------------------------------------------ _get_block_vars

FN_SETS = ('fn_scope.globals', 'fn_scope.nonlocals')


def _sexp(e, fn):
    if isinstance(e, ast.Name):
        return 'XVar %s' % cs(e.id)
    if isinstance(e, ast.Attribute) and ast.unparse(e) in FN_SETS:
        return 'XFn %s' % cs(e.attr)
    if isinstance(e, ast.BinOp) and isinstance(e.op, (ast.BitOr, ast.BitAnd, ast.Sub)):
        k = {ast.BitOr: 'XUnion', ast.BitAnd: 'XInter', ast.Sub: 'XDiff'}[type(e.op)]
        return '%s (%s) (%s)' % (k, _sexp(e.left, fn), _sexp(e.right, fn))
    _fail(fn, e, 'set expression shape: ' + ast.unparse(e))


def _block_vars(cls):
    fn = CF
    m = _find_method(cls, '_get_block_vars', fn)
    scope = inp = key = nouts = ret = None
    roles = {}
    sorted_of = None
    sort_var = None
    for s in _nodoc(m.body):
        if isinstance(s, ast.Return):
            if not (isinstance(s.value, ast.Tuple) and all(isinstance(e, ast.Name) for e in s.value.elts)):
                _fail(fn, s, 'return shape')
            ret = [e.id for e in s.value.elts]
            continue
        if not (isinstance(s, ast.Assign) and len(s.targets) == 1 and isinstance(s.targets[0], ast.Name)):
            _fail(fn, s, 'statement shape')
        t = s.targets[0].id
        v = s.value
        if _is_call_to(v, 'tuple') and len(v.args) == 1 and isinstance(v.args[0], ast.BinOp):
            scope = (t, _sexp(v.args[0], fn))
        elif isinstance(v, ast.BinOp) and isinstance(v.op, (ast.BitOr, ast.BitAnd, ast.Sub)) and \
                not any(isinstance(x, ast.Call) or (isinstance(x, ast.Attribute) and ast.unparse(x) not in FN_SETS)
                        for x in ast.walk(v)):
            inp = (t, _sexp(v, fn))
        elif _is_call_to(v, 'sorted'):
            if not (len(v.args) == 1 and isinstance(v.args[0], ast.Name) and len(v.keywords) == 1
                    and v.keywords[0].arg == 'key' and isinstance(v.keywords[0].value, ast.Lambda)):
                _fail(fn, s, 'sorted(...) shape')
            lam = v.keywords[0].value
            if len(lam.args.args) != 1:
                _fail(fn, s, 'sort key lambda shape')
            p = lam.args.args[0].arg
            if not isinstance(lam.body, ast.Tuple):
                _fail(fn, s, 'sort key must be a tuple')
            parts = []
            for e in lam.body.elts:
                if _name(e) == p:
                    parts.append('KSelf')
                elif (isinstance(e, ast.Compare) and len(e.ops) == 1 and isinstance(e.ops[0], (ast.In, ast.NotIn))
                      and _name(e.left) == p and isinstance(e.comparators[0], ast.Name)):
                    parts.append('%s %s' % ('KIn' if isinstance(e.ops[0], ast.In) else 'KNotIn', cs(e.comparators[0].id)))
                else:
                    _fail(fn, s, 'sort key component: ' + ast.unparse(e))
            key = parts
            sorted_of = v.args[0].id
            sort_var = t
        elif (isinstance(v, ast.BinOp) and isinstance(v.op, ast.Sub) and _is_call_to(v.left, 'len')
              and _is_call_to(v.right, 'len') and isinstance(v.left.args[0], ast.Name)
              and isinstance(v.right.args[0], ast.Name)):
            nouts = (t, v.left.args[0].id, v.right.args[0].id)
        elif isinstance(v, ast.Call) and ast.unparse(v.func) in ('self._get_block_basic_vars', 'self._get_block_composite_vars'):
            roles['basic' if 'basic' in ast.unparse(v.func) else 'composite'] = t
        elif ast.unparse(v) == 'anno.getanno(node, anno.Static.LIVE_VARS_IN)':
            roles['live_in'] = t
        elif ast.unparse(v) == 'anno.getanno(node, anno.Static.LIVE_VARS_OUT)':
            roles['live_out'] = t
        elif t == 'fn_scope' and ast.unparse(v) != 'self.state[_Function].scope':
            _fail(fn, s, 'fn_scope must be the scope of the enclosing function')
        # other assignments (defined_in, fn_scope, undefined) are C02's business
    if not (scope and inp and key and nouts and ret):
        _fail(fn, m, '_get_block_vars: scope tuple / input-only expression / sorted / nouts / return not all found')
    if sorted_of != scope[0] or sort_var != scope[0]:
        _fail(fn, m, '_get_block_vars: sorted() must sort the scope tuple in place')
    if sorted(roles) != ['basic', 'composite', 'live_in', 'live_out']:
        _fail(fn, m, '_get_block_vars: basic / composite / live-in / live-out sets not all found')
    rl = ' '.join('bv_%s := %s;' % (k, cs(roles[k])) for k in sorted(roles))
    return ('{| ' + rl + ' bv_scope_var := %s; bv_scope := %s; bv_input_var := %s; bv_input := %s; bv_key := %s;\n'
            '     bv_nouts_var := %s; bv_nouts_len_of := %s; bv_nouts_minus_len_of := %s; bv_returns := %s |}'
            % (cs(scope[0]), scope[1], cs(inp[0]), inp[1], clist(key), cs(nouts[0]), cs(nouts[1]), cs(nouts[2]),
               cslist(ret)))


# ------------------------------------------------------------------------------ _create_loop_options

CANON_LOOP_OPTIONS = '''
def f(self, node):
    if not anno.hasanno(node, anno.Basic.DIRECTIVES):
        return ast.Dict(keys=[], values=[])
    v0 = anno.getanno(node, anno.Basic.DIRECTIVES)
    if directives.set_loop_options not in v0:
        return ast.Dict(keys=[], values=[])
    v1 = v0[directives.set_loop_options]
    v2, v3 = zip(*v1.items())
    v4 = [ast.Constant(v5) for v5 in v2]
    v3 = list(v3)
    return ast.Dict(keys=v4, values=v3)
'''


def _alpha(fdef):
    """dump of a function body with local variable names normalised in order of first binding"""
    params = {a.arg for a in fdef.args.args}
    order = {}
    for n in ast.walk(ast.Module(body=_nodoc(fdef.body), type_ignores=[])):
        pass
    class V(ast.NodeVisitor):
        def visit_Name(self, n):
            if isinstance(n.ctx, ast.Store) and n.id not in params and n.id not in order:
                order[n.id] = 'v%d' % len(order)
    V().visit(ast.Module(body=_nodoc(fdef.body), type_ignores=[]))
    class R(ast.NodeTransformer):
        def visit_Name(self, n):
            return ast.Name(id=order.get(n.id, n.id), ctx=n.ctx)
    mod = R().visit(ast.Module(body=[ast.parse(ast.unparse(s)).body[0] for s in _nodoc(fdef.body)], type_ignores=[]))
    return ast.dump(mod)


def _loop_options(cls):
    m = _find_method(cls, '_create_loop_options', CF)
    canon = ast.parse(CANON_LOOP_OPTIONS).body[0]
    if _alpha(m) != _alpha(canon):
        _fail(CF, m, '_create_loop_options differs from the recognised shape (keys = names of the arguments of the '
                     'set_loop_options directive attached to the loop, values = their expressions, {} when absent)')
    return '{| lo_directive := "set_loop_options"; lo_keys_are_argument_names := true; lo_empty_when_absent := true |}'


# ------------------------------------------------------------------------------ expression operators

def _expr_templates(repo):
    out = []
    fn = 'malt/converters/conditional_expressions.py'
    tree = ast.parse(open(os.path.join(repo, fn)).read())
    cls = _find_class(tree, 'ConditionalExpressionTransformer', fn)
    m = _find_method(cls, 'visit_IfExp', fn)
    tpl = None
    call = None
    for s in ast.walk(m):
        if isinstance(s, ast.Assign) and _name(s.targets[0]) == 'template' and isinstance(s.value, ast.Constant):
            tpl = s.value.value
        if _is_call_to(s, 'templates.replace_as_expression'):
            call = s
    if tpl is None or call is None or _name(call.args[0]) != 'template':
        _fail(fn, m, 'visit_IfExp shape')
    try:
        e = ast.parse(textwrap.dedent(tpl).strip(), mode='eval').body
    except SyntaxError:
        _fail(fn, m, 'if_exp template does not parse')
    if not (isinstance(e, ast.Call) and ast.unparse(e.func) == 'ag__.if_exp'):
        _fail(fn, m, 'if_exp template is not a call of ag__.if_exp')
    out.append('(%s, %s)' % (cs('if_exp'), clist(_call_args(e, fn, lambdas=True))))
    fn = 'malt/converters/logical_expressions.py'
    tree = ast.parse(open(os.path.join(repo, fn)).read())
    cls = _find_class(tree, 'LogicalExpressionTransformer', fn)
    ops = None
    for n in tree.body:
        if isinstance(n, ast.Assign) and _name(n.targets[0]) == 'LOGICAL_OPERATORS' and isinstance(n.value, ast.Dict):
            ops = {ast.unparse(k): v.value for k, v in zip(n.value.keys, n.value.values) if isinstance(v, ast.Constant)}
    if not ops or set(ops) != {'ast.And', 'ast.Or', 'ast.Not'}:
        _fail(fn, tree, 'LOGICAL_OPERATORS shape')

    def tpl_of(mname):
        mm = _find_method(cls, mname, fn)
        b = _nodoc(mm.body)
        if not (len(b) == 1 and isinstance(b[0], ast.Return) and _is_call_to(b[0].value, 'templates.replace_as_expression')
                and isinstance(b[0].value.args[0], ast.Constant)):
            _fail(fn, mm, '%s shape' % mname)
        return ast.parse(b[0].value.args[0].value.strip(), mode='eval').body, [a.arg for a in mm.args.args][1:], b[0].value

    lam, lam_params, _ = tpl_of('_as_lambda')
    if not (isinstance(lam, ast.Lambda) and isinstance(lam.body, ast.Name) and lam_params == [lam.body.id]):
        _fail(fn, cls, '_as_lambda shape')
    nlam = len(lam.args.args)
    binf, binp, _ = tpl_of('_as_binary_function')
    unf, unp, _ = tpl_of('_as_unary_function')
    if not (isinstance(binf, ast.Call) and [ast.unparse(a) for a in binf.args] == binp[1:] and _name(binf.func) == binp[0]):
        _fail(fn, cls, '_as_binary_function shape')
    if not (isinstance(unf, ast.Call) and [ast.unparse(a) for a in unf.args] == unp[1:] and _name(unf.func) == unp[0]):
        _fail(fn, cls, '_as_unary_function shape')
    vb = _find_method(cls, 'visit_BoolOp', fn)
    found = False
    for c in ast.walk(vb):
        if _is_call_to(c, 'self._as_binary_function'):
            if not (len(c.args) == 3 and ast.unparse(c.args[0]) == 'self._overload_of(node.op)'
                    and all(_is_call_to(a, 'self._as_lambda') for a in c.args[1:])):
                _fail(fn, vb, 'visit_BoolOp must wrap both operands with _as_lambda')
            found = True
    if not found:
        _fail(fn, vb, 'visit_BoolOp shape')
    vc = _find_method(cls, 'visit_Compare', fn)
    for c in ast.walk(vc):
        if _is_call_to(c, 'self._as_binary_function') and ast.unparse(c.args[0]) == "'ag__.and_'":
            if not all(_is_call_to(a, 'self._as_lambda') for a in c.args[1:]):
                _fail(fn, vc, 'visit_Compare must wrap both and_ operands with _as_lambda')
    vu = _find_method(cls, 'visit_UnaryOp', fn)
    okun = any(_is_call_to(c, 'self._as_unary_function') and ast.unparse(c.args[1]) == 'node.operand'
               for c in ast.walk(vu))
    if not okun:
        _fail(fn, vu, 'visit_UnaryOp shape')
    for k, nm in (('ast.And', 'and_'), ('ast.Or', 'or_')):
        if ops[k] != 'ag__.' + nm:
            _fail(fn, tree, 'LOGICAL_OPERATORS[%s]' % k)
        out.append('(%s, [ALambda %d "left"; ALambda %d "right"])' % (cs(nm), nlam, nlam))
    if ops['ast.Not'] != 'ag__.not_':
        _fail(fn, tree, 'LOGICAL_OPERATORS[ast.Not]')
    out.append('("not_", [APlace "operand"])')
    return out


# ------------------------------------------------------------------------------ operators (signatures, callback calls)

OPS = [('control_flow', 'if_stmt'), ('control_flow', 'while_stmt'), ('control_flow', 'for_stmt'),
       ('conditional_expressions', 'if_exp'), ('logical', 'and_'), ('logical', 'or_'), ('logical', 'not_')]


def _op_calls(repo, modname, opname):
    fn = 'malt/operators/%s.py' % modname
    tree = ast.parse(open(os.path.join(repo, fn)).read())
    funcs = {n.name: n for n in tree.body if isinstance(n, ast.FunctionDef)}
    if opname not in funcs:
        _fail(fn, tree, 'operator %s not found' % opname)
    results = {}     # param of opname -> set of arities
    seen = set()

    def analyse(fname, mapping):
        """mapping: local name in fname -> parameter name of the operator"""
        key = (fname, tuple(sorted(mapping.items())))
        if key in seen:
            return
        seen.add(key)
        f = funcs[fname]
        aliases = {}
        for n in ast.walk(f):
            if isinstance(n, ast.Assign) and len(n.targets) == 1 and isinstance(n.targets[0], ast.Name) \
                    and isinstance(n.value, ast.Name) and n.value.id in funcs:
                aliases.setdefault(n.targets[0].id, set()).add(n.value.id)
        inner = {n.name for n in ast.walk(f) if isinstance(n, ast.FunctionDef) and n is not f}
        for n in ast.walk(f):
            if isinstance(n, ast.Delete):
                continue
            if not isinstance(n, ast.Call):
                continue
            callee = _name(n.func)
            passed = [(i, a.id) for i, a in enumerate(n.args) if isinstance(a, ast.Name) and a.id in mapping]
            passed_kw = [(k.arg, k.value.id) for k in n.keywords if isinstance(k.value, ast.Name) and k.value.id in mapping]
            if callee in mapping:
                if n.keywords or any(isinstance(a, ast.Starred) for a in n.args):
                    _fail(fn, n, 'callback called with keywords / star arguments')
                results.setdefault(mapping[callee], set()).add(len(n.args))
                continue
            targets = set()
            if callee in funcs:
                targets = {callee}
            elif callee in aliases:
                targets = aliases[callee]
            elif callee in inner or not (passed or passed_kw):
                continue
            elif callee in ('bool', 'isinstance', 'callable'):
                continue
            elif callee is None and ast.unparse(n.func).endswith('_registry.lookup'):
                continue      # type-based dispatch to third-party implementations
            else:
                _fail(fn, n, 'operator parameter passed to an unknown callee: ' + ast.unparse(n))
            for tname in targets:
                tp = [a.arg for a in funcs[tname].args.args]
                sub = {}
                for i, local in passed:
                    if i >= len(tp):
                        _fail(fn, n, 'too many arguments for ' + tname)
                    sub[tp[i]] = mapping[local]
                for k, local in passed_kw:
                    sub[k] = mapping[local]
                if sub:
                    analyse(tname, sub)

    params = [a.arg for a in funcs[opname].args.args]
    analyse(opname, {p: p for p in params})
    out = []
    for p in params:
        for n in sorted(results.get(p, ())):
            out.append((opname, p, n))
    return out


def _signatures(repo):
    import importlib
    sigs = []
    for modname, opname in OPS:
        mod = importlib.import_module('malt.operators.' + modname)
        if os.path.realpath(mod.__file__) != os.path.realpath(os.path.join(repo, 'malt', 'operators', modname + '.py')):
            raise Untranslatable('untranslatable: malt.operators.%s imported from %s, not from %s' % (modname, mod.__file__, repo))
        f = getattr(mod, opname, None)
        if f is None:
            raise Untranslatable('untranslatable: malt.operators.%s.%s missing' % (modname, opname))
        sig = inspect.signature(f)
        for p in sig.parameters.values():
            if p.kind != p.POSITIONAL_OR_KEYWORD or p.default is not p.empty:
                raise Untranslatable('untranslatable: %s has a non-plain parameter %s' % (opname, p))
        sigs.append((opname, list(sig.parameters)))
    return sigs


# ------------------------------------------------------------------------------ documentation

def _docs(repo, sigs):
    fn = 'g3doc/reference/operators.md'
    text = open(os.path.join(repo, fn)).read()
    sections = re.split(r'^#####\s+`([A-Za-z_]+)`\s*$', text, flags=re.M)
    doc_params = []
    doc_arity = []
    sigd = dict(sigs)
    for i in range(1, len(sections), 2):
        op = sections[i]
        body = re.split(r'^#{2,4} ', sections[i + 1], flags=re.M)[0]
        if op not in sigd:
            continue
        m = re.search(r'Args:(.*?)(?:\nExample|\Z)', body, flags=re.S)
        params = []
        if m:
            params = re.findall(r'^\*\s+([A-Za-z_]+):', m.group(1), flags=re.M)
            if not params:
                params = [w for w in re.findall(r'(?<![`\w])([a-z_]+): ', m.group(1).replace('\n', ' ')) if w != 'lambda']
        if params:
            doc_params.append((op, params))
        for block in re.findall(r'```\n(.*?)```', body, flags=re.S):
            if 'ag__.' + op not in block:
                continue
            try:
                tree = ast.parse(textwrap.dedent(block))
            except SyntaxError:
                raise Untranslatable('untranslatable: %s: example of %s does not parse' % (fn, op))
            defs = {d.name: len(d.args.args) for d in ast.walk(tree) if isinstance(d, ast.FunctionDef)}
            for c in ast.walk(tree):
                if isinstance(c, ast.Call) and ast.unparse(c.func) == 'ag__.' + op:
                    if len(c.args) != len(sigd[op]):
                        doc_arity.append((op, '<call>', len(c.args)))
                    for pname, a in zip(sigd[op], c.args):
                        if isinstance(a, ast.Name) and a.id in defs:
                            doc_arity.append((op, pname, defs[a.id]))
                        elif isinstance(a, ast.Lambda):
                            doc_arity.append((op, pname, len(a.args.args)))
    return doc_params, sorted(set(doc_arity))


# ------------------------------------------------------------------------------ main

VARS_PY = 'malt/converters/variables.py'


def _delete_rule(repo):
    """VariableAccessTransformer.visit_Delete -> Gallina delete_rule"""
    fn = VARS_PY
    tree = ast.parse(open(os.path.join(repo, fn)).read())
    cls = _find_class(tree, 'VariableAccessTransformer', fn)
    m = _find_method(cls, 'visit_Delete', fn)
    if [a.arg for a in m.args.args] != ['self', 'node'] or m.args.vararg or m.args.kwarg or m.decorator_list:
        _fail(fn, m, 'visit_Delete signature')
    body = _nodoc(m.body)
    if len(body) != 5:
        _fail(fn, m, 'visit_Delete: expected 5 statements (generic_visit, guard, accumulator, loop, return)')
    st = body[0]
    if not (isinstance(st, ast.Assign) and len(st.targets) == 1 and _name(st.targets[0]) == 'node'
            and ast.unparse(st.value) == 'self.generic_visit(node)'):
        _fail(fn, st, 'visit_Delete: first statement is not `node = self.generic_visit(node)`')
    # guard: if not any|all(isinstance(T, ast.Name) for T in node.targets): return node
    g = body[1]
    ok = (isinstance(g, ast.If) and not g.orelse and isinstance(g.test, ast.UnaryOp) and isinstance(g.test.op, ast.Not)
          and isinstance(g.test.operand, ast.Call) and _name(g.test.operand.func) in ('any', 'all')
          and len(g.test.operand.args) == 1 and not g.test.operand.keywords
          and isinstance(g.test.operand.args[0], ast.GeneratorExp))
    if not ok:
        _fail(fn, g, 'visit_Delete: guard is not `if not any|all(<generator>): ...`')
    ge = g.test.operand.args[0]
    if not (len(ge.generators) == 1 and not ge.generators[0].ifs and not ge.generators[0].is_async
            and isinstance(ge.generators[0].target, ast.Name) and ast.unparse(ge.generators[0].iter) == 'node.targets'
            and ast.unparse(ge.elt) == 'isinstance(%s, ast.Name)' % ge.generators[0].target.id):
        _fail(fn, g, 'visit_Delete: guard does not quantify `isinstance(T, ast.Name)` over node.targets')
    gb = _nodoc(g.body)
    if not (len(gb) == 1 and isinstance(gb[0], ast.Return) and _name(gb[0].value) == 'node'):
        _fail(fn, g, 'visit_Delete: guarded statement is not `return node`')
    quant = 'QAny' if g.test.operand.func.id == 'any' else 'QAll'
    # accumulator, loop, return
    acc = body[2]
    if not (isinstance(acc, ast.Assign) and len(acc.targets) == 1 and isinstance(acc.targets[0], ast.Name)
            and isinstance(acc.value, ast.List) and not acc.value.elts):
        _fail(fn, acc, 'visit_Delete: accumulator initialisation')
    R = acc.targets[0].id
    ret = body[4]
    if not (isinstance(ret, ast.Return) and _name(ret.value) == R):
        _fail(fn, ret, 'visit_Delete: does not return the accumulated statements')
    loop = body[3]
    if not (isinstance(loop, ast.For) and not loop.orelse and isinstance(loop.target, ast.Name)
            and ast.unparse(loop.iter) == 'node.targets' and len(loop.body) == 1 and isinstance(loop.body[0], ast.If)):
        _fail(fn, loop, 'visit_Delete: loop over node.targets with one if/else')
    T = loop.target.id
    br = loop.body[0]
    if ast.unparse(br.test) != 'isinstance(%s, ast.Name)' % T or not br.orelse:
        _fail(fn, br, 'visit_Delete: per-target test is not `isinstance(T, ast.Name)` with an else branch')

    def emitted(stmts, at):
        """statements of one branch -> list of del_action"""
        tpl = None
        out = []
        for st in stmts:
            if (isinstance(st, ast.Assign) and len(st.targets) == 1 and isinstance(st.targets[0], ast.Name)
                    and isinstance(st.value, ast.Constant) and isinstance(st.value.value, str)):
                tpl = (st.targets[0].id, st.value.value)
                continue
            if not (isinstance(st, ast.Expr) and isinstance(st.value, ast.Call) and isinstance(st.value.func, ast.Attribute)
                    and _name(st.value.func.value) == R and len(st.value.args) == 1 and not st.value.keywords):
                _fail(fn, st, 'visit_Delete: statement is neither a template string nor %s.extend/append(...)' % R)
            how, arg = st.value.func.attr, st.value.args[0]
            if how == 'append' and ast.unparse(arg) == 'ast.Delete(targets=[%s])' % T:
                out.append('DADelete')
            elif how == 'extend' and _is_call_to(arg, 'templates.replace') and len(arg.args) == 1:
                if not (tpl and _name(arg.args[0]) == tpl[0]):
                    _fail(fn, st, 'visit_Delete: template of templates.replace is not the string bound just before')
                kws = {}
                for kw in arg.keywords:
                    if kw.arg is None:
                        _fail(fn, st, '**kwargs in templates.replace')
                    kws[kw.arg] = ast.unparse(kw.value)
                var = [k for k, v in kws.items() if v == T]
                nam = [k for k, v in kws.items() if v == 'ast.Constant(%s.id)' % T]
                if len(kws) != len(var) + len(nam) or len(var) != 1 or len(nam) > 1:
                    _fail(fn, st, 'visit_Delete: placeholders must be bound to the target and to ast.Constant(<target>.id)')
                for ts in _parse_template(tpl[1], fn, st):
                    txt = ast.unparse(ts)
                    if txt == 'ag__.ld(%s)' % var[0]:
                        out.append('DARead')
                    elif nam and txt == '%s = ag__.Undefined(%s)' % (var[0], nam[0]):
                        out.append('DABindUndefined')
                    elif txt == 'del %s' % var[0]:
                        out.append('DADelete')
                    else:
                        _fail(fn, st, 'visit_Delete: unrecognised template statement `%s`' % txt)
            else:
                _fail(fn, st, 'visit_Delete: unrecognised emission `%s`' % ast.unparse(st)[:80])
        return out
    return '{| dr_rewritten_when := %s; dr_name := %s; dr_other := %s |}' % (
        quant, clist(emitted(br.body, br)), clist(emitted(br.orelse, br)))


def translate(repo):
    path = os.path.join(repo, CF)
    tree = ast.parse(open(path).read())
    cls = _find_class(tree, 'ControlFlowTransformer', CF)
    sf = _state_functions(cls)
    v_if = _visit_method(cls, 'visit_If', 'if_stmt')
    v_while = _visit_method(cls, 'visit_While', 'while_stmt')
    v_for = _visit_method(cls, 'visit_For', 'for_stmt')
    bv = _block_vars(cls)
    lo = _loop_options(cls)
    et = _expr_templates(repo)
    sigs = _signatures(repo)
    calls = []
    for modname, opname in OPS:
        calls += _op_calls(repo, modname, opname)
    doc_params, doc_arity = _docs(repo, sigs)
    dr = _delete_rule(repo)
    L = []
    L.append('(* GENERATED by tools/translate/c03_contract.py from malt/converters/control_flow.py, variables.py,')
    L.append('   conditional_expressions.py, logical_expressions.py, malt/operators/{control_flow,conditional_expressions,logical}.py and')
    L.append('   g3doc/reference/operators.md -- do not edit *)')
    L.append('From Coq Require Import List String.')
    L.append('Import ListNotations.')
    L.append('Require Import MV.Contract.ContractSyntax.')
    L.append('Local Open Scope string_scope.')
    L.append('')
    L.append('Definition state_fns_gen : state_fns :=\n  %s.' % sf)
    L.append('')
    L.append('Definition visit_if_gen : stmt_tpl :=\n  %s.' % v_if)
    L.append('')
    L.append('Definition visit_while_gen : stmt_tpl :=\n  %s.' % v_while)
    L.append('')
    L.append('Definition visit_for_gen : stmt_tpl :=\n  %s.' % v_for)
    L.append('')
    L.append('Definition block_vars_gen : blockvars_tpl :=\n  %s.' % bv)
    L.append('')
    L.append('Definition loop_options_gen : loop_options_tpl :=\n  %s.' % lo)
    L.append('')
    L.append('Definition expr_templates_gen : list (string * list targ) :=\n  %s.' % clist(et))
    L.append('')
    L.append('Definition op_sigs_gen : list (string * list string) :=\n  %s.'
             % clist(['(%s, %s)' % (cs(o), cslist(p)) for o, p in sigs]))
    L.append('')
    L.append('(* (operator, parameter, number of arguments the operator implementation calls it with) *)')
    L.append('Definition op_calls_gen : list (string * string * nat) :=\n  %s.'
             % clist(['(%s, %s, %d)' % (cs(o), cs(p), n) for o, p, n in calls]))
    L.append('')
    L.append('Definition doc_params_gen : list (string * list string) :=\n  %s.'
             % clist(['(%s, %s)' % (cs(o), cslist(p)) for o, p in doc_params]))
    L.append('')
    L.append('(* (operator, parameter, arity of the callable in the documented example) *)')
    L.append('Definition doc_arity_gen : list (string * string * nat) :=\n  %s.'
             % clist(['(%s, %s, %d)' % (cs(o), cs(p), n) for o, p, n in doc_arity]))
    L.append('')
    L.append('(* VariableAccessTransformer.visit_Delete *)')
    L.append('Definition delete_rule_gen : delete_rule :=\n  %s.' % dr)
    L.append('')
    L.append('Definition contract_gen : contract :=')
    L.append('  {| c_state := state_fns_gen; c_if := visit_if_gen; c_while := visit_while_gen; c_for := visit_for_gen;')
    L.append('     c_blockvars := block_vars_gen; c_loop_options := loop_options_gen; c_exprs := expr_templates_gen;')
    L.append('     c_sigs := op_sigs_gen; c_calls := op_calls_gen; c_doc_params := doc_params_gen; c_doc_arity := doc_arity_gen |}.')
    return '\n'.join(L) + '\n'


if __name__ == '__main__':
    import sys
    print(translate(sys.argv[1] if len(sys.argv) > 1 else '/repo'))
