"""C15 -- Python mirror of the Coq lexical model (coq/Lexer/PyLex.v, coq/Lexer/Dedent.v) and the
reference rendering computed from CPython's `tokenize`.

Nothing here is part of the proof.  It is used by tools/props/c15.py
  * to compute, from CPython's own tokenizer, the *expected* item stream of a source text
    (`render_tokenize`) against which the Coq function `lex` is evaluated (validation of the
    specification side S),
  * to classify a failing input as one of the known findings (`unsafe_continuations`),
  * as a development aid (`lex`, `dedent_block` mirror the Coq definitions one to one).

Rendering of an item stream as text (the same function exists in Coq, Lexer/DedentCheck.v):
   ICode c adj      -> c            (preceded by one blank if not adjacent to the previous significant char)
   IOpen q long adj -> $s q / $l q  (same blank rule)
   IStr c           -> c
   IClose           -> $c
   ICom c           -> c
   INl              -> newline
   IIndent w        -> $i w $e
   IErr             -> $!
`$` never occurs in generated sources.
"""
import io
import tokenize

WS = ' \t'
OPEN = '([{'
CLOSE = ')]}'


# ---------------------------------------------------------------- mirror of PyLex.step
def step(st, c):
    k = st[0]
    if k == 'Code':
        _, d, adj = st
        if c in WS:
            return ('Code', d, False), []
        if c == '\n':
            return ('LS', '', d), [('INl',)]
        if c == '#':
            return ('Com', d), [('ICom', c)]
        if c == '\\':
            return ('CodeBs', d, adj), []
        if c in '\'"':
            return ('Q1', c, d, adj), []
        if c in OPEN:
            return ('Code', d + 1, True), [('ICode', c, adj)]
        if c in CLOSE:
            return ('Code', max(d - 1, 0), True), [('ICode', c, adj)]
        return ('Code', d, True), [('ICode', c, adj)]
    if k == 'CodeBs':
        _, d, adj = st
        if c == '\n':
            return ('Code', d, False), []
        return ('Err',), [('IErr',)]
    if k == 'LS':
        _, w, d = st
        if c in WS:
            return ('LS', w + c, d), []
        if c == '\n':
            return ('LS', '', d), [('INl',)]
        if c == '#':
            return ('Com', d), [('ICom', c)]
        st2, items = step(('Code', d, False), c)
        return st2, ([('IIndent', w)] if d == 0 else []) + items
    if k == 'Com':
        _, d = st
        if c == '\n':
            return ('LS', '', d), [('INl',)]
        return st, [('ICom', c)]
    if k == 'Q1':
        _, q, d, adj = st
        if c == q:
            return ('Q2', q, d, adj), []
        st2, items = step(('SStr', q, d), c)
        return st2, [('IOpen', q, False, adj)] + items
    if k == 'Q2':
        _, q, d, adj = st
        if c == q:
            return ('LStr', q, d, 0), [('IOpen', q, True, adj)]
        st2, items = step(('Code', d, True), c)
        return st2, [('IOpen', q, False, adj), ('IClose',)] + items
    if k == 'SStr':
        _, q, d = st
        if c == q:
            return ('Code', d, True), [('IClose',)]
        if c == '\\':
            return ('SBs', q, d), [('IStr', c)]
        if c == '\n':
            return ('Err',), [('IErr',)]
        return st, [('IStr', c)]
    if k == 'SBs':
        _, q, d = st
        return ('SStr', q, d), [('IStr', c)]
    if k == 'LStr':
        _, q, d, n = st
        if c == q:
            if n == 2:
                return ('Code', d, True), [('IClose',)]
            return ('LStr', q, d, n + 1), [('IStr', c)]
        if c == '\\':
            return ('LBs', q, d), [('IStr', c)]
        return ('LStr', q, d, 0), [('IStr', c)]
    if k == 'LBs':
        _, q, d = st
        return ('LStr', q, d, 0), [('IStr', c)]
    return ('Err',), []


def finish(st):
    if st[0] == 'Q2':
        return [('IOpen', st[1], False, st[3]), ('IClose',)]
    if st[0] == 'Q1':
        return [('IOpen', st[1], False, st[3]), ('IErr',)]
    return []


INIT = ('LS', '', 0)


def run(st, s):
    out = []
    for c in s:
        st, it = step(st, c)
        out += it
    return st, out


def lex(s):
    st, out = run(INIT, s)
    return out + finish(st)


def in_string(st):
    return st[0] in ('SStr', 'SBs', 'LStr', 'LBs', 'Q1', 'Q2')


def render(items):
    out = []
    for it in items:
        k = it[0]
        if k == 'ICode':
            out.append(('' if it[2] else ' ') + it[1])
        elif k == 'IOpen':
            out.append(('' if it[3] else ' ') + ('$l' if it[2] else '$s') + it[1])
        elif k in ('IStr', 'ICom'):
            out.append(it[1])
        elif k == 'IClose':
            out.append('$c')
        elif k == 'INl':
            out.append('\n')
        elif k == 'IIndent':
            out.append('$i' + it[1] + '$e')
        elif k == 'IErr':
            out.append('$!')
    return ''.join(out)


# ---------------------------------------------------------------- mirror of Dedent.v
def unfold(s):
    out = []
    i = 0
    while i < len(s):
        if s[i] == '\\' and i + 1 < len(s) and s[i + 1] == '\n':
            i += 2
        else:
            out.append(s[i])
            i += 1
    return ''.join(out)


def unsafe_continuations(s):
    """Mirror of Dedent.unfold_safe: the list of (offset, kind) of backslash-newline pairs whose
    textual removal is not token preserving; kind in
       string           inside a string literal and value changing: the literal is raw, or the backslash is
                        itself escaped
       string-harmless  inside an ordinary string literal, the backslash escaping the newline (Python's own
                        evaluation of the literal removes the pair too)
       comment / glue / linestart"""
    bad = []
    st = INIT
    i = 0
    raw = False
    while i < len(s):
        if st[0] == 'Code' and s[i] in '\'"':
            j = i
            while j > 0 and (s[j - 1].isalnum() or s[j - 1] == '_'):
                j -= 1
            raw = 'r' in s[j:i].lower()
        elif st[0] == 'LS' and s[i] in '\'"':
            raw = False
        if s[i] == '\\' and i + 1 < len(s) and s[i + 1] == '\n':
            k = st[0]
            if k == 'Code':
                nxt = s[i + 2] if i + 2 < len(s) else None
                if st[2] and not (nxt is None or nxt in WS or nxt == '\n' or nxt == '#'):
                    bad.append((i, 'glue'))
            elif k == 'LS':
                bad.append((i, 'linestart'))
            elif k == 'Com':
                bad.append((i, 'comment'))
            elif k == 'Err':
                pass
            elif k == 'CodeBs':
                bad.append((i, 'glue'))
            elif k in ('SBs', 'LBs') or raw or k in ('Q1', 'Q2'):
                bad.append((i, 'string'))
            else:
                bad.append((i, 'string-harmless'))
            st, _ = step(st, s[i])
            st, _ = step(st, s[i + 1])
            i += 2
        else:
            st, _ = step(st, s[i])
            i += 1
    return bad


class MixedTabs(Exception):
    pass


def span_ws(l):
    n = 0
    while n < len(l) and l[n] in WS:
        n += 1
    return l[:n], l[n:]


def newlen(b, n):
    return n - b if n >= b else n


def first_indent(st, lines):
    for i, l in enumerate(lines):
        last = (i == len(lines) - 1)
        if st[0] == 'LS':
            w, rest = span_ws(l)
            if st[2] == 0 and rest and rest[0] != '#':
                return w
        st, _ = run(st, l if last else l + '\n')
    return ''


def dedent_block(s):
    u = unfold(s)
    lines = u.split('\n')
    block = first_indent(INIT, lines)
    b = len(block)
    if b == 0:
        return u
    tabs = '\t' in block
    st = INIT
    stk = [0]
    out = []
    for i, l in enumerate(lines):
        last = (i == len(lines) - 1)
        if st[0] == 'LS':
            w, rest = span_ws(l)
            d = st[2]
            if not rest:
                keep = 0
            elif rest[0] == '#' or d > 0:
                keep = newlen(b, stk[-1])
            else:
                n = len(w)
                while stk and stk[-1] > n:
                    stk.pop()
                if not stk or n > stk[-1]:
                    if (' ' in w and tabs) or ('\t' in w and not tabs):
                        raise MixedTabs()
                    stk.append(n)
                keep = newlen(b, n)
            if len(w) > keep:
                l2 = l[len(w) - keep:]
            else:
                l2 = l
            out.append(l2)
        else:
            out.append(l)
        st, _ = run(st, l if last else l + '\n')
    return '\n'.join(out)


# ---------------------------------------------------------------- reference from CPython's tokenize
def _string_items(text, adj):
    """items of one complete string literal token text (prefix letters included)."""
    i = 0
    items = []
    while text[i] not in '\'"':
        items.append(('ICode', text[i], adj))
        adj = True
        i += 1
    q = text[i]
    if text[i:i + 3] == q * 3 and len(text) - i >= 6:
        items.append(('IOpen', q, True, adj))
        body = text[i + 3:-1]          # the model keeps the two last closing quotes in the body
        items += [('IStr', c) for c in body]
        items.append(('IClose',))
    else:
        items.append(('IOpen', q, False, adj))
        items += [('IStr', c) for c in text[i + 1:-1]]
        items.append(('IClose',))
    return items


def render_tokenize(src):
    """Expected rendering of `src` derived from CPython's tokenizer (raises on a tokenizer error)."""
    lines = src.split('\n')
    offs = [0]
    for l in lines:
        offs.append(offs[-1] + len(l) + 1)

    def off(pos):
        return offs[pos[0] - 1] + pos[1]

    toks = list(tokenize.generate_tokens(io.StringIO(src).readline))
    items = []
    prev_end = None          # offset just after the previous significant char
    logical_start = True
    fdepth = 0
    fstart = None
    T = tokenize
    for t in toks:
        ty = t.type
        if fdepth:
            if ty == T.FSTRING_START:
                fdepth += 1
            elif ty == T.FSTRING_END:
                fdepth -= 1
                if fdepth == 0:
                    text = src[fstart:off(t.end)]
                    items += _string_items(text, fadj)
                    prev_end = off(t.end)
            continue
        if ty in (T.INDENT, T.DEDENT, T.ENDMARKER):
            continue
        if ty in (T.NL, T.NEWLINE):
            if t.string:
                items.append(('INl',))
            prev_end = None
            if ty == T.NEWLINE:
                logical_start = True
            continue
        if ty == T.COMMENT:
            items += [('ICom', c) for c in t.string]
            prev_end = None
            continue
        if logical_start:
            items.append(('IIndent', lines[t.start[0] - 1][:t.start[1]]))
            logical_start = False
        adj = (prev_end is not None and prev_end == off(t.start))
        if ty == T.FSTRING_START:
            fdepth = 1
            fstart = off(t.start)
            fadj = adj
            continue
        if ty == T.STRING:
            items += _string_items(t.string, adj)
        else:
            for c in t.string:
                items.append(('ICode', c, adj))
                adj = True
        prev_end = off(t.end)
    return render(items)
