"""C19 laboratory: typed program generator, scripted truthful resolver, instrumented runs, and the
analysis runner around malt.pyct.static_analysis.type_inference (real code, unmodified).

Vocabulary of run-time types ("tags"): python classes int/float/bool/str/list/function..., and for
tuples the tuple of the element tags (that is how StmtInferrer.visit_Tuple represents tuple types).
`typeof(v)` computes the tag of a value, `has_type(v, t)` is the judgement "the reported type t
covers the run-time value v" (typing.Any covers everything, a typing Callable covers callables).
"""
import ast
import collections.abc
import itertools
import typing

# --------------------------------------------------------------------------------------------
# run-time type tags


def typeof(v):
    if type(v) is tuple:
        return tuple(typeof(e) for e in v)
    return type(v)


def has_type(v, t):
    if t is typing.Any:
        return True
    if typing.get_origin(t) is collections.abc.Callable:
        return callable(v)
    if isinstance(t, tuple):
        return type(v) is tuple and len(v) == len(t) and all(has_type(e, u) for e, u in zip(v, t))
    return typeof(v) == t


def covered(v, types):
    return any(has_type(v, t) for t in types)


def tname(t):
    if isinstance(t, tuple):
        return '(' + ','.join(tname(e) for e in t) + ')'
    if t is typing.Any:
        return 'Any'
    if typing.get_origin(t) is collections.abc.Callable:
        return 'Callable'
    return getattr(t, '__name__', repr(t))


def tset(types):
    return sorted(tname(t) for t in types)


_SAMPLES = {int: [3], float: [1.5], bool: [True], str: ['ab'], list: [[1, 'a']]}


def samples(t):
    """Values whose tag is t (None when t is not a tag of the generator's value universe)."""
    if isinstance(t, tuple):
        parts = [samples(e) for e in t]
        if any(p is None for p in parts):
            return None
        return [tuple(c) for c in itertools.product(*parts)]
    return _SAMPLES.get(t)


# --------------------------------------------------------------------------------------------
# external namespace of the generated functions

def ident(v):
    return v


def pick(c, u, v):
    return u if c else v


def tostr(v):
    return str(v)


def length(v):
    return len(v)


def mkpair(u, v):
    return (u, v)


class Obj(object):
    """target of attribute stores in chained assignments"""

    def __init__(self):
        self.v = 0


def namespace():
    return {'G_INT': 7, 'G_FLT': 2.5, 'G_STR': 'gs', 'G_BOOL': False, 'G_TUP': (1, 'a'), 'G_LST': [1, 2.5, 's'],
            'G_OBJ': Obj(),
            'ident': ident, 'pick': pick, 'tostr': tostr, 'length': length, 'mkpair': mkpair}


EXT_FUNS = ('ident', 'pick', 'tostr', 'length', 'mkpair')

def _mul(a, b):
    # the tag of tuple * int depends on the value of the int: outside the type-level operators
    if type(a) is tuple or type(b) is tuple:
        raise TypeError('tuple repetition')
    return a * b


BINOPS = {'+': lambda a, b: a + b, '-': lambda a, b: a - b, '*': _mul}
CMPOPS = {'==': lambda a, b: a == b, '!=': lambda a, b: a != b, '<': lambda a, b: a < b, '>=': lambda a, b: a >= b}
UNOPS = {'-': lambda a: -a, 'not ': lambda a: not a}
_AST_BIN = {ast.Add: '+', ast.Sub: '-', ast.Mult: '*'}
_AST_CMP = {ast.Eq: '==', ast.NotEq: '!=', ast.Lt: '<', ast.GtE: '>='}
_AST_UN = {ast.USub: '-', ast.Not: 'not '}


def eval_types(fn, argtypes):
    """{typeof(fn(*vals))} over all sample values of the given tags; combinations that raise are skipped.
    None when some tag has no samples (outside the universe)."""
    pools = []
    for t in argtypes:
        s = samples(t)
        if s is None:
            return None
        pools.append(s)
    out = set()
    for vals in itertools.product(*pools):
        try:
            out.add(typeof(fn(*vals)))
        except Exception:   # noqa
            pass
    return out


def lift(fn, argsets):
    """Type-level image of fn over sets of tags.  Any in an operand -> {Any} (top)."""
    if any(s is None for s in argsets):
        return None
    if any(typing.Any in s for s in argsets):
        return {typing.Any}
    out = set()
    for combo in itertools.product(*[sorted(s, key=tname) for s in argsets]):
        r = eval_types(fn, combo)
        if r is None:
            return None
        out |= r
    return out


# --------------------------------------------------------------------------------------------
# generator

VARS = ['x', 'y', 'z', 'w']
PARAMS = ['a', 'b', 'c']
INNER_VARS = ['u', 'v']
BASE = [int, float, bool, str]


class GOpts(object):
    def __init__(self, **kw):
        self.untyped = False       # constructs the inferrer cannot type (known finding shapes)
        self.shift = False         # the whole function: one tuple assignment shifting types through 5-8 variables in a loop
        self.loopelse = False      # start with nested loops whose else clauses break / continue the enclosing loop
        self.loopmut = False       # start with: loop { if-without-else / inner loop { x = <other type> } ; read x }
        self.nested = True
        self.sibling = False       # local functions that call OTHER local functions of the same scope (see Gen.sibdef)
        self.max_stmts = 12
        self.__dict__.update(kw)


class Gen(object):
    """Generates `def f(a, b, c)` together with a static may-set of tags per variable, so that
    operators are only applied where they cannot raise (mostly)."""

    def __init__(self, rnd, opts, argtypes):
        self.r = rnd
        self.o = opts
        self.lines = []
        self.budget = opts.max_stmts
        self.nfun = 0
        self.nloop = 0
        self.inloop = 0            # > 0: no tuple may be built from a local variable (see Diverged)
        self.env0 = {p: {t} for p, t in zip(PARAMS, argtypes)}
        ns = namespace()
        self.globals = {k: {typeof(v)} for k, v in ns.items() if k.startswith('G_')}

    def emit(self, ind, s):
        self.lines.append('    ' * ind + s)

    # expressions: returns (text, set of tags | None when unknown to the generator)
    def const(self):
        t = self.r.choice(BASE)
        v = {int: self.r.choice(['0', '1', '5']), float: self.r.choice(['0.5', '2.0']),
             bool: self.r.choice(['True', 'False']), str: self.r.choice(["'s'", "'tt'"])}[t]
        return v, {t}

    def expr(self, env, depth=0):
        r = self.r
        kinds = ['const'] * 3 + ['name'] * 4
        if depth < 2:
            kinds += ['tuple'] * 2 + ['bin'] * 3 + ['cmp'] + ['un'] + ['call'] * 2 + ['sub'] + ['list']
            if self.o.untyped:
                kinds += ['boolop', 'ifexp', 'lsub']
        for _ in range(8):
            k = r.choice(kinds)
            res = self.expr_kind(k, env, depth)
            if res is not None:
                return res
        return self.const()

    def known(self, env):
        pool = [(n, s) for n, s in sorted(env.items()) if s]
        pool += sorted(self.globals.items())
        return pool

    def expr_kind(self, k, env, depth):
        r = self.r
        if k == 'const':
            return self.const()
        if k == 'name':
            n, s = r.choice(self.known(env))
            return n, set(s)
        if self.inloop and k in ('tuple', 'call'):
            # tuple tags nest without bound when a loop wraps a variable into a tuple again and again
            # (x = (x, 1)): the analysis then never reaches a fixed point.  Inside loops tuples are built
            # from parameters, globals and constants only.
            env = {n: s for n, s in env.items() if n in PARAMS}
        if k == 'tuple':
            n = r.choice([1, 2, 2, 3])
            parts = [self.expr(env, depth + 1) for _ in range(n)]
            if any(len(p[1]) > 3 for p in parts):
                return None
            types = set(itertools.product(*[sorted(p[1], key=tname) for p in parts]))
            if len(types) > 6:
                return None
            return '(' + ', '.join(p[0] for p in parts) + (',)' if n == 1 else ')'), types
        if k == 'list':
            parts = [self.expr(env, depth + 1) for _ in range(r.choice([0, 1, 2]))]
            return '[' + ', '.join(p[0] for p in parts) + ']', {list}
        if k in ('bin', 'cmp'):
            table = BINOPS if k == 'bin' else CMPOPS
            op = r.choice(sorted(table))
            a, ta = self.expr(env, depth + 1)
            b, tb = self.expr(env, depth + 1)
            if typing.Any in ta or typing.Any in tb:
                return None
            res = set()
            for x in ta:
                for y in tb:
                    sx, sy = samples(x), samples(y)
                    if sx is None or sy is None:
                        return None
                    try:
                        res.add(typeof(table[op](sx[0], sy[0])))
                    except Exception:  # noqa
                        return None
            if self.inloop and any(isinstance(t, tuple) for t in res):
                return None        # tuple concatenation in a loop grows the tags without bound as well
            return '(%s %s %s)' % (a, op, b), res
        if k == 'un':
            op = r.choice(sorted(UNOPS))
            a, ta = self.expr(env, depth + 1)
            if typing.Any in ta:
                return None
            res = set()
            for x in ta:
                sx = samples(x)
                if sx is None:
                    return None
                try:
                    res.add(typeof(UNOPS[op](sx[0])))
                except Exception:  # noqa
                    return None
            return '(%s%s)' % (op, a), res
        if k == 'sub':
            a, ta = self.expr(env, depth + 1)
            if not ta or not all(isinstance(t, tuple) and len(t) >= 1 for t in ta):
                return None
            i = r.randrange(min(len(t) for t in ta))
            return '%s[%d]' % (a, i), {t[i] for t in ta}
        if k == 'lsub':
            return 'G_LST[%d]' % r.randrange(3), {typing.Any}
        if k == 'call':
            f = r.choice(EXT_FUNS)
            if f == 'ident':
                a, ta = self.expr(env, depth + 1)
                return 'ident(%s)' % a, set(ta)
            if f == 'pick':
                c, _ = self.expr(env, depth + 1)
                a, ta = self.expr(env, depth + 1)
                b, tb = self.expr(env, depth + 1)
                return 'pick(%s, %s, %s)' % (c, a, b), set(ta) | set(tb)
            if f == 'tostr':
                a, _ = self.expr(env, depth + 1)
                return 'tostr(%s)' % a, {str}
            if f == 'length':
                a, ta = self.expr(env, depth + 1)
                if not ta or not all(isinstance(t, tuple) or t in (str, list) for t in ta):
                    return None
                return 'length(%s)' % a, {int}
            if f == 'mkpair':
                a, ta = self.expr(env, depth + 1)
                b, tb = self.expr(env, depth + 1)
                if len(ta) * len(tb) > 6:
                    return None
                return 'mkpair(%s, %s)' % (a, b), {(x, y) for x in ta for y in tb}
        if k == 'boolop':
            a, ta = self.expr(env, depth + 1)
            b, tb = self.expr(env, depth + 1)
            return '(%s %s %s)' % (a, r.choice(['and', 'or']), b), set(ta) | set(tb)
        if k == 'ifexp':
            c, _ = self.expr(env, depth + 1)
            a, ta = self.expr(env, depth + 1)
            b, tb = self.expr(env, depth + 1)
            return '(%s if %s else %s)' % (a, c, b), set(ta) | set(tb)
        return None

    @staticmethod
    def join(e1, e2):
        # only variables assigned on both sides stay readable (no unbound reads); tags are united
        out = {}
        for k in set(e1) & set(e2):
            out[k] = set(e1[k]) | set(e2[k])
        return out

    @staticmethod
    def widen(env, body):
        return {k: set(env[k]) | set(body.get(k, ())) for k in env}

    def block(self, ind, env, depth, infun, minlen=1):
        n = self.r.randint(minlen, 3 if depth else 5)
        for i in range(n):
            if self.budget <= 0 and i >= minlen:
                break
            env = self.stmt(ind, env, depth, infun)
        return env

    def stmt(self, ind, env, depth, infun):
        r = self.r
        self.budget -= 1
        kinds = ['assign'] * 6 + ['unpack'] * 2 + ['expr'] + ['chain'] * 3
        if depth < 2 and self.budget > 0:
            kinds += ['if'] * 3 + ['while'] + ['for']
        if depth == 0 and not infun and not self.inloop:
            kinds += ['loopmut', 'loopelse']
        if self.o.nested and not infun and depth == 0 and self.nfun < 2:
            kinds += ['def'] * 2 + ['condef'] * 2
        if self.funs and not infun:
            kinds += ['lcall'] * 3 + ['lcall2'] * 2
        if self.o.nested and not infun and depth == 0 and self.nsib < 3 and (self.funs or self.nfun < 2):
            kinds += ['sibdef'] * (6 if self.o.sibling else 1)
        if self.o.untyped:
            kinds += ['aug'] * 2
            if self.funs and not infun:
                kinds += ['alias']
        k = r.choice(kinds)
        if getattr(self, 'force', None):
            k = self.force.pop(0)
        env = dict(env)
        vars_ = INNER_VARS if infun else VARS
        if k == 'assign':
            v = r.choice(vars_)
            e, t = self.expr(env)
            self.emit(ind, '%s = %s' % (v, e))
            env[v] = t
            return env
        if k == 'chain':
            return self.chain(ind, env, vars_)
        if k == 'unpack' and not infun and r.random() < 0.3:
            vs = r.sample(vars_, 3)
            parts = [self.expr(env, 1) for _ in vs]
            self.emit(ind, '%s = %s' % (', '.join(vs), ', '.join(p[0] for p in parts)))
            for v, p in zip(vs, parts):
                env[v] = p[1]
            return env
        if k == 'unpack':
            v1, v2 = r.sample(vars_, 2)
            if r.random() < 0.6:
                e1, t1 = self.expr(env, 1)
                e2, t2 = self.expr(env, 1)
                self.emit(ind, '%s, %s = %s, %s' % (v1, v2, e1, e2))
            else:
                cands = [(n, s) for n, s in self.known(env) if s and all(isinstance(t, tuple) and len(t) == 2 for t in s)]
                if not cands:
                    e1, t1 = self.expr(env, 1)
                    e2, t2 = self.expr(env, 1)
                    self.emit(ind, '%s, %s = mkpair(%s, %s)' % (v1, v2, e1, e2))
                else:
                    n, s = r.choice(cands)
                    t1 = {t[0] for t in s}
                    t2 = {t[1] for t in s}
                    self.emit(ind, ('[%s, %s] = %s' if r.random() < 0.2 else '%s, %s = %s') % (v1, v2, n))
            env[v1] = t1
            env[v2] = t2
            return env
        if k == 'expr':
            e, _ = self.expr(env)
            self.emit(ind, e)
            return env
        if k == 'aug':
            cands = [n for n in vars_ if env.get(n) and env[n] <= {int, float, bool}]
            if not cands:
                self.emit(ind, self.const()[0])
                return env
            v = r.choice(cands)
            e = r.choice(['1', '0.5', 'True'])
            self.emit(ind, '%s += %s' % (v, e))
            env[v] = {int, float}
            return env
        if k == 'if':
            e, _ = self.expr(env, 1)
            self.emit(ind, 'if %s:' % e)
            e1 = self.block(ind + 1, env, depth + 1, infun)
            if r.random() < 0.6:
                self.emit(ind, 'else:')
                e2 = self.block(ind + 1, env, depth + 1, infun)
            else:
                e2 = env
            return self.join(e1, e2)
        if k == 'while':
            self.nloop += 1
            n = 'n%d' % self.nloop
            self.emit(ind, '%s = 0' % n)
            self.emit(ind, 'while %s < %d:' % (n, r.choice([1, 2, 3])))
            self.emit(ind + 1, '%s = %s + 1' % (n, n))
            env[n] = {int}
            # the body is generated against the join of the entry state and (an approximation of) its own result
            save = (list(self.lines), self.budget, self.nloop, self.nfun, r.getstate())
            self.inloop += 1
            e1 = self.block(ind + 1, env, depth + 1, infun)
            self.lines, self.budget, self.nloop, self.nfun = save[0], save[1], save[2], save[3]
            r.setstate(save[4])
            envj = self.widen(env, e1)
            e2 = self.block(ind + 1, envj, depth + 1, infun)
            self.inloop -= 1
            return self.widen(envj, e2)
        if k == 'for':
            self.nloop += 1
            q = ('q%d' % self.nloop) if not (self.o.untyped and r.random() < 0.5) else r.choice(vars_)
            items = [self.expr(env, 2) for _ in range(r.choice([0, 1, 2, 3]))]
            it = '(' + ''.join(i[0] + ', ' for i in items) + ')'
            self.emit(ind, 'for %s in %s:' % (q, it))
            tq = set()
            for i in items:
                tq |= i[1]
            envb = dict(env)
            envb[q] = tq
            save = (list(self.lines), self.budget, self.nloop, self.nfun, r.getstate())
            self.inloop += 1
            e1 = self.block(ind + 1, envb, depth + 1, infun)
            self.lines, self.budget, self.nloop, self.nfun = save[0], save[1], save[2], save[3]
            r.setstate(save[4])
            envj = self.widen(envb, e1)
            e2 = self.block(ind + 1, envj, depth + 1, infun)
            self.inloop -= 1
            res = self.widen(envj, e2)
            return {k: (set(env[k]) | res[k]) for k in env}
        if k == 'def':
            self.nfun += 1
            g = 'g%d' % self.nfun
            npar = r.choice([0, 1, 1])
            rebinds = []
            if self.o.untyped and r.random() < 0.6:
                rebinds = [r.choice(sorted(self.defined_outer & set(VARS)))]
            # the parameter often SHADOWS a variable of the enclosing function (its closure type must not leak onto it)
            pname = 'p'
            shadow = sorted(self.defined_outer - set(rebinds))
            if npar and shadow and r.random() < 0.6:
                pname = r.choice(shadow)
            self.emit(ind, 'def %s(%s):' % (g, pname if npar else ''))
            # inside, outer variables have whatever tags they have at the call sites: unknown to the generator,
            # so the body only uses them in operations that never raise
            for nl in rebinds:
                self.emit(ind + 1, 'nonlocal %s' % nl)
            self.gen_inner(ind + 1, g, npar, rebinds, pname)
            self.funs[g] = (npar, rebinds)
            env[g] = set()
            return env
        if k == 'condef':
            return self.condef(ind, env)
        if k == 'sibdef':
            return self.sibdef(ind, env)
        if k == 'loopmut':
            return self.loopmut(ind, env)
        if k == 'loopelse':
            return self.loopelse(ind, env)
        if k == 'lcall':
            g = r.choice(sorted(self.funs))
            npar, rebinds = self.funs[g]
            # a rebinding function needs its nonlocal variable to be a variable of f: it always is (VARS)
            arg = self.expr(env, 1)[0] if npar else ''
            if r.random() < 0.5:
                v = r.choice(vars_)
                self.emit(ind, '%s = %s(%s)' % (v, g, arg))
                env[v] = {typing.Any}
            else:
                self.emit(ind, '%s(%s)' % (g, arg))
            for nl in rebinds:
                env[nl] = {typing.Any}
            return env
        if k == 'lcall2':
            # two call sites of one local function with a captured variable re-bound in between
            g = r.choice(sorted(self.funs))
            npar, rebinds = self.funs[g]
            arg = self.expr(env, 1)[0] if npar else ''
            self.emit(ind, '%s(%s)' % (g, arg))
            v = r.choice(sorted(self.defined_outer & set(VARS)))
            e, t = self.expr(env)
            self.emit(ind, '%s = %s' % (v, e))
            env[v] = t
            self.emit(ind, '%s(%s)' % (g, arg))
            for nl in rebinds:
                env[nl] = {typing.Any}
            return env
        if k == 'alias':
            g = r.choice(sorted(self.funs))
            npar, rebinds = self.funs[g]
            if npar:
                self.emit(ind, self.const()[0])
                return env
            self.emit(ind, 'h = %s' % g)
            e, t = self.expr(env)
            v = r.choice(VARS)
            self.emit(ind, '%s = %s' % (v, e))
            env[v] = t
            self.emit(ind, 'h()')
            for nl in rebinds:
                env[nl] = {typing.Any}
            return env
        return env

    def loopmut(self, ind, env):
        """x bound before a loop; inside the loop a branching node WITHOUT else (if / inner for / inner while)
        whose body re-binds x with another type computed from x; x is read after the branch (next iteration:
        the changed type must have travelled around the back edge and through the join)."""
        r = self.r
        env = dict(env)
        x, y = r.sample(VARS, 2)
        init, t0 = r.choice([('1', int), ('5', int), ('G_INT', int), ('True', bool), ('0.5', float)])
        self.emit(ind, '%s = %s' % (x, init))
        self.nloop += 1
        n = 'n%d' % self.nloop
        trips = r.choice([2, 3])
        if r.random() < 0.6:
            self.emit(ind, '%s = 0' % n)
            self.emit(ind, 'while %s < %d:' % (n, trips))
            self.emit(ind + 1, '%s = %s + 1' % (n, n))
            env[n] = {int}
        else:
            self.emit(ind, 'for %s in (%s):' % (n, ', '.join(['1', '2', '3'][:trips]) + ','))
        steps = [('(%s * 0.5)', float), ('tostr(%s)', str), ('(%s == 0)', bool), ('(%s, G_STR)[1]', str),
                 ('pick(%s, G_STR, G_FLT)', None)]
        if t0 is float:
            steps = steps[1:]
        form, t1 = r.choice(steps)
        before = r.random() < 0.4
        if before:
            self.emit(ind + 1, '%s = %s' % (y, x))
        c = r.random()
        if c < 0.5:
            self.emit(ind + 1, 'if %s:' % r.choice(['True', 'a', 'G_INT', '(%s == %s)' % (n, n), '(b, c)']))
        elif c < 0.8:
            self.nloop += 1
            self.emit(ind + 1, 'for q%d in (1,):' % self.nloop)
        else:
            self.nloop += 1
            m = 'n%d' % self.nloop
            self.emit(ind + 1, '%s = 0' % m)
            self.emit(ind + 1, 'while %s < 1:' % m)
            self.emit(ind + 2, '%s = %s + 1' % (m, m))
        self.emit(ind + 2, '%s = %s' % (x, form % x))
        if not before or r.random() < 0.5:
            self.emit(ind + 1, '%s = %s' % (y, x))
        if r.random() < 0.5:
            self.emit(ind + 1, '(%s, %s)' % (x, y))
        ts = {t0, str, float, bool} if t1 is None else ({t0, t1} if t1 is not str or 'tostr' in form or True else {t0, t1})
        env[x] = set(ts) | {str}
        env[y] = set(env[x])
        return env

    def loopelse(self, ind, env):
        """Loops nested 2-3 deep; inner loops carry an `else:` clause that re-types a variable and then leaves
        (break) or continues the ENCLOSING loop; the variable is re-assigned on the fall-through path and read
        after the loops.  (A jump in a loop's else clause belongs to the enclosing loop.)"""
        r = self.r
        env = dict(env)
        x, y = r.sample(VARS, 2)
        vals = [('1', int), ('0.5', float), ("'s'", str), ('True', bool), ('G_TUP', (int, str)), ('[]', list)]
        r.shuffle(vals)
        used = set()

        def setx(ind2):
            v, t = vals[len(used) % len(vals)]
            used.add(t)
            self.emit(ind2, '%s = %s' % (x, v))

        def head(ind2, trips):
            self.nloop += 1
            n = 'n%d' % self.nloop
            if r.random() < 0.5:
                self.emit(ind2, 'for %s in (%s):' % (n, ''.join('%d, ' % i for i in range(trips))))
            else:
                self.emit(ind2, '%s = 0' % n)
                self.emit(ind2, 'while %s < %d:' % (n, trips))
                self.emit(ind2 + 1, '%s = %s + 1' % (n, n))

        def inner(ind2, level):
            # an inner loop with an else clause that jumps in the enclosing loop
            head(ind2, r.choice([0, 1, 2]))
            if level < 3 and r.random() < 0.35:
                inner(ind2 + 1, level + 1)
            else:
                self.emit(ind2 + 1, '%s = %s' % (y, x))
            if r.random() < 0.25:
                self.emit(ind2 + 1, 'if %s:' % r.choice(['a', 'b', 'False']))
                setx(ind2 + 2)
                self.emit(ind2 + 2, 'break')
            self.emit(ind2, 'else:')
            setx(ind2 + 1)
            self.emit(ind2 + 1, r.choice(['break', 'break', 'continue']))

        setx(ind)
        self.emit(ind, '%s = %s' % (y, x))
        head(ind, r.choice([1, 2, 3]))
        if r.random() < 0.5:
            setx(ind + 1)
        inner(ind + 1, 2)
        setx(ind + 1)                    # fall-through path
        if r.random() < 0.5:
            self.emit(ind + 1, '%s = %s' % (y, x))
        if r.random() < 0.3:
            self.emit(ind, 'else:')
            setx(ind + 1)
        self.emit(ind, '%s = %s' % (y, x))
        self.emit(ind, '(%s, %s)' % (x, y))
        env[x] = set(used)
        env[y] = set(used)
        return env

    def sibdef(self, ind, env):
        """A local function h whose body CALLS another local function g of the same scope -- directly or from a
        function nested in h -- and mentions only a random (often empty) subset of the variables g captures: the
        types of the other captured variables reach g only through the entry state of h.  g is an existing local
        function (possibly itself such an intermediary: chains) or a new one that is defined right AFTER h
        (forward reference, legal as long as h runs later).  Then: h(), a captured variable re-bound with another
        type, h() again, with direct calls of g in between on some programs."""
        r = self.r
        env = dict(env)
        self.nsib += 1
        forward = not self.funs or (self.nfun < 2 and r.random() < 0.25)
        callee_lines = []
        if forward:
            start = len(self.lines)
            self.force = ['def']
            env = self.stmt(ind, env, 0, False)
            g = 'g%d' % self.nfun
            callee_lines = self.lines[start:]
            del self.lines[start:]
            if r.random() < 0.5:
                # (the usual order after all: h after g)
                self.lines += callee_lines
                callee_lines = []
        else:
            g = r.choice(sorted(self.funs))
        npar, rebinds = self.funs[g]
        self.nfun += 1
        h = 'g%d' % self.nfun
        outer = sorted(self.defined_outer & set(VARS + PARAMS))
        mention = [v for v in outer if r.random() < 0.2] if r.random() < 0.5 else []

        def atom():
            pool = mention + ['0', "'s'", '2.0', 'True']
            return r.choice(pool)

        arg = atom() if npar else ''
        self.emit(ind, 'def %s():' % h)
        for v in mention:
            if r.random() < 0.6:
                self.emit(ind + 1, 'u = %s' % r.choice(['%s', '(%s, 0)', 'tostr(%s)', 'ident(%s)']) % v)
        if r.random() < 0.35:
            self.nfun2 = getattr(self, 'nfun2', 0) + 1
            k = 'k%d' % self.nfun2
            self.emit(ind + 1, 'def %s():' % k)
            self.emit(ind + 2, 'return %s(%s)' % (g, arg))
            self.emit(ind + 1, r.choice(['return %s()', 'v = %s()\n' + '    ' * (ind + 1) + 'return (v, 1)']) % k)
        else:
            self.emit(ind + 1, r.choice(['return %s(%s)', 'v = %s(%s)\n' + '    ' * (ind + 1) + 'return (v, 1)']) % (g, arg))
        self.lines += callee_lines
        self.funs[h] = (0, list(rebinds))
        env[h] = set()
        vs = sorted(self.defined_outer & set(VARS))
        for i in range(r.choice([2, 2, 3])):
            c = r.random()
            callee, a = (h, '') if c < 0.7 else (g, self.expr(env, 1)[0] if npar else '')
            if r.random() < 0.5:
                self.emit(ind, '%s(%s)' % (callee, a))
            else:
                v = r.choice(VARS)
                self.emit(ind, '%s = %s(%s)' % (v, callee, a))
                env[v] = {typing.Any}
            for nl in rebinds:
                env[nl] = {typing.Any}
            v = r.choice(vs)
            e, t = self.expr(env)
            self.emit(ind, '%s = %s' % (v, e))
            env[v] = t
        self.emit(ind, '%s()' % h)
        for nl in rebinds:
            env[nl] = {typing.Any}
        return env

    def emit_def(self, ind, g, npar, rebinds, pname):
        self.emit(ind, 'def %s(%s):' % (g, pname if npar else ''))
        for nl in rebinds:
            self.emit(ind + 1, 'nonlocal %s' % nl)
        self.gen_inner(ind + 1, g, npar, rebinds, pname)

    def condef(self, ind, env):
        """A local function defined on several control paths of unequal length (both arms of an if with the def
        LAST in the longer arm, the end of a loop body, a try body and its handler), called where the paths
        join and again later, with captured (and nonlocal) variables re-bound to another type in between."""
        r = self.r
        self.nfun += 1
        g = 'g%d' % self.nfun
        npar = r.choice([0, 0, 1])
        rebinds = []
        if self.o.untyped and r.random() < 0.4:
            rebinds = [r.choice(sorted(self.defined_outer & set(VARS)))]
        pname = 'p'
        shadow = sorted(self.defined_outer - set(rebinds))
        if npar and shadow and r.random() < 0.4:
            pname = r.choice(shadow)
        form = r.choice(['if', 'if', 'if', 'for', 'while', 'try'])

        def some(ind2, env2, n):
            for _ in range(n):
                self.force = ['assign']
                env2 = self.stmt(ind2, env2, 1, False)
            return env2

        if form == 'if':
            test = r.choice(['a', 'b', 'c', 'True', 'False', self.expr(env, 1)[0]])
            self.emit(ind, 'if %s:' % test)
            nlong = r.choice([1, 2, 3])
            long_first = r.random() < 0.6
            e1 = some(ind + 1, env, nlong if long_first else 0)
            self.emit_def(ind + 1, g, npar, rebinds, pname)
            self.emit(ind, 'else:')
            e2 = some(ind + 1, env, 0 if long_first else nlong)
            self.emit_def(ind + 1, g, npar, rebinds, pname)
            env = self.join(e1, e2)
        elif form in ('for', 'while'):
            self.nloop += 1
            self.inloop += 1
            if form == 'for':
                self.emit(ind, 'for q%d in (1, 2):' % self.nloop)
            else:
                n = 'n%d' % self.nloop
                self.emit(ind, '%s = 0' % n)
                self.emit(ind, 'while %s < 2:' % n)
                self.emit(ind + 1, '%s = %s + 1' % (n, n))
            e1 = some(ind + 1, env, r.choice([0, 1, 2]))
            self.emit_def(ind + 1, g, npar, rebinds, pname)
            self.inloop -= 1
            env = self.widen(env, e1)
        else:
            self.emit(ind, 'try:')
            e1 = some(ind + 1, env, r.choice([1, 2]))
            self.emit_def(ind + 1, g, npar, rebinds, pname)
            self.emit(ind, 'except ValueError:')
            self.emit_def(ind + 1, g, npar, rebinds, pname)
            env = self.join(e1, env)
        env = dict(env)
        self.funs[g] = (npar, rebinds)
        env[g] = set()
        # call at the join, re-type a captured variable, (another statement,) call again
        for i in range(r.choice([2, 2, 3])):
            arg = self.expr(env, 1)[0] if npar else ''
            if r.random() < 0.5:
                self.emit(ind, '%s(%s)' % (g, arg))
            else:
                v = r.choice(VARS)
                self.emit(ind, '%s = %s(%s)' % (v, g, arg))
                env[v] = {typing.Any}
            for nl in rebinds:
                env[nl] = {typing.Any}
            v = r.choice(sorted(self.defined_outer & set(VARS)))
            e, t = self.expr(env)
            self.emit(ind, '%s = %s' % (v, e))
            env[v] = t
            if r.random() < 0.4:
                self.emit(ind, self.expr(env, 1)[0])
        return env

    def chain(self, ind, env, vars_):
        """Chained / multi-target assignment `t1 = t2 = ... = rhs` with every kind of target in every order:
        plain names, tuple and list unpacking, nested unpacking, attribute and subscript stores and (untyped
        stream: known finding) starred targets.  The right-hand side is a syntactic tuple (or a name known to hold
        2-tuples) so that every unpacking target fits."""
        r = self.r
        penv = {n: s for n, s in env.items() if n in PARAMS} if self.inloop else env
        n = r.choice([2, 2, 3])
        parts = []
        for i in range(n):
            if r.random() < 0.3:
                a, b = self.expr(penv, 2), self.expr(penv, 2)
                if len(a[1]) * len(b[1]) <= 4:
                    parts.append(('(%s, %s)' % (a[0], b[0]), {(x, y) for x in a[1] for y in b[1]}, (a[1], b[1])))
                    continue
            e = self.expr(penv, 1)
            parts.append((e[0], e[1], None))
        whole = set(itertools.product(*[sorted(p[1], key=tname) for p in parts]))
        if len(whole) > 8:
            parts = [(c[0], c[1], None) for c in (self.const() for _ in range(n))]
            whole = set(itertools.product(*[sorted(p[1], key=tname) for p in parts]))
        rhs = '(' + ', '.join(p[0] for p in parts) + ')'
        cands = [(nm, st) for nm, st in self.known(env)
                 if st and all(isinstance(t, tuple) and len(t) == 2 for t in st) and len(st) <= 4]
        if cands and r.random() < 0.25:
            nm, st = r.choice(cands)
            rhs, whole, n = nm, set(st), 2
            parts = [(None, {t[0] for t in st}, None), (None, {t[1] for t in st}, None)]
        ntargets = r.choice([2, 2, 3])
        forms = ['name', 'name', 'unpack', 'unpack', 'lunpack', 'nested', 'attr', 'sub']
        if self.o.untyped:
            forms += ['star']
        targets = []
        binds = []      # (name, tags) in assignment order
        for _ in range(ntargets):
            f = r.choice(forms)
            if f == 'nested' and not any(p[2] for p in parts):
                f = 'unpack'
            if f == 'name':
                v = r.choice(vars_)
                targets.append(v)
                binds.append((v, whole))
            elif f in ('unpack', 'lunpack'):
                vs = [r.choice(vars_) for _ in range(n)]
                targets.append(('[%s]' if f == 'lunpack' else '%s') % ', '.join(vs) if n > 1 or f == 'lunpack'
                               else '%s,' % vs[0])
                binds += [(v, p[1]) for v, p in zip(vs, parts)]
            elif f == 'nested':
                elts = []
                for p in parts:
                    if p[2] and r.random() < 0.7:
                        v1, v2 = r.choice(vars_), r.choice(vars_)
                        elts.append(('(%s, %s)' if r.random() < 0.5 else '[%s, %s]') % (v1, v2))
                        binds += [(v1, p[2][0]), (v2, p[2][1])]
                    else:
                        v = r.choice(vars_)
                        elts.append(v)
                        binds.append((v, p[1]))
                targets.append(', '.join(elts))
            elif f == 'star':
                vs = [r.choice(vars_) for _ in range(2)]
                targets.append('%s, *%s' % (vs[0], vs[1]) if r.random() < 0.5 else '*%s, %s' % (vs[0], vs[1]))
                if targets[-1].startswith('*'):
                    binds += [(vs[0], {list}), (vs[1], parts[-1][1])]
                else:
                    binds += [(vs[0], parts[0][1]), (vs[1], {list})]
            elif f == 'attr':
                targets.append('G_OBJ.v')
            else:
                targets.append('G_LST[%d]' % r.randrange(3))
        self.emit(ind, ' = '.join(targets + [rhs]))
        env = dict(env)
        for v, t in binds:
            env[v] = set(t)
        return env

    def gen_inner(self, ind, g, npar, rebinds, pname='p'):
        """Body of a local function: reads captured variables only in positions that never raise
        (tuple building, tostr, ident, ==), binds its own locals u, v."""
        r = self.r
        outer = VARS + PARAMS
        nst = r.randint(1, 3)
        local = {}
        if npar:
            local[pname] = {typing.Any}

        def safe(depth=0):
            c = r.random()
            pool = sorted(local) + [n for n in outer if n in self.defined_outer]
            if c < 0.35 and pool:
                return r.choice(pool)
            if c < 0.5 or depth >= 2 or not pool:
                return self.const()[0]
            if c < 0.7:
                return '(%s, %s)' % (safe(depth + 1), safe(depth + 1))
            if c < 0.8:
                return 'tostr(%s)' % safe(depth + 1)
            if c < 0.9:
                return '(%s == %s)' % (safe(depth + 1), safe(depth + 1))
            return 'ident(%s)' % safe(depth + 1)

        if npar and r.random() < 0.5:
            # the parameter flows into an assignment, a tuple and an unpacking
            self.emit(ind, 'u = %s' % pname)
            self.emit(ind, 'u, v = (%s, %s)' % (pname, safe()))
            local['u'] = local['v'] = {typing.Any}
        if npar and self.o.untyped and r.random() < 0.3:
            self.emit(ind, 'if %s:' % safe())
            self.emit(ind + 1, '%s = %s' % (pname, self.const()[0]))
        if r.random() < 0.3:
            # a second level of nesting whose parameter shadows a variable of g or of f
            self.nfun2 = getattr(self, 'nfun2', 0) + 1
            k = 'k%d' % self.nfun2
            cands = sorted(set(local) | (self.defined_outer - set(rebinds)))
            q = r.choice(cands) if cands and r.random() < 0.7 else 'q'
            self.emit(ind, 'def %s(%s):' % (k, q))
            saved = dict(local)
            local[q] = {typing.Any}
            self.emit(ind + 1, 'return (%s, %s)' % (q, safe()))
            local.clear()
            local.update(saved)
            self.emit(ind, 'v = %s(%s)' % (k, safe()))
            local['v'] = {typing.Any}
        for _ in range(nst):
            c = r.random()
            if c < 0.6:
                v = r.choice(INNER_VARS)
                self.emit(ind, '%s = %s' % (v, safe()))
                local[v] = {typing.Any}
            elif c < 0.8:
                self.emit(ind, 'if %s:' % safe())
                v = r.choice(INNER_VARS)
                self.emit(ind + 1, '%s = %s' % (v, safe()))
            else:
                self.emit(ind, safe())
        for nl in rebinds:
            if r.random() < 0.4:
                # conditional re-binding of a nonlocal, read afterwards
                self.emit(ind, 'if %s:' % safe())
                self.emit(ind + 1, '%s = %s' % (nl, safe()))
                self.emit(ind, 'v = %s' % nl)
                local['v'] = {typing.Any}
            else:
                self.emit(ind, '%s = %s' % (nl, safe()))
        self.emit(ind, 'return %s' % safe())

    def shift_function(self):
        """A tiny function (few CFG nodes) whose loop needs many passes: ONE tuple assignment shifts / rotates the
        types of k variables by one position per iteration, so the loop head changes k times; the first
        variable is read in the loop, after it and (optionally) inside a local function called there.
        Two or three distinct tags only: visit_Tuple builds the product of the element sets."""
        r = self.r
        k = r.choice([5, 6, 7, 8])
        pool = r.sample([('1', '0'), ('0.5', '2.0'), ("'s'", "'tt'"), ('True', 'False')], 3 if k == 5 else 2)
        names = ['s%d' % i for i in range(1, k + 1)]
        self.emit(0, 'def f(a, b, c):')
        # the first variables share one tag, the other tags sit at the far end
        init = [pool[0][i % 2] for i in range(k - 1)] + [pool[1][0]]
        if len(pool) == 3:
            init[k - 2] = pool[2][0]
        self.emit(1, '%s = %s' % (', '.join(names), ', '.join(init)))
        local_fn = r.random() < 0.4
        if local_fn:
            self.emit(1, 'def g1():')
            self.emit(2, 'return (%s, 0)' % names[0])
        trips = k + r.choice([1, 2, 4])
        last = r.choice([names[0], pool[1][1], pool[-1][0]])       # rotation or shift-in of a constant
        stmt = '%s = %s' % (', '.join(names), ', '.join(names[1:] + [last]))
        if r.random() < 0.5:
            self.emit(1, 'for n1 in (%s):' % ''.join('%d, ' % i for i in range(trips)))
        else:
            stmt = 'n1, ' + stmt.replace(' = ', ' = (n1 + 1), ', 1)
            self.emit(1, 'n1 = 0')
            self.emit(1, 'while n1 < %d:' % trips)
        c = r.random()
        if c < 0.3:
            self.emit(2, 'x = %s' % names[0])
        self.emit(2, stmt)
        if local_fn and r.random() < 0.5:
            self.emit(2, 'g1()')
        if local_fn:
            self.emit(1, 'y = g1()')
        self.emit(1, 'return (%s, %s)' % (names[0], names[1]))
        return '\n'.join(self.lines) + '\n'

    def function(self):
        if self.o.shift:
            return self.shift_function()
        self.funs = {}
        self.nsib = 0
        self.defined_outer = set(PARAMS)
        self.emit(0, 'def f(a, b, c):')
        env = dict(self.env0)
        # make sure captured variables exist before any local function is defined
        for v in VARS[:self.r.choice([1, 2, 3])]:
            e, t = self.expr(env)
            self.emit(1, '%s = %s' % (v, e))
            env[v] = t
            self.defined_outer.add(v)
        if self.o.loopmut:
            self.force = ['loopmut']
            env = self.stmt(1, env, 0, False)
        if self.o.loopelse:
            self.force = ['loopelse']
            env = self.stmt(1, env, 0, False)
        if self.o.nested and self.r.random() < 0.8:
            # a local function, called right away and again later, in most programs of the nested streams
            if self.o.sibling and self.r.random() < 0.3:
                self.force = ['sibdef']
                env = self.stmt(1, env, 0, False)
            elif self.r.random() < 0.4:
                self.force = ['condef']
                env = self.stmt(1, env, 0, False)
            else:
                self.force = ['def', 'lcall']
                env = self.stmt(1, env, 0, False)
                env = self.stmt(1, env, 0, False)
        if self.o.sibling and self.nsib == 0:
            self.force = ['sibdef']
            env = self.stmt(1, env, 0, False)
        env = self.block(1, env, 0, False, minlen=2)
        rets = [n for n, s in sorted(env.items()) if s and n in VARS + PARAMS]
        self.emit(1, 'return (%s,)' % ', '.join(self.r.sample(rets, min(len(rets), 3))))
        return '\n'.join(self.lines) + '\n'


ARG_POOL = [1, 2.5, 'q', True, (1, 'a'), (2.5, 2), [1, 2]]


def gen_case(rnd, opts):
    """-> (source, list of argument vectors); all vectors have the same tags position-wise or differ
    (then the resolver answers the union)."""
    nvec = rnd.choice([1, 2, 3])
    first = [rnd.choice(ARG_POOL) for _ in PARAMS]
    vecs = [first]
    for _ in range(nvec - 1):
        v = list(first)
        # same tags, other values / truthiness, so that the generator's static tags remain valid
        for i, x in enumerate(v):
            if type(x) is int:
                v[i] = rnd.choice([0, 4])
            elif type(x) is bool:
                v[i] = not x
            elif type(x) is float:
                v[i] = rnd.choice([0.0, 3.5])
            elif type(x) is str:
                v[i] = rnd.choice(['', 'zz'])
        vecs.append(v)
    g = Gen(rnd, opts, [typeof(x) for x in first])
    return g.function(), vecs


# --------------------------------------------------------------------------------------------
# scopes (who owns a name), node numbering, instrumentation

class Prog(object):
    """Parsed program: tree (analysed by malt), a second identical tree that is instrumented and run,
    node numbering shared by both, owner function of every name."""

    def __init__(self, src):
        self.src = src
        self.tree = ast.parse(src)
        self.itree = ast.parse(src)
        self.nodes = list(ast.walk(self.tree))
        self.inodes = list(ast.walk(self.itree))
        assert len(self.nodes) == len(self.inodes)
        self.num = {id(n): i for i, n in enumerate(self.nodes)}
        self.inum = {id(n): i for i, n in enumerate(self.inodes)}
        self.fn = self.tree.body[0]
        self.funs = [n for n in self.nodes if isinstance(n, ast.FunctionDef)]
        self.parent_fun = {}
        self.locals_of = {}
        for f in self.funs:
            self._scan(f)
        self.index_functions()

    def _scan(self, f):
        loc = set(a.arg for a in f.args.args)
        nonloc = set()
        todo = list(f.body)
        members = []
        while todo:
            n = todo.pop()
            members.append(n)
            if isinstance(n, ast.FunctionDef):
                loc.add(n.name)
                self.parent_fun[id(n)] = f
                continue
            if isinstance(n, ast.Nonlocal):
                nonloc |= set(n.names)
            if isinstance(n, ast.Name) and isinstance(n.ctx, (ast.Store, ast.Del)):
                loc.add(n.id)
            todo.extend(ast.iter_child_nodes(n))
        self.locals_of[id(f)] = loc - nonloc
        f._members = members

    def owner(self, f, name):
        """Name of the function whose variable `name` denotes when used inside function f (None: global)."""
        while f is not None:
            if name in self.locals_of[id(f)]:
                return f.name
            f = self.parent_fun.get(id(f))
        return None

    def fun_of(self, node_index):
        """innermost FunctionDef containing node (by index)"""
        return self._fun_of[node_index]

    def index_functions(self):
        self._fun_of = {}

        def rec(n, f):
            self._fun_of[self.num[id(n)]] = f
            for c in ast.iter_child_nodes(n):
                rec(c, n if isinstance(n, ast.FunctionDef) else f)
        rec(self.tree, None)


class Recorder(object):
    """Receives the events of one instrumented run."""

    def __init__(self, prog):
        self.prog = prog
        self.events = []       # ('E', node, value-tag, value, writer) / ('B', node, name, value, ...) / ('C', fun, name, value|UNBOUND, writer)
        self.writer = {}       # (owner function, name) -> (binding construct, binding occurrence, activation of the writing function)
        self.calls = {}        # function name -> number of activations so far
        self.limit = 4000

    def E(self, k, owner, name, v):
        if len(self.events) < self.limit:
            rf = self.prog.fun_of(k)
            self.events.append(('E', k, v, self.writer.get((owner, name)) if name else None,
                                self.calls.get(rf.name, 0) if rf is not None else 0))
        return v

    def B(self, k, binds):
        # binds: list of (store-node index, owner, name, value)
        if isinstance(self.prog.nodes[k], ast.arguments):
            fname = self.prog.fun_of(k).name
            self.calls[fname] = self.calls.get(fname, 0) + 1
        for (sk, owner, name, v) in binds:
            wf = self.prog.fun_of(sk)
            w = (k, sk, self.calls.get(wf.name, 0) if wf is not None else 0)
            self.writer[(owner, name)] = w
            if len(self.events) < self.limit:
                self.events.append(('B', sk, v, w))
        self.events.append(('BE', k))

    def C(self, fk, caps):
        for (owner, name, thunk) in caps:
            try:
                v = thunk()
            except NameError:
                continue
            if len(self.events) < self.limit:
                self.events.append(('C', fk, name, v, self.writer.get((owner, name))))


class Instrumenter(ast.NodeTransformer):
    """Rewrites the second tree: every Load expression e -> __E(k, owner, name, e); after every binding
    statement a __B(...) call; at every function entry __B for the parameters and __C for the captured
    variables."""

    def __init__(self, prog):
        self.p = prog
        self.fstack = []

    def k(self, inode):
        return self.p.inum[id(inode)]

    def cur(self):
        return self.p.nodes[self.k(self.fstack[-1])]    # the analysed twin of the current function

    def wrap(self, node, new):
        name = node.id if isinstance(node, ast.Name) else None
        owner = self.p.owner(self.cur(), name) if name else None
        call = ast.Call(func=ast.Name(id='__E', ctx=ast.Load()),
                        args=[ast.Constant(self.k(node)), ast.Constant(owner), ast.Constant(name), new], keywords=[])
        return ast.copy_location(call, node)

    def visit_expr_node(self, node):
        if isinstance(getattr(node, 'ctx', None), (ast.Store, ast.Del)):
            return node
        new = self.generic_visit(node)
        return self.wrap(node, new)

    visit_Name = visit_Constant = visit_Tuple = visit_List = visit_BinOp = visit_Compare = visit_UnaryOp = \
        visit_Subscript = visit_Call = visit_BoolOp = visit_IfExp = visit_expr_node

    def bind_call(self, stmt_k, stores):
        # a name bound several times by one statement holds the value of its LAST binding occurrence
        last = {}
        for t in stores:
            last[t.id] = t
        stores = [t for t in stores if last[t.id] is t]
        elts = []
        for t in stores:
            owner = self.p.owner(self.cur(), t.id)
            elts.append(ast.Tuple(elts=[ast.Constant(self.k(t)), ast.Constant(owner), ast.Constant(t.id),
                                        ast.Name(id=t.id, ctx=ast.Load())], ctx=ast.Load()))
        return ast.Expr(ast.Call(func=ast.Name(id='__B', ctx=ast.Load()),
                                 args=[ast.Constant(stmt_k), ast.List(elts=elts, ctx=ast.Load())], keywords=[]))

    @staticmethod
    def stores(target):
        # binding occurrences in execution order (depth first, left to right)
        out = []

        def rec(n):
            if isinstance(n, ast.Name) and isinstance(n.ctx, ast.Store):
                out.append(n)
            for c in ast.iter_child_nodes(n):
                rec(c)
        rec(target)
        return out

    def visit_Assign(self, node):
        k = self.k(node)
        st = []
        for t in node.targets:
            st += self.stores(t)
        node.value = self.visit(node.value)
        return [node, self.bind_call(k, st)]

    def visit_AugAssign(self, node):
        k = self.k(node)
        st = self.stores(node.target)
        node.value = self.visit(node.value)
        return [node, self.bind_call(k, st)]

    def visit_For(self, node):
        k = self.k(node.iter)
        st = self.stores(node.target)
        node.iter = self.visit(node.iter)
        node.body = [self.bind_call(k, st)] + self.block(node.body)
        node.orelse = self.block(node.orelse)
        return node

    def block(self, stmts):
        out = []
        for s in stmts:
            r = self.visit(s)
            out.extend(r if isinstance(r, list) else [r])
        return out

    def visit_If(self, node):
        node.test = self.visit(node.test)
        node.body = self.block(node.body)
        node.orelse = self.block(node.orelse)
        return node

    visit_While = visit_If

    def visit_FunctionDef(self, node):
        k = self.k(node)
        outer = self.fstack[-1] if self.fstack else None
        self.fstack.append(node)
        twin = self.cur()
        head = [s for s in node.body if isinstance(s, (ast.Nonlocal, ast.Global))]
        rest = [s for s in node.body if not isinstance(s, (ast.Nonlocal, ast.Global))]
        # parameters
        elts = []
        for a in node.args.args:
            elts.append(ast.Tuple(elts=[ast.Constant(self.k(a)), ast.Constant(node.name), ast.Constant(a.arg),
                                        ast.Name(id=a.arg, ctx=ast.Load())], ctx=ast.Load()))
        pre = [ast.Expr(ast.Call(func=ast.Name(id='__B', ctx=ast.Load()),
                                 args=[ast.Constant(self.k(node.args)), ast.List(elts=elts, ctx=ast.Load())], keywords=[]))]
        # captured variables: free names of this function (and of functions nested in it) owned by an enclosing function
        caps = []
        names = sorted(set(n.id for n in ast.walk(node) if isinstance(n, ast.Name)) |
                       set(x for n in ast.walk(node) if isinstance(n, ast.Nonlocal) for x in n.names))
        for nm in names:
            ow = self.p.owner(twin, nm)
            if ow is not None and ow != node.name:
                lam = ast.Lambda(args=ast.arguments(posonlyargs=[], args=[], kwonlyargs=[], kw_defaults=[], defaults=[]),
                                 body=ast.Name(id=nm, ctx=ast.Load()))
                caps.append(ast.Tuple(elts=[ast.Constant(ow), ast.Constant(nm), lam], ctx=ast.Load()))
        if caps:
            pre.append(ast.Expr(ast.Call(func=ast.Name(id='__C', ctx=ast.Load()),
                                         args=[ast.Constant(k), ast.List(elts=caps, ctx=ast.Load())], keywords=[])))
        node.body = head + pre + self.block(rest)
        self.fstack.pop()
        if outer is None:
            return node
        # the def statement binds its name in the enclosing function
        self.fstack_owner = None
        bind = ast.Expr(ast.Call(
            func=ast.Name(id='__B', ctx=ast.Load()),
            args=[ast.Constant(k), ast.List(elts=[ast.Tuple(elts=[
                ast.Constant(k), ast.Constant(self.p.owner(self.p.nodes[self.k(outer)], node.name)),
                ast.Constant(node.name), ast.Name(id=node.name, ctx=ast.Load())], ctx=ast.Load())], ctx=ast.Load())],
            keywords=[]))
        return [node, bind]

    def visit_Return(self, node):
        if node.value is not None:
            node.value = self.visit(node.value)
        return node

    def visit_Expr(self, node):
        node.value = self.visit(node.value)
        return node


def instrument_and_run(prog, argvecs):
    """Runs the instrumented twin once per argument vector; -> list of (Recorder, outcome)."""
    if not hasattr(prog, 'code'):
        it = Instrumenter(prog)
        fn = prog.itree.body[0]
        new = it.visit(fn)
        prog.itree.body[0] = new
        ast.fix_missing_locations(prog.itree)
        prog.code = compile(prog.itree, '<c19>', 'exec')
    runs = []
    for vec in argvecs:
        rec = Recorder(prog)
        glb = namespace()
        glb.update({'__E': rec.E, '__B': rec.B, '__C': rec.C})
        exec(prog.code, glb)
        try:
            import copy
            res = ('return', glb['f'](*copy.deepcopy(list(vec))))
        except Exception as e:   # noqa
            res = ('raise', type(e).__name__ + ': ' + str(e))
        runs.append((rec, res))
    return runs


# --------------------------------------------------------------------------------------------
# the scripted, truthful resolver

def make_resolver(prog, runs, decline=None, log=None, local_args_unknown=False):
    """Resolver whose answers are true of the given runs: observed tags (for arguments and call
    results) and type-level evaluation of operators/external functions over the operand tags.
    `decline(kind)` may make it answer None ('unknown') -- still truthful.  `log` collects every
    query with its answer (the table the Coq model is run against)."""
    from malt.pyct import anno
    from malt.pyct.static_analysis import type_inference

    obs_call = {}     # node index -> set of tags observed as value of that expression
    obs_par = {}      # (function name, param) -> set of tags
    for rec, _ in runs:
        for ev in rec.events:
            if ev[0] == 'E':
                obs_call.setdefault(ev[1], set()).add(typeof(ev[2]))
            elif ev[0] == 'B':
                n = prog.nodes[ev[1]]
                if isinstance(n, ast.arg):
                    f = prog.fun_of(ev[1])
                    obs_par.setdefault((f.name, n.arg), set()).add(typeof(ev[2]))
    ns_vals = namespace()

    def dec(kind):
        return decline is not None and decline(kind)

    def record(kind, key, ans):
        if log is not None:
            log.append((kind, key, ans))
        return ans

    class R(type_inference.Resolver):
        def res_name(self, ns, types_ns, name):
            s = str(name)
            if s in ns_vals and not dec('name'):
                return record('name', s, {typeof(ns_vals[s])}), ns_vals[s]
            return record('name', s, None), None

        def res_value(self, ns, value):
            return record('value', value, {typeof(value)})

        def res_arg(self, ns, types_ns, f_name, name, type_anno, f_is_local):
            t = obs_par.get((f_name, str(name)))
            if not t or dec('arg') or (f_is_local and local_args_unknown):
                return record('arg', (f_name, str(name)), None)
            return record('arg', (f_name, str(name)), set(t))

        def res_call(self, ns, types_ns, node, f_type, args, keywords):
            k = prog.num[id(node)]
            fname = node.func.id if isinstance(node.func, ast.Name) else None
            ans = None
            if not dec('call'):
                fn = ns_vals.get(fname)
                ans = set(obs_call.get(k, ()))
                if fn is not None and all(a is not None for a in args) and not node.keywords:
                    ev = lift(fn, args)
                    if ev is not None:
                        ans |= ev
                if not ans:
                    ans = None
            record('call', (k, fname, tuple(frozenset(a) if a is not None else None for a in args)), ans)
            return ans, None

        def res_slice(self, ns, types_ns, node_or_slice, value, slice_):
            if dec('slice'):
                return record('slice', None, None)
            if isinstance(node_or_slice, int):
                idx = node_or_slice
                key = ('unpack', idx)
            else:
                sl = node_or_slice.slice
                idx = sl.value if isinstance(sl, ast.Constant) and type(sl.value) is int else None
                key = (prog.num[id(node_or_slice)], idx)
            out = set()
            for t in value:
                if t is typing.Any:
                    out = {typing.Any}
                    break
                if isinstance(t, tuple) and idx is not None and -len(t) <= idx < len(t):
                    out.add(t[idx])
                elif t is str:
                    out.add(str)
                elif isinstance(t, tuple) and idx is not None:
                    continue      # raises IndexError at run time
                else:
                    out = None    # list elements / dynamic index: unknown
                    break
            if out is not None and not out:
                out = None
            return record('slice', (key, frozenset(value), frozenset(slice_) if isinstance(slice_, (set, frozenset)) else None), out)

        def res_compare(self, ns, types_ns, node, left, right):
            if dec('compare') or len(right) != 1 or type(node.ops[0]) not in _AST_CMP:
                return record('compare', None, None)
            ans = lift(CMPOPS[_AST_CMP[type(node.ops[0])]], [left, right[0]]) or None
            return record('compare', (_AST_CMP[type(node.ops[0])], frozenset(left), frozenset(right[0])), ans)

        def res_unop(self, ns, types_ns, node, opnd):
            if dec('unop') or type(node.op) not in _AST_UN:
                return record('unop', None, None)
            ans = lift(UNOPS[_AST_UN[type(node.op)]], [opnd]) or None
            return record('unop', (_AST_UN[type(node.op)], frozenset(opnd)), ans)

        def res_binop(self, ns, types_ns, node, left, right):
            if dec('binop') or type(node.op) not in _AST_BIN or (
                    isinstance(node.op, ast.Mult) and any(isinstance(t, tuple) for t in left | right)):
                return record('binop', None, None)
            ans = lift(BINOPS[_AST_BIN[type(node.op)]], [left, right]) or None
            return record('binop', (_AST_BIN[type(node.op)], frozenset(left), frozenset(right)), ans)

        def res_list_literal(self, ns, elt_types):
            return record('list', None, {list})

    return R()


# --------------------------------------------------------------------------------------------
# running the real analysis

class Analysis(object):
    pass


class Diverged(Exception):
    """The walk does not end.  kind = 'periodic': the sequence of (node, out state) repeated exactly three
    times in a row -- the worklist is in a cycle (certain non-termination as far as the states show);
    kind = 'growth': a tuple tag nested deeper than 20 levels / longer than 60 elements (unbounded ascending chain);
    kind = 'budget': more visits than VISIT_FACTOR x nodes x (names + 1), or more than TIME_LIMIT seconds.
    shrunk: some node's out state LOST a type between two of its visits (a non-monotone step)."""

    def __init__(self, kind, shrunk, visits):
        Exception.__init__(self, kind)
        self.kind = kind
        self.shrunk = shrunk
        self.visits = visits


VISIT_FACTOR = 200        # a terminating walk needs a small multiple of nodes x names visits; 200x is generous
VISIT_BUDGET = None       # (tests may set an absolute cap)
TIME_LIMIT = 60.0
PERIOD_CHECK_FROM = 1500


def analyze(prog, resolver):
    """qual_names -> activity -> cfg -> reaching definitions -> reaching fndefs -> type inference on
    prog.tree (as tests/pyct/static_analysis/type_inference_test.py does); records every Analyzer."""
    from malt.pyct import anno, cfg, qual_names, transformer
    from malt.pyct.static_analysis import activity, reaching_definitions, reaching_fndefs, type_inference
    fn = prog.fn
    info = transformer.EntityInfo(name='f', source_code=prog.src, source_file='<c19>', future_features=(),
                                  namespace=namespace())
    ctx = transformer.Context(info, None, None)
    node = qual_names.resolve(fn)
    node = activity.resolve(node, ctx)
    graphs = cfg.build(node)
    node = reaching_definitions.resolve(node, ctx, graphs)
    node = reaching_fndefs.resolve(node, ctx, graphs)
    analyzers = []
    base = type_inference.Analyzer
    orig_init = base.__init__

    orig_visit = base.visit_node
    visits = [0]

    owner_of_graph = {id(g): f for f, g in graphs.items()}

    def init(self, *a, **kw):
        orig_init(self, *a, **kw)
        analyzers.append(self)
        # which function this Analyzer belongs to, and the CLOSURE_TYPES recorded for it so far (the annotation,
        # not the dictionary the Analyzer was handed): input of the closure certificate (c19_export.closure_case)
        f = owner_of_graph.get(id(self.graph))
        self._c19_fn = f if isinstance(f, ast.FunctionDef) else None
        seen = anno.getanno(f, anno.Static.CLOSURE_TYPES, None) if self._c19_fn is not None else None
        self._c19_seen = {str(k): set(v) for k, v in (seen or {}).items()}

    created = []
    last_new = {}
    SI = type_inference.StmtInferrer
    orig_si_init = SI.__init__

    def si_init(self, *a, **kw):
        orig_si_init(self, *a, **kw)
        created.append(self)

    import time as _time
    t0 = _time.time()
    nnodes = sum(len(g.index) for g in graphs.values())
    names = set(n.id for n in prog.nodes if isinstance(n, ast.Name)) | set(n.arg for n in prog.nodes if isinstance(n, ast.arg))
    budget = VISIT_BUDGET or max(4000, VISIT_FACTOR * nnodes * (len(names) + 1))
    hist = []
    prev_out = {}
    shrunk = [False]

    def canon(tm):
        return tuple(sorted((str(k), tuple(sorted(tname(t) for t in v))) for k, v in tm.types.items()))

    def visit_node(self, node):
        visits[0] += 1
        if visits[0] > budget or (visits[0] % 256 == 0 and _time.time() - t0 > TIME_LIMIT):
            raise Diverged('budget', shrunk[0], visits[0])
        del created[:]
        res = orig_visit(self, node)
        for v in self.out[node].types.values():
            for t in v:
                d, u = 0, t
                while isinstance(u, tuple) and u:
                    if len(u) > 60:
                        d = 99
                        break
                    d, u = d + 1, max(u, key=lambda e: 1 if isinstance(e, tuple) else 0)
                if d > 20:
                    # structural tuple tags nested / grown beyond anything the program text contains
                    raise Diverged('growth', shrunk[0], visits[0])
        cur = {str(k): frozenset(v) for k, v in self.out[node].types.items()}
        old = prev_out.get(id(node))
        if old is not None and any(not (cur.get(k, frozenset()) >= v) for k, v in old.items()):
            shrunk[0] = True
        prev_out[id(node)] = cur
        if visits[0] > PERIOD_CHECK_FROM:
            hist.append((id(node), canon(self.out[node])))
            if len(hist) % 200 == 0:
                # period = distance to the previous occurrence of the latest state; three identical periods in a row
                lastk = hist[-1]
                tried = 0
                for p in range(2, min(len(hist) // 3, 4000)):
                    if hist[-1 - p] == lastk:
                        if hist[-p:] == hist[-2 * p:-p] == hist[-3 * p:-2 * p]:
                            raise Diverged('periodic', shrunk[0], visits[0])
                        tried += 1
                        if tried > 40:
                            break
                if len(hist) > 16000:
                    del hist[:4000]
        if created:
            # names the inferrer typed at the LAST visit of this node (annotations may be left over from earlier visits)
            last_new[id(node.ast_node)] = set(str(k) for k in created[-1].new_symbols)
        return res

    base.__init__ = init
    base.visit_node = visit_node
    SI.__init__ = si_init
    try:
        node = type_inference.resolve(node, ctx, graphs, resolver)
    finally:
        base.__init__ = orig_init
        base.visit_node = orig_visit
        SI.__init__ = orig_si_init
    a = Analysis()
    a.graphs = graphs
    a.analyzers = analyzers
    a.anno = anno
    a.types = {}
    a.closure = {}
    a.visits = visits[0]
    a.last_new = last_new
    for i, n in enumerate(prog.nodes):
        t = anno.getanno(n, anno.Static.TYPES, None)
        if t is not None:
            a.types[i] = set(t)
        if isinstance(n, ast.FunctionDef):
            c = anno.getanno(n, anno.Static.CLOSURE_TYPES, None)
            if c is not None:
                a.closure[i] = {str(k): set(v) for k, v in c.items()}
    return a


# --------------------------------------------------------------------------------------------
# judging the property text on the recorded runs

UNTYPED = 'c19-untyped-binding-keeps-stale-types'
SIDE = 'c19-local-function-side-effects-not-applied'
ALIAS = 'c19-closure-types-miss-calls-through-alias'
STAR = 'c19-starred-unpacking-typed-by-position'
NLJOIN = 'c19-nonlocal-entry-type-not-seeded'
LATE = 'c19-closure-types-arrive-after-callee-analysed'
FWD = 'c19-closure-types-miss-forward-referenced-callee'


def rebinds_name(prog, g, name):
    return g is not None and any(isinstance(n, ast.Name) and n.id == name and isinstance(n.ctx, ast.Store)
                                 for n in g._members)


def assigns_nonlocal(prog, g, name):
    """local function g declares `name` nonlocal and assigns it somewhere in its own body"""
    if g is None or id(g) not in prog.parent_fun or name in prog.locals_of[id(g)]:
        return False
    declared = any(isinstance(n, ast.Nonlocal) and name in n.names for n in g._members)
    stored = any(isinstance(n, ast.Name) and n.id == name and isinstance(n.ctx, ast.Store) for n in g._members)
    return declared and stored


def in_starred_unpacking(prog, k):
    """node k is a binding occurrence inside a tuple/list target that has a starred element"""
    if not hasattr(prog, 'parent'):
        prog.parent = {}
        for n in prog.nodes:
            for c in ast.iter_child_nodes(n):
                prog.parent[id(c)] = n
    n = prog.parent.get(id(prog.nodes[k]))
    while isinstance(n, (ast.Tuple, ast.List, ast.Starred)):
        if isinstance(n, (ast.Tuple, ast.List)) and any(isinstance(e, ast.Starred) for e in n.elts):
            return True
        n = prog.parent.get(id(n))
    return False


def escapes(prog, g):
    """the function value of local function g is used other than as the callee of a direct call
    (h = g, passed as an argument, returned): it can then be called where its def name is not read"""
    callees = set(id(n.func) for n in prog.nodes if isinstance(n, ast.Call))
    return any(isinstance(n, ast.Name) and n.id == g.name and isinstance(n.ctx, ast.Load) and id(n) not in callees
               for n in prog.nodes)


def _inside(prog, f, g):
    """function f is g or nested in g"""
    while f is not None:
        if f is g:
            return True
        f = prog.parent_fun.get(id(f))
    return False


def _references(prog, g):
    """(function containing the reference) for every Load of the name of local function g that denotes g's own
    scope entry (same owner as the def)"""
    own = prog.owner(prog.parent_fun[id(g)], g.name)
    out = []
    for i, n in enumerate(prog.nodes):
        if isinstance(n, ast.Name) and n.id == g.name and isinstance(n.ctx, ast.Load):
            h = prog.fun_of(i)
            if h is not None and prog.owner(h, g.name) == own:
                out.append(h)
    return out


def late_called(prog, g):
    """local function g is referenced from a local function that FunctionVisitor analyses after g and that is
    not part of g: a function whose def starts after the end of g's def"""
    return any(id(h) in prog.parent_fun and not _inside(prog, h, g) and h.lineno > g.end_lineno
               for h in _references(prog, g))


def forward_referenced(prog, g):
    """local function g is referenced from a local function whose def statement precedes g's def (and that does
    not contain g): the def of g does not reach that reference along the CFG"""
    return any(id(h) in prog.parent_fun and not _inside(prog, g, h) and not _inside(prog, h, g) and h.lineno < g.lineno
               for h in _references(prog, g))


def closure_order_cause(prog, an, r, name, v, _visited=None):
    """A captured variable `name` observed with value v inside local function r (a read there, or r's own closure
    types): walks from r outwards through the local functions that capture the name as well (they hand their
    entry state down), and from each of them to the local functions that call it (their entry state is what the
    call site records).  FWD: one of them is called from a function defined before it (that call is no call
    site for the analysis).  LATE: one of them is called from a function analysed after it AND its final closure
    types do cover v -- the type was recorded, but only after the function's body (and so every call site in
    it) had been analysed."""
    visited = _visited if _visited is not None else set()
    g = r
    while g is not None and id(g) in prog.parent_fun:
        if name in prog.locals_of[id(g)] or id(g) in visited:
            return None
        visited.add(id(g))
        if forward_referenced(prog, g):
            return FWD
        rep = an.closure.get(prog.num[id(g)], {}).get(name)
        if rep is not None and covered(v, rep) and late_called(prog, g):
            return LATE
        for h in _references(prog, g):
            if id(h) in prog.parent_fun and not _inside(prog, h, g):
                c = closure_order_cause(prog, an, h, name, v, visited)
                if c:
                    return c
        g = prog.parent_fun.get(id(g))
    return None


def _depth(prog, f):
    d = 0
    while f is not None:
        d += 1
        f = prog.parent_fun.get(id(f))
    return d


def judge(prog, an, runs):
    """The property text on the recorded events: every reported set covers the run-time value.
    -> list of failures (dicts), each with f['cause'] a known-finding id or None = unexplained.

    Classifiers of the known findings (narrow, decided per failing observation, in execution order):
    UNTYPED: the offending value was bound by a construct for which the inferrer recorded no type for
      that name (no TYPES annotation on the binding occurrence: a right-hand side it cannot type, an
      augmented assignment, a for target, a parameter the resolver does not know).  The type map cannot
      say 'unknown', so the name keeps the types of earlier bindings / of the other paths.
    SIDE: the offending value was bound inside a local function through a `nonlocal` declaration; calls
      of local functions have no side effects in the analysis.
    STAR: the binding occurrence sits in an unpacking target with a starred element: _apply_unpacking gives
      the i-th target the type of element i of the right-hand side, also to the starred name (a list at
      run time) and to the names after it (which take elements counted from the end).
    NLJOIN: a name declared `nonlocal` in a local function that also assigns it on some path is read there
      while it still holds the value that came in through the closure: Analyzer.__init__ keeps names in
      scope.bound (which lists nonlocal declarations) out of the entry map, so the path without assignment
      contributes nothing to the join.
    ALIAS: a captured variable is read inside a local function (or listed in its closure types) whose
      function value escapes (h = g, argument, return value): closure types are collected only at
      statements that read the def name, a later call through the alias is not a call site.
    FWD / LATE: see closure_order_cause (call sites the callee's analysis never saw: a caller defined before
      the callee / analysed after it).  Neither explains closure types of a function that is only called from
      functions analysed before it, nor (LATE) a value the final closure types do not cover.
    Propagation: an expression / assignment target whose reported set is wrong is explained when a
      name read inside the same statement is explained; a binding that stored such a value is
      'tainted' and explains later reads of that binding in the same run."""
    if not hasattr(prog, 'stmt_index'):
        index_statements(prog)
    out = []
    seen = set()
    for ri, (rec, res) in enumerate(runs):
        tainted = {}           # store-node index -> cause (this run, most recent binding)
        stmt_cause = {}        # statement index -> cause of a failing name read in its current execution
        for ev in rec.events:
            if ev[0] in ('E', 'B'):
                k, v, writer = ev[1], ev[2], ev[3]
                n = prog.nodes[k]
                st = stmt_of(prog, k)
                is_read = ev[0] == 'E' and isinstance(n, ast.Name)
                if ev[0] == 'B':
                    tainted.pop(k, None)
                rep = an.types.get(k)
                if rep is None or covered(v, rep):
                    continue
                cause = None
                if is_read and writer is not None:
                    wk, sk, wact = writer
                    wf = prog.fun_of(sk)
                    wn = prog.nodes[sk]
                    wname = wn.id if isinstance(wn, ast.Name) else (wn.arg if isinstance(wn, ast.arg) else wn.name)
                    if sk not in an.types and not isinstance(wn, ast.FunctionDef) and not (
                            isinstance(wn, ast.arg) and not rebinds_name(prog, wf, wname)):
                        # (an untyped PARAMETER has no entry at all on entry: it can only show a wrong set when
                        # the function binds the name again somewhere)
                        cause = UNTYPED
                    elif sk in tainted:
                        cause = tainted[sk]
                    elif wf is not None and not isinstance(wn, ast.FunctionDef) and prog.owner(wf, wname) != wf.name \
                            and (wf is not prog.fun_of(k) or wact != ev[4]):
                        # bound through `nonlocal` in another function, or in an earlier activation of this one
                        cause = SIDE
                    elif (wf is not prog.fun_of(k) or wact != ev[4]) and assigns_nonlocal(prog, prog.fun_of(k), n.id):
                        # the value arrived through the closure, the reader's function also assigns the nonlocal on
                        # some path: the entry map has no entry for a nonlocal, the join keeps the assigned types only
                        cause = NLJOIN
                    elif wf is not None and prog.fun_of(k) is not wf and id(prog.fun_of(k)) in prog.parent_fun \
                            and escapes(prog, prog.fun_of(k)):
                        # a captured variable read inside a local function whose value escapes
                        cause = ALIAS
                    elif wf is not None and prog.fun_of(k) is not None and (wf is not prog.fun_of(k) or wact != ev[4]) \
                            and not isinstance(wn, ast.FunctionDef):
                        # the value arrived through the closure: call sites the callee's analysis never saw
                        cause = closure_order_cause(prog, an, prog.fun_of(k), n.id, v)
                    if cause:
                        stmt_cause[st] = cause
                elif not is_read:
                    cause = stmt_cause.get(st)
                    if ev[0] == 'B' and cause is None and in_starred_unpacking(prog, k):
                        cause = STAR
                    if ev[0] == 'B' and cause:
                        tainted[k] = cause
                key = (ev[0], k, tname(typeof(v)), cause)
                if key in seen:
                    continue
                seen.add(key)
                out.append({'kind': 'name' if isinstance(n, (ast.Name, ast.arg)) else 'expression',
                            'event': ev[0], 'node': k, 'line': getattr(n, 'lineno', None),
                            'text': ast.unparse(n), 'reported': tset(rep), 'runtime': tname(typeof(v)),
                            'writer': writer, 'run': ri, 'cause': cause})
            elif ev[0] == 'BE':
                stmt_cause.pop(ev[1], None)
            elif ev[0] == 'C':
                fk, name, v, writer = ev[1], ev[2], ev[3], ev[4]
                rep = an.closure.get(fk, {}).get(name)
                if rep is None or covered(v, rep):
                    continue
                cause = None
                if writer is not None:
                    wk, sk, wact = writer
                    wf = prog.fun_of(sk)
                    wn = prog.nodes[sk]
                    if sk not in an.types and not isinstance(wn, ast.FunctionDef) and not (
                            isinstance(wn, ast.arg) and not rebinds_name(prog, wf, name)):
                        cause = UNTYPED
                    elif sk in tainted:
                        cause = tainted[sk]
                    elif wf is not None and isinstance(wn, ast.Name) and prog.owner(wf, wn.id) != wf.name:
                        cause = SIDE
                    elif wf is not prog.nodes[fk] and escapes(prog, prog.nodes[fk]):
                        cause = ALIAS
                    elif not isinstance(wn, ast.FunctionDef):
                        cause = closure_order_cause(prog, an, prog.nodes[fk], name, v)
                key = ('C', fk, name, tname(typeof(v)), cause)
                if key in seen:
                    continue
                seen.add(key)
                out.append({'kind': 'closure', 'event': 'C', 'node': fk, 'line': prog.nodes[fk].lineno,
                            'text': 'closure types of %s for %s' % (prog.nodes[fk].name, name), 'name': name,
                            'reported': tset(rep), 'runtime': tname(typeof(v)), 'writer': writer, 'run': ri,
                            'cause': cause})
    return out


# --------------------------------------------------------------------------------------------
# statement index

def stmt_of(prog, k):
    """index of the CFG-level statement / test expression that contains node k (the nearest ancestor that
    is a statement, or the test of an if/while, or the iter of a for)"""
    return prog.stmt_index.get(k)


def index_statements(prog):
    prog.stmt_index = {}

    def rec(n, cur):
        i = prog.num[id(n)]
        if isinstance(n, ast.stmt) and not isinstance(n, (ast.If, ast.While, ast.For, ast.FunctionDef)):
            cur = i
        prog.stmt_index[i] = cur
        for name, val in ast.iter_fields(n):
            kids = val if isinstance(val, list) else [val]
            for c in kids:
                if not isinstance(c, ast.AST):
                    continue
                if isinstance(n, (ast.If, ast.While)) and name == 'test':
                    rec(c, prog.num[id(c)])
                elif isinstance(n, ast.For) and name == 'iter':
                    rec(c, prog.num[id(c)])
                elif isinstance(n, ast.FunctionDef) and name == 'args':
                    rec(c, prog.num[id(c)])
                else:
                    rec(c, cur)
    rec(prog.tree, None)




# --------------------------------------------------------------------------------------------
# executed transitions between statements must be edges of the CFG the inference walked

def path_failures(prog, an, runs):
    """The statements of each function in the order they produced events (expression evaluations, bindings);
    a transition a -> b is accepted when b is reachable from a in the function's cfg.Graph through nodes that
    produce no event (break / continue / pass / the head of a for loop when it is exhausted).  A missing
    edge means the inference never propagated the type map along a path that executes."""
    if not hasattr(prog, 'stmt_index'):
        index_statements(prog)
    succ = {}
    silent = set()
    known_nodes = set()
    for g in an.graphs.values():
        for a, n in g.index.items():
            k = prog.num.get(id(a))
            if k is None:
                continue
            known_nodes.add(k)
            succ[k] = [prog.num[id(m.ast_node)] for m in n.next if id(m.ast_node) in prog.num]
            if isinstance(a, (ast.Break, ast.Continue, ast.Pass, ast.Nonlocal, ast.Global)):
                silent.add(k)
    for n in prog.nodes:
        if isinstance(n, ast.For):
            silent.add(prog.num[id(n.iter)])

    def allowed(a, b):
        seen = set()
        todo = [a]
        while todo:
            k = todo.pop()
            for m in succ.get(k, ()):
                if m == b:
                    return True
                if m in silent and m not in seen:
                    seen.add(m)
                    todo.append(m)
        return False

    out = []
    seen_t = set()
    for ri, (rec, res) in enumerate(runs):
        last = {}
        for ev in rec.events:
            if ev[0] == 'E':
                k = ev[1]
                st = stmt_of(prog, k)
                fn = prog.fun_of(k)
            elif ev[0] == 'B':
                st = ev[3][0]
                fn = prog.fun_of(ev[1])
                if isinstance(prog.nodes[st], ast.FunctionDef):
                    fn = prog.parent_fun.get(id(prog.nodes[st]), prog.fn) if prog.nodes[st] is not prog.fn else None
                if isinstance(prog.nodes[st], ast.arguments):
                    last[id(fn)] = st         # a new activation starts at the arguments node
                    continue
            elif ev[0] == 'BE' and isinstance(prog.nodes[ev[1]], ast.arguments):
                last[id(prog.fun_of(ev[1]))] = ev[1]      # a new activation (also of a function without parameters)
                continue
            else:
                continue
            if st is None or fn is None or st not in known_nodes:
                continue
            a = last.get(id(fn))
            last[id(fn)] = st
            if a is None or a == st or (a, st) in seen_t:
                continue
            seen_t.add((a, st))
            if not allowed(a, st):
                na, nb = prog.nodes[a], prog.nodes[st]
                out.append({'kind': 'path', 'event': 'P', 'node': st, 'line': getattr(nb, 'lineno', None),
                            'text': '%s -> %s' % (ast.unparse(na).split('\n')[0][:40], ast.unparse(nb).split('\n')[0][:40]),
                            'from_line': getattr(na, 'lineno', None), 'reported': [], 'runtime': '', 'writer': None,
                            'run': ri, 'cause': None})
    return out
