"""Fail-closed syntactic translator for C09: the cache that chooses the factory serving a function.

  malt/pyct/cache.py        _TransformedFnCache.__init__ / has / __getitem__, CodeObjectCache
  malt/pyct/transpiler.py   PyToPy.__init__ (which cache), every use of self._cache in PyToPy
      -> coq/Generated/C09_cache_gen.v   (one `cache_config` record, definitions only)

Recognised shapes (anything else raises Untranslatable = tie broken):

 _TransformedFnCache
   __init__(self):          self._cache = <STORE>
   has(self, entity, subkey):
       key = self._get_key(entity); parent = self._cache.get(key, None)
       if parent is None: return False
       return subkey in parent
   __getitem__(self, entity):
       key = self._get_key(entity); parent = self._cache.get(key, None)
       if parent is None: self._cache[key] = parent = {}
       return parent
   (compared up to the names of the locals)
 CodeObjectCache(_TransformedFnCache): may contain a docstring, `__slots__ = ()`, an `__init__(self)` made of
   `super(...).__init__()` and `self._cache = <STORE>` statements (the last store wins), and
   _get_key(self, entity):  [if hasattr(entity, '__code__'):] return <KEY> [else: return <FALLBACK>]
   and nothing else (has / __getitem__ are the inherited ones).
   <STORE>    weakref.WeakKeyDictionary() -> SWeakKeys | {} | dict() -> SStrong
   <KEY>      entity.__code__ -> KCode | id(entity.__code__) -> KCodeId
   <FALLBACK> entity | id(entity)   (objects without __code__ never reach the factory: transform_function reads
              fn.__code__.co_freevars, checked by c09_iface)
 PyToPy: __init__ contains `self._cache = cache.CodeObjectCache()` and nothing else stores self._cache; every other
   mention of self._cache in the class is `self._cache.has(<fn>, <K>)` or `self._cache[<fn>][<K>]` (load or the one
   store of the new factory) where <fn> is the function parameter of the method.
"""
import ast
import copy
import os


class Untranslatable(Exception):
    pass


CP = 'malt/pyct/cache.py'
TP = 'malt/pyct/transpiler.py'


def _fail(fname, node, msg):
    raise Untranslatable('untranslatable: %s:%s: %s' % (fname, getattr(node, 'lineno', '?'), msg))


def _u(e):
    return ast.unparse(e)


def _nodoc(body):
    if body and isinstance(body[0], ast.Expr) and isinstance(body[0].value, ast.Constant) \
            and isinstance(body[0].value.value, str):
        return body[1:]
    return body


def _find(tree, kind, name, fname):
    found = [n for n in tree.body if isinstance(n, kind) and n.name == name]
    if len(found) != 1:
        raise Untranslatable('untranslatable: %s: %s %s found %d times' % (fname, kind.__name__, name, len(found)))
    return found[0]


def _params(fn):
    a = fn.args
    if a.vararg or a.kwarg or a.kwonlyargs or a.posonlyargs or a.defaults:
        _fail(CP, fn, '%s has an unexpected parameter list' % fn.name)
    return [x.arg for x in a.args]


class _Rename(ast.NodeTransformer):
    def __init__(self, env):
        self.env = env

    def visit_Name(self, node):
        if node.id in self.env:
            return ast.copy_location(ast.Name(id=self.env[node.id], ctx=node.ctx), node)
        return node


def _normal_form(fn, params):
    """The body (docstring dropped) with its local names renamed L0, L1, ... in order of first binding."""
    body = copy.deepcopy(_nodoc(fn.body))
    env = {}
    for st in body:
        for n in ast.walk(st):
            if isinstance(n, ast.Name) and isinstance(n.ctx, ast.Store):
                if n.id in params:
                    _fail(CP, n, 'parameter %s rebound in %s' % (n.id, fn.name))
                env.setdefault(n.id, 'L%d' % len(env))
    return [_u(_Rename(env).visit(st)) for st in body]


def _template(src, params):
    return _normal_form(ast.parse(src).body[0], params)


HAS_NF = _template('''
def has(self, entity, subkey):
    key = self._get_key(entity)
    parent = self._cache.get(key, None)
    if parent is None:
        return False
    return subkey in parent
''', ['self', 'entity', 'subkey'])
GETITEM_NF = _template('''
def __getitem__(self, entity):
    key = self._get_key(entity)
    parent = self._cache.get(key, None)
    if parent is None:
        self._cache[key] = parent = {}
    return parent
''', ['self', 'entity'])


def _store_of(e, fname):
    s = _u(e)
    if s == 'weakref.WeakKeyDictionary()':
        return 'SWeakKeys'
    if s in ('{}', 'dict()'):
        return 'SStrong'
    _fail(fname, e, 'the mapping behind self._cache is %s (expected weakref.WeakKeyDictionary() or a plain dict)' % s)


def _init_stores(fn, base_store, fname):
    """-> the store self._cache ends up with after this __init__ (base_store = what super().__init__() leaves)."""
    if _params(fn) != ['self']:
        _fail(fname, fn, '__init__ takes parameters')
    store = None
    for st in _nodoc(fn.body):
        if isinstance(st, ast.Expr) and isinstance(st.value, ast.Call) and not st.value.args and not st.value.keywords \
                and isinstance(st.value.func, ast.Attribute) and st.value.func.attr == '__init__' \
                and isinstance(st.value.func.value, ast.Call) and _u(st.value.func.value.func) == 'super':
            if base_store is None:
                _fail(fname, st, 'super().__init__() in the base class')
            store = base_store
            continue
        if isinstance(st, ast.Assign) and len(st.targets) == 1 and _u(st.targets[0]) == 'self._cache':
            store = _store_of(st.value, fname)
            continue
        _fail(fname, st, 'unrecognised statement in __init__: %s' % _u(st).split('\n')[0])
    if store is None:
        _fail(fname, fn, '__init__ does not initialise self._cache')
    return store


def _key_of(e):
    s = _u(e)
    if s == 'entity.__code__':
        return 'KCode'
    if s == 'id(entity.__code__)':
        return 'KCodeId'
    _fail(CP, e, 'the key of a function is %s (expected entity.__code__ or id(entity.__code__))' % s)


def _translate_get_key(fn):
    if _params(fn) != ['self', 'entity']:
        _fail(CP, fn, '_get_key parameter list')
    body = _nodoc(fn.body)
    if len(body) == 1 and isinstance(body[0], ast.Return) and body[0].value is not None:
        return _key_of(body[0].value), None
    if len(body) == 1 and isinstance(body[0], ast.If) and _u(body[0].test) == "hasattr(entity, '__code__')" \
            and len(body[0].body) == 1 and isinstance(body[0].body[0], ast.Return) \
            and len(body[0].orelse) == 1 and isinstance(body[0].orelse[0], ast.Return) \
            and body[0].body[0].value is not None and body[0].orelse[0].value is not None:
        fb = _u(body[0].orelse[0].value)
        if fb not in ('entity', 'id(entity)'):
            _fail(CP, body[0].orelse[0], 'fallback key %s' % fb)
        return _key_of(body[0].body[0].value), fb
    _fail(CP, fn, '_get_key has an unrecognised shape')


def _translate_cache(tree):
    base = _find(tree, ast.ClassDef, '_TransformedFnCache', CP)
    methods = dict((n.name, n) for n in base.body if isinstance(n, ast.FunctionDef))
    for n in base.body:
        if isinstance(n, ast.FunctionDef):
            continue
        if isinstance(n, ast.Expr) and isinstance(n.value, ast.Constant):
            continue
        if isinstance(n, ast.Assign) and _u(n.targets[0]) == '__slots__':
            continue
        _fail(CP, n, 'unrecognised member of _TransformedFnCache')
    if set(methods) != {'__init__', '_get_key', 'has', '__getitem__', '__len__'}:
        _fail(CP, base, '_TransformedFnCache methods are %s' % sorted(methods))
    base_store = _init_stores(methods['__init__'], None, CP)
    if _params(methods['has']) != ['self', 'entity', 'subkey']:
        _fail(CP, methods['has'], 'has parameter list')
    if _params(methods['__getitem__']) != ['self', 'entity']:
        _fail(CP, methods['__getitem__'], '__getitem__ parameter list')
    nf = _normal_form(methods['has'], ['self', 'entity', 'subkey'])
    if nf != HAS_NF:
        _fail(CP, methods['has'], 'has() is not the two-level lookup: %s' % nf)
    nf = _normal_form(methods['__getitem__'], ['self', 'entity'])
    if nf != GETITEM_NF:
        _fail(CP, methods['__getitem__'], '__getitem__() is not lookup-or-create-bucket: %s' % nf)
    coc = _find(tree, ast.ClassDef, 'CodeObjectCache', CP)
    if [_u(b) for b in coc.bases] != ['_TransformedFnCache'] or coc.keywords or coc.decorator_list:
        _fail(CP, coc, 'CodeObjectCache bases / decorators')
    store = base_store
    key = fallback = None
    for n in coc.body:
        if isinstance(n, ast.Expr) and isinstance(n.value, ast.Constant):
            continue
        if isinstance(n, ast.Assign) and len(n.targets) == 1 and _u(n.targets[0]) == '__slots__' and _u(n.value) == '()':
            continue
        if isinstance(n, ast.FunctionDef) and not n.decorator_list and n.name == '__init__':
            store = _init_stores(n, base_store, CP)
            continue
        if isinstance(n, ast.FunctionDef) and not n.decorator_list and n.name == '_get_key':
            key, fallback = _translate_get_key(n)
            continue
        _fail(CP, n, 'unrecognised member of CodeObjectCache')
    if key is None:
        _fail(CP, coc, 'CodeObjectCache does not define _get_key')
    # nobody replaces the mapping or the methods from outside the classes
    for n in tree.body:
        if isinstance(n, (ast.ClassDef, ast.Import, ast.ImportFrom)):
            continue
        if isinstance(n, ast.Expr) and isinstance(n.value, ast.Constant):
            continue
        _fail(CP, n, 'unrecognised module-level statement')
    return key, store, fallback


def _translate_pytopy(tree):
    cls = _find(tree, ast.ClassDef, 'PyToPy', TP)
    init = _find(cls, ast.FunctionDef, '__init__', TP)
    stores = [st for st in ast.walk(init) if isinstance(st, ast.Assign)
              and any(_u(t) == 'self._cache' for t in st.targets)]
    if len(stores) != 1 or len(stores[0].targets) != 1 or _u(stores[0].value) != 'cache.CodeObjectCache()':
        _fail(TP, init, 'PyToPy.__init__ does not set self._cache = cache.CodeObjectCache()')
    imported = False
    for n in tree.body:
        if isinstance(n, ast.ImportFrom) and n.module == 'malt.pyct' and any(a.name == 'cache' and a.asname is None
                                                                              for a in n.names):
            imported = True
    if not imported:
        _fail(TP, tree, '`cache` is not malt.pyct.cache')
    n_put = 0
    for f in cls.body:
        if not isinstance(f, ast.FunctionDef):
            continue
        params = [x.arg for x in f.args.args]
        parents = {}
        for p in ast.walk(f):
            for c in ast.iter_child_nodes(p):
                parents[c] = p
        for n in ast.walk(f):
            if not (isinstance(n, ast.Attribute) and n.attr == '_cache' and _u(n.value) == 'self'):
                continue
            if f is init and isinstance(n.ctx, ast.Store):
                continue
            p = parents.get(n)
            # self._cache.has(fn, K)
            if isinstance(p, ast.Attribute) and p.attr == 'has' and isinstance(parents.get(p), ast.Call) \
                    and parents[p].func is p:
                call = parents[p]
                if len(call.args) == 2 and not call.keywords and isinstance(call.args[0], ast.Name) \
                        and call.args[0].id in params and isinstance(call.args[1], ast.Name):
                    continue
                _fail(TP, call, 'self._cache.has(...) argument list')
            # self._cache[fn][K]
            if isinstance(p, ast.Subscript) and p.value is n and isinstance(p.slice, ast.Name) and p.slice.id in params \
                    and isinstance(p.ctx, ast.Load):
                pp = parents.get(p)
                if isinstance(pp, ast.Subscript) and pp.value is p and isinstance(pp.slice, ast.Name):
                    if isinstance(pp.ctx, ast.Store):
                        n_put += 1
                    elif not isinstance(pp.ctx, ast.Load):
                        _fail(TP, pp, 'cache entry deleted')
                    continue
            _fail(TP, n, 'unrecognised use of self._cache in PyToPy.%s' % f.name)
    if n_put != 1:
        _fail(TP, cls, 'PyToPy stores into the cache %d times (expected once)' % n_put)


def translate(repo):
    try:
        t1 = ast.parse(open(os.path.join(repo, CP)).read())
        t2 = ast.parse(open(os.path.join(repo, TP)).read())
    except (OSError, SyntaxError) as e:
        raise Untranslatable('untranslatable: cannot read/parse source: %s' % e)
    key, store, fallback = _translate_cache(t1)
    _translate_pytopy(t2)
    lines = [
        '(* GENERATED by tools/translate/c09_cache.py from %s and %s -- do not edit *)' % (CP, TP),
        'Require Import MV.Iface.IfaceSyntax.',
        '',
        '(* key of an object without __code__ (never reaches the factory): %s *)' % (fallback or 'none'),
        'Definition cache_gen : cache_config := {| ck_key := %s; ck_store := %s |}.' % (key, store),
        '']
    return '\n'.join(lines), dict(key=key, store=store, fallback=fallback)


if __name__ == '__main__':
    import sys
    print(translate(sys.argv[1] if len(sys.argv) > 1 else '/repo')[0])
