"""Fail-closed syntactic translator for C10 (conversion cache).

  malt/pyct/transpiler.py  PyToPy.__init__, PyToPy._cached_factory, PyToPy.transform_function
  malt/pyct/cache.py       _TransformedFnCache.has / __getitem__, CodeObjectCache._get_key,
                           UnboundInstanceCache._get_key (the key of the allowlist cache, as a chain of
                           projections PFunc / PWrapped / PCode applied to the callable)
  malt/impl/conversion.py  _ALLOWLIST_CACHE, is_in_allowlist_cache, cache_allowlisted (shape)
  malt/impl/api.py         PyToPy.get_caching_key, the _call_unconverted exits of converted_call,
                           _convert_actual (the entry funnel: FDirect / FMemo ks ss) and statelessness of the
                           other functions on the request path
      -> coq/Generated/C10_gen.v   (definitions only)

What is extracted is the *instruction skeleton* of the cache-access code, as a
program of MV.Cache.Machine.instr:

  K = self.get_caching_key(user_context)              (first statement; K = the key variable)
  if [not] self._cache.has(fn, K): A else: B          IIfHas A B
  with self._cache_lock: body                         ILock body
  F = self._cached_factory(fn, K) | self._cache[fn][K]    IGet   (F = the factory variable)
  N, C = super(...).transform_function(fn, user_context)  ITransform
  F = _PythonFnFactory(...) ; ... ; F.create(N, ...)  ICreate (emitted at .create)
  self._cache[fn][K] = F                              IPut
  R = F.instantiate(globals_=fn.__globals__, closure=fn.__closure__ ..., defaults=fn.__defaults__,
                    kwdefaults=...fn...__kwdefaults__...)    IInstantiate
  return R, ...                                       (last statement)
  logging.* statements, `if logging.has_verbosity(..)` blocks, and *local*
  statements (assignments / ifs that mention none of: self._cache, _cache_lock,
  _cached_factory, super, transform_function, instantiate, create, return/raise,
  and do not rebind fn / user_context / K / F / N)  are skipped.

Anything else raises Untranslatable (tie broken).
"""
import ast
import collections
import os


class Untranslatable(Exception):
    pass


def _fail(fname, node, msg):
    raise Untranslatable('untranslatable: %s:%s: %s' % (fname, getattr(node, 'lineno', '?'), msg))


def _is_self_attr(node, attr):
    return (isinstance(node, ast.Attribute) and node.attr == attr
            and isinstance(node.value, ast.Name) and node.value.id == 'self')


def _is_name(node, name):
    return isinstance(node, ast.Name) and node.id == name


def _nodoc(body):
    if body and isinstance(body[0], ast.Expr) and isinstance(body[0].value, ast.Constant) \
            and isinstance(body[0].value.value, str):
        return body[1:]
    return body


def _find_class(tree, name, fname):
    for n in tree.body:
        if isinstance(n, ast.ClassDef) and n.name == name:
            return n
    raise Untranslatable('untranslatable: %s: class %s not found' % (fname, name))


def _find_method(cls, name, fname, required=True):
    for n in cls.body:
        if isinstance(n, ast.FunctionDef) and n.name == name:
            return n
    if required:
        _fail(fname, cls, 'method %s.%s missing' % (cls.name, name))
    return None


def _is_logging_stmt(st):
    if isinstance(st, ast.Expr) and isinstance(st.value, ast.Call):
        f = st.value.func
        if isinstance(f, ast.Attribute) and isinstance(f.value, ast.Name) and f.value.id == 'logging':
            return True
    if isinstance(st, ast.If) and isinstance(st.test, ast.Call):
        f = st.test.func
        if isinstance(f, ast.Attribute) and isinstance(f.value, ast.Name) and f.value.id == 'logging' \
                and all(_is_logging_stmt(s) for s in st.body) and all(_is_logging_stmt(s) for s in st.orelse):
            return True
    return False


class _TF(object):
    """Translator of PyToPy.transform_function."""
    FNAME = 'transpiler.py'
    SENSITIVE_ATTRS = ('_cache', '_cache_lock', '_cached_factory', 'transform_function', 'transform',
                       'instantiate', 'create', 'get_caching_key')

    def __init__(self, cls, fn, get_method):
        self.cls = cls
        self.fn = fn
        self.get_method = get_method      # name of the helper that reads the cache, or None
        a = fn.args
        if a.vararg or a.kwarg or a.kwonlyargs or a.posonlyargs or a.defaults or len(a.args) != 3:
            _fail(self.FNAME, fn, 'transform_function signature')
        self.self_, self.p_fn, self.p_ctx = [x.arg for x in a.args]
        if self.self_ != 'self':
            _fail(self.FNAME, fn, 'first parameter is not self')
        self.K = self.F = self.N = self.C = self.R = None
        self.constructed = False
        self.returned = False

    # -- recognisers -------------------------------------------------------
    def cache_args_ok(self, args, node):
        if not (len(args) == 2 and _is_name(args[0], self.p_fn) and self.K and _is_name(args[1], self.K)):
            _fail(self.FNAME, node, 'cache accessed with arguments other than (%s, <key variable>)' % self.p_fn)

    def is_has(self, e):
        if isinstance(e, ast.Call) and isinstance(e.func, ast.Attribute) and e.func.attr == 'has' \
                and _is_self_attr(e.func.value, '_cache') and not e.keywords:
            self.cache_args_ok(e.args, e)
            return True
        return False

    def is_cache_item(self, e):
        """self._cache[fn][K]"""
        if isinstance(e, ast.Subscript) and isinstance(e.value, ast.Subscript) \
                and _is_self_attr(e.value.value, '_cache'):
            self.cache_args_ok([e.value.slice, e.slice], e)
            return True
        return False

    def is_get(self, e):
        if self.is_cache_item(e):
            return True
        if self.get_method and isinstance(e, ast.Call) and _is_self_attr(e.func, self.get_method) and not e.keywords:
            self.cache_args_ok(e.args, e)
            return True
        return False

    def is_super_transform(self, e):
        if not (isinstance(e, ast.Call) and isinstance(e.func, ast.Attribute) and e.func.attr == 'transform_function'):
            return False
        s = e.func.value
        if not (isinstance(s, ast.Call) and _is_name(s.func, 'super')):
            return False
        if s.args and not (len(s.args) == 2 and _is_name(s.args[0], self.cls.name) and _is_name(s.args[1], 'self')):
            _fail(self.FNAME, e, 'super(...) arguments')
        if not (len(e.args) == 2 and _is_name(e.args[0], self.p_fn) and _is_name(e.args[1], self.p_ctx)
                and not e.keywords):
            _fail(self.FNAME, e, 'parent transform_function not called with (%s, %s)' % (self.p_fn, self.p_ctx))
        return True

    def mentions_sensitive(self, node):
        for n in ast.walk(node):
            if isinstance(n, ast.Attribute) and n.attr in self.SENSITIVE_ATTRS:
                return True
            if isinstance(n, ast.Name) and n.id == 'super':
                return True
            if isinstance(n, (ast.Return, ast.Raise, ast.Yield, ast.YieldFrom, ast.Await, ast.Try, ast.With,
                              ast.For, ast.While, ast.Break, ast.Continue, ast.FunctionDef, ast.ClassDef,
                              ast.Lambda, ast.Global, ast.Nonlocal, ast.Delete, ast.Import, ast.ImportFrom,
                              ast.NamedExpr)):
                return True
        return False

    def is_local(self, st):
        """A statement that cannot touch the cache, the lock, the key, the
        factory variable or the control flow."""
        if self.mentions_sensitive(st):
            return False
        protected = set(x for x in (self.p_fn, self.p_ctx, self.K, self.F, self.R, 'self') if x)

        def target_ok(t):
            if isinstance(t, ast.Name):
                return t.id not in protected
            if isinstance(t, (ast.Attribute, ast.Subscript)):
                base = t
                while isinstance(base, (ast.Attribute, ast.Subscript)):
                    base = base.value
                return isinstance(base, ast.Name) and base.id not in ('self', self.p_fn, self.p_ctx, self.K, self.F)
            if isinstance(t, (ast.Tuple, ast.List)):
                return all(target_ok(x) for x in t.elts)
            return False
        if isinstance(st, ast.Assign):
            return all(target_ok(t) for t in st.targets)
        if isinstance(st, (ast.AugAssign, ast.AnnAssign)):
            return target_ok(st.target)
        if isinstance(st, ast.Expr):
            return True
        if isinstance(st, ast.If):
            return all(self.is_local(s) for s in st.body) and all(self.is_local(s) for s in st.orelse)
        if isinstance(st, (ast.Pass, ast.Assert)):
            return True
        return False

    def set_var(self, which, name, node):
        cur = getattr(self, which)
        if cur is None:
            setattr(self, which, name)
        elif cur != name:
            _fail(self.FNAME, node, 'two different variables play the role %s: %s and %s' % (which, cur, name))

    def check_instantiate(self, call):
        kws = dict((k.arg, k.value) for k in call.keywords)
        if call.args or set(kws) != {'globals_', 'closure', 'defaults', 'kwdefaults'}:
            _fail(self.FNAME, call, 'instantiate(...) argument list')

        def mentions_fn_attr(e, attr):
            for n in ast.walk(e):
                if isinstance(n, ast.Attribute) and n.attr == attr and _is_name(n.value, self.p_fn):
                    return True
                if isinstance(n, ast.Call) and _is_name(n.func, 'getattr') and len(n.args) >= 2 \
                        and _is_name(n.args[0], self.p_fn) and isinstance(n.args[1], ast.Constant) \
                        and n.args[1].value == attr:
                    return True
            return False

        def only_fn(e):
            for n in ast.walk(e):
                if isinstance(n, ast.Name) and n.id not in (self.p_fn, 'getattr'):
                    return False
            return True
        for kw, attr in (('globals_', '__globals__'), ('closure', '__closure__'), ('defaults', '__defaults__'),
                         ('kwdefaults', '__kwdefaults__')):
            if not (mentions_fn_attr(kws[kw], attr) and only_fn(kws[kw])):
                _fail(self.FNAME, kws[kw], 'instantiate(%s=...) is not taken from %s.%s' % (kw, self.p_fn, attr))

    # -- statements --------------------------------------------------------
    def block(self, stmts, top=False):
        out = []
        for idx, st in enumerate(stmts):
            if self.returned:
                _fail(self.FNAME, st, 'statement after return')
            if _is_logging_stmt(st):
                continue
            # key
            if isinstance(st, ast.Assign) and isinstance(st.value, ast.Call) \
                    and _is_self_attr(st.value.func, 'get_caching_key'):
                if not (top and self.K is None and not out and len(st.targets) == 1
                        and isinstance(st.targets[0], ast.Name)
                        and len(st.value.args) == 1 and _is_name(st.value.args[0], self.p_ctx)
                        and not st.value.keywords):
                    _fail(self.FNAME, st, 'get_caching_key(...) shape / position')
                self.K = st.targets[0].id
                continue
            if self.K is None:
                _fail(self.FNAME, st, 'statement before the caching key is computed')
            # `if True:` is its body
            if isinstance(st, ast.If) and isinstance(st.test, ast.Constant) and st.test.value is True and not st.orelse:
                out.extend(self.block(st.body))
                continue
            # if has
            if isinstance(st, ast.If):
                t = st.test
                neg = False
                if isinstance(t, ast.UnaryOp) and isinstance(t.op, ast.Not):
                    t, neg = t.operand, True
                if self.is_has(t):
                    saved = self.constructed
                    a = self.block(st.body)
                    self.constructed = saved
                    b = self.block(st.orelse)
                    self.constructed = saved
                    if self.returned:
                        _fail(self.FNAME, st, 'return inside a branch')
                    out.append('IIfHas [%s] [%s]' % (('; '.join(b), '; '.join(a)) if neg else ('; '.join(a), '; '.join(b))))
                    continue
            # with lock
            if isinstance(st, ast.With):
                if not (len(st.items) == 1 and st.items[0].optional_vars is None
                        and _is_self_attr(st.items[0].context_expr, '_cache_lock')):
                    _fail(self.FNAME, st, 'with statement other than `with self._cache_lock:`')
                body = self.block(st.body)
                if self.returned:
                    _fail(self.FNAME, st, 'return inside the lock region')
                out.append('ILock [%s]' % '; '.join(body))
                continue
            if isinstance(st, ast.Assign) and len(st.targets) == 1:
                tgt, val = st.targets[0], st.value
                # get
                if isinstance(tgt, ast.Name) and self.is_get(val):
                    self.set_var('F', tgt.id, st)
                    out.append('IGet')
                    continue
                # transform
                if self.is_super_transform(val):
                    if not (isinstance(tgt, ast.Tuple) and len(tgt.elts) == 2
                            and all(isinstance(x, ast.Name) for x in tgt.elts)):
                        _fail(self.FNAME, st, 'result of the parent transform_function is not unpacked into two names')
                    self.set_var('N', tgt.elts[0].id, st)
                    self.set_var('C', tgt.elts[1].id, st)
                    out.append('ITransform')
                    continue
                # factory constructor
                if isinstance(tgt, ast.Name) and isinstance(val, ast.Call) and _is_name(val.func, '_PythonFnFactory'):
                    self.set_var('F', tgt.id, st)
                    self.constructed = True
                    continue
                # put
                if self.is_cache_item(tgt):
                    if not (self.F and _is_name(val, self.F)):
                        _fail(self.FNAME, st, 'value stored in the cache is not the factory variable')
                    out.append('IPut')
                    continue
                # instantiate
                if isinstance(tgt, ast.Name) and isinstance(val, ast.Call) and isinstance(val.func, ast.Attribute) \
                        and val.func.attr == 'instantiate':
                    if not (self.F and _is_name(val.func.value, self.F)):
                        _fail(self.FNAME, st, 'instantiate called on something else than the factory variable')
                    self.check_instantiate(val)
                    self.set_var('R', tgt.id, st)
                    out.append('IInstantiate')
                    continue
            # create
            if isinstance(st, ast.Expr) and isinstance(st.value, ast.Call) and isinstance(st.value.func, ast.Attribute) \
                    and st.value.func.attr == 'create':
                c = st.value
                if not (self.F and _is_name(c.func.value, self.F) and self.constructed):
                    _fail(self.FNAME, st, 'create() on something that is not a freshly constructed factory')
                if not (c.args and self.N and _is_name(c.args[0], self.N)):
                    _fail(self.FNAME, st, 'create() is not given the transformed nodes')
                self.constructed = False
                out.append('ICreate')
                continue
            # return
            if isinstance(st, ast.Return):
                v = st.value
                ok = top and idx == len(stmts) - 1 and self.R and (
                    _is_name(v, self.R) or (isinstance(v, ast.Tuple) and v.elts and _is_name(v.elts[0], self.R)))
                if not ok:
                    _fail(self.FNAME, st, 'return shape / position')
                if isinstance(v, ast.Tuple):
                    for e in v.elts[1:]:
                        if not (isinstance(e, ast.Attribute) and self.F and _is_name(e.value, self.F)):
                            _fail(self.FNAME, st, 'returned tuple element is not an attribute of the factory')
                self.returned = True
                continue
            if self.is_local(st):
                continue
            _fail(self.FNAME, st, 'unrecognised statement: ' + ast.unparse(st).split('\n')[0][:80])
        if self.constructed and not top:
            pass
        return out


def _allowlist_exits(atree):
    """Every call of _call_unconverted in api.converted_call / _fall_back_unconverted:
    (guard depends on the calling context, writes the allowlist cache, description)."""
    fns = dict((n.name, n) for n in atree.body if isinstance(n, ast.FunctionDef))
    for need in ('converted_call', '_call_unconverted', '_fall_back_unconverted'):
        if need not in fns:
            raise Untranslatable('untranslatable: api.py: function %s not found' % need)
    cu = fns['_call_unconverted']
    params = [a.arg for a in cu.args.args]
    if params != ['f', 'args', 'kwargs', 'options', 'update_cache'] or len(cu.args.defaults) != 1 \
            or not (isinstance(cu.args.defaults[0], ast.Constant) and isinstance(cu.args.defaults[0].value, bool)):
        _fail('api.py', cu, '_call_unconverted signature')
    default = cu.args.defaults[0].value
    body = _nodoc(cu.body)
    first = body[0] if body else None
    if not (isinstance(first, ast.If) and _is_name(first.test, 'update_cache') and not first.orelse
            and [ast.unparse(x) for x in first.body] == ['conversion.cache_allowlisted(f, options)']):
        _fail('api.py', cu, '_call_unconverted does not start with `if update_cache: conversion.cache_allowlisted(f, options)`')
    for n in ast.walk(atree):
        if isinstance(n, ast.Attribute) and n.attr == 'cache_allowlisted':
            inside = any(n is m for m in ast.walk(cu))
            if not inside:
                _fail('api.py', n, 'the allowlist cache is written outside _call_unconverted')
    for st in body[1:]:
        for n in ast.walk(st):
            if isinstance(n, ast.Attribute) and n.attr == 'cache_allowlisted':
                _fail('api.py', n, 'second write of the allowlist cache in _call_unconverted')
    sites = []

    def ctx_dep(test):
        return any((isinstance(n, ast.Name) and n.id == 'ag_ctx') or
                   (isinstance(n, ast.Attribute) and n.attr in ('control_status_ctx', 'Status', 'status'))
                   for n in ast.walk(test))

    def visit(stmts, guards):
        for st in stmts:
            if isinstance(st, ast.If):
                visit(st.body, guards + [st.test])
                visit(st.orelse, guards + [st.test])
            elif isinstance(st, ast.Try):
                visit(st.body, guards)
                for h in st.handlers:
                    visit(h.body, guards)
                visit(st.orelse, guards)
                visit(st.finalbody, guards)
            elif isinstance(st, (ast.With, ast.For, ast.While)):
                visit(st.body, guards)
                visit(getattr(st, 'orelse', []), guards)
            elif isinstance(st, (ast.FunctionDef, ast.ClassDef)):
                _fail('api.py', st, 'nested definition in converted_call')
            else:
                for n in ast.walk(st):
                    if isinstance(n, ast.Call) and _is_name(n.func, '_call_unconverted'):
                        upd = None
                        if len(n.args) >= 5:
                            upd = n.args[4]
                        for kw in n.keywords:
                            if kw.arg == 'update_cache':
                                upd = kw.value
                            elif kw.arg is None:
                                _fail('api.py', n, '**kwargs in a _call_unconverted call')
                        if upd is None:
                            val = default
                        elif isinstance(upd, ast.Constant) and isinstance(upd.value, bool):
                            val = upd.value
                        else:
                            _fail('api.py', n, 'update_cache argument of _call_unconverted is not a literal')
                        dep = any(ctx_dep(g) for g in guards)
                        why = ast.unparse(guards[-1])[:70] if guards else 'unconditional'
                        sites.append((dep, val, 'line %d, under `%s`' % (n.lineno, why)))
    visit(_nodoc(fns['converted_call'].body), [])
    visit(_nodoc(fns['_fall_back_unconverted'].body), [])
    if not any(d for d, _, _ in sites):
        _fail('api.py', fns['converted_call'], 'the "AutoGraph is disabled in context" exit of converted_call was not found')
    return sites


def _require_pure(fn, fname, allowed_globals):
    """The method computes a value from its arguments only: no module-level
    (or other non-local) name is read except the listed classes, nothing but
    local names is assigned, no mutating method is called."""
    params = set(a.arg for a in fn.args.args + fn.args.kwonlyargs)
    local = set(params)
    for n in ast.walk(fn):
        if isinstance(n, (ast.Global, ast.Nonlocal)):
            _fail(fname, n, '%s declares global/nonlocal state' % fn.name)
        if isinstance(n, ast.Name) and isinstance(n.ctx, ast.Store):
            local.add(n.id)
    for n in ast.walk(fn):
        if isinstance(n, ast.Name) and isinstance(n.ctx, ast.Load) and n.id not in local and n.id not in allowed_globals:
            _fail(fname, n, '%s reads the non-local name `%s`: the sub-key handed to callees / the caching key must be '
                  'a pure function of the options' % (fn.name, n.id))
        if isinstance(n, (ast.Subscript, ast.Attribute)) and isinstance(n.ctx, (ast.Store, ast.Del)):
            _fail(fname, n, '%s mutates state (%s)' % (fn.name, ast.unparse(n)[:50]))
        if isinstance(n, ast.Attribute) and n.attr in ('setdefault', 'update', 'append', 'add', 'pop', 'clear', 'extend',
                                                       'insert', 'remove', '__setitem__', '__dict__'):
            _fail(fname, n, '%s calls a mutating / reflective method (%s)' % (fn.name, n.attr))
        if isinstance(n, (ast.Yield, ast.YieldFrom, ast.Await, ast.Lambda, ast.FunctionDef)) and n is not fn:
            _fail(fname, n, '%s contains a nested scope' % fn.name)


_IMMUTABLE_CALLS = ('threading.Lock', 'threading.RLock', 'frozenset', 're.compile', 'tuple', 'object')


def _require_stateless(tree, fname, func_names):
    """The listed module-level functions keep no memo: every module-level name
    of their own file they touch is a function / class / import or is bound
    once to an immutable value (constant, frozenset, compiled regex, lock);
    they declare no global and store into nothing but their locals."""
    defs, imports, immut, other = set(), set(), set(), {}
    for n in tree.body:
        if isinstance(n, (ast.FunctionDef, ast.ClassDef)):
            defs.add(n.name)
        elif isinstance(n, (ast.Import, ast.ImportFrom)):
            for a in n.names:
                imports.add((a.asname or a.name).split('.')[0])
        elif isinstance(n, (ast.Assign, ast.AnnAssign, ast.AugAssign)):
            targets = n.targets if isinstance(n, ast.Assign) else [n.target]
            v = n.value
            ok = isinstance(v, ast.Constant) or isinstance(v, ast.Attribute) \
                or (isinstance(v, ast.Call) and ast.unparse(v.func) in _IMMUTABLE_CALLS) \
                or (isinstance(v, ast.Call) and isinstance(v.func, ast.Attribute) and isinstance(v.func.value, ast.Name)
                    and v.func.value.id in immut)
            for t in targets:
                for x in ast.walk(t):
                    if isinstance(x, ast.Name):
                        if ok and not isinstance(n, ast.AugAssign) and x.id not in other:
                            immut.add(x.id)
                        else:
                            immut.discard(x.id)
                            other[x.id] = n.lineno
    fns = dict((n.name, n) for n in tree.body if isinstance(n, ast.FunctionDef))
    for name in func_names:
        if name not in fns:
            raise Untranslatable('untranslatable: %s: function %s not found' % (fname, name))
        fn = fns[name]
        local = set(a.arg for a in fn.args.args + fn.args.kwonlyargs)
        if fn.args.vararg:
            local.add(fn.args.vararg.arg)
        if fn.args.kwarg:
            local.add(fn.args.kwarg.arg)
        for n in ast.walk(fn):
            if isinstance(n, (ast.Global, ast.Nonlocal)):
                _fail(fname, n, '%s declares global state' % name)
            if isinstance(n, ast.Name) and isinstance(n.ctx, ast.Store):
                local.add(n.id)
            if isinstance(n, ast.ExceptHandler) and n.name:
                local.add(n.name)
        for n in ast.walk(fn):
            if isinstance(n, ast.Name) and n.id in other and n.id not in local:
                _fail(fname, n, '%s uses the module-level mutable state `%s` (bound at line %d): source recovery on the '
                      'request path must not keep a memo below the conversion cache' % (name, n.id, other[n.id]))
            if isinstance(n, (ast.Subscript, ast.Attribute)) and isinstance(n.ctx, (ast.Store, ast.Del)):
                base = n
                while isinstance(base, (ast.Subscript, ast.Attribute)):
                    base = base.value
                if not (isinstance(base, ast.Name) and base.id in local):
                    _fail(fname, n, '%s stores into non-local state (%s)' % (name, ast.unparse(n)[:50]))
        for d in fn.decorator_list:
            _fail(fname, d, '%s is decorated (%s): possible memoisation' % (name, ast.unparse(d)[:40]))


def _key_chain(gk, fname):
    """UnboundInstanceCache._get_key as the chain of projections applied, in
    order, to the callable: PFunc (`__func__` of a bound method), PWrapped
    (`getattr(e, '__wrapped__', e)`), PCode (`getattr(e, '__code__', e)` /
    the hasattr form).  Fail closed on anything else."""
    params = [a.arg for a in gk.args.args]
    if len(params) != 2 or params[0] != 'self' or gk.args.vararg or gk.args.kwarg or gk.args.kwonlyargs \
            or gk.args.defaults or gk.decorator_list:
        _fail(fname, gk, '_get_key signature')
    ent = params[1]

    def is_ismethod(t):
        return isinstance(t, ast.Call) and ast.unparse(t.func) in ('inspect.ismethod', 'tf_inspect.ismethod') \
            and len(t.args) == 1 and _is_name(t.args[0], ent) and not t.keywords

    def is_func(e):
        return isinstance(e, ast.Attribute) and e.attr == '__func__' and _is_name(e.value, ent)

    def proj(e, node):
        if _is_name(e, ent):
            return []
        if isinstance(e, ast.Call) and _is_name(e.func, 'getattr') and len(e.args) == 3 and not e.keywords \
                and _is_name(e.args[0], ent) and _is_name(e.args[2], ent) and isinstance(e.args[1], ast.Constant):
            if e.args[1].value == '__wrapped__':
                return ['PWrapped']
            if e.args[1].value == '__code__':
                return ['PCode']
            if e.args[1].value == '__func__':
                return ['PFunc']
        _fail(fname, node, '_get_key: unrecognised key expression `%s`' % ast.unparse(e)[:60])

    def has_attr_test(t, attr):
        return isinstance(t, ast.Call) and _is_name(t.func, 'hasattr') and len(t.args) == 2 and _is_name(t.args[0], ent) \
            and isinstance(t.args[1], ast.Constant) and t.args[1].value == attr
    chain = []
    body = _nodoc(gk.body)
    for idx, st in enumerate(body):
        last = idx == len(body) - 1
        rest = body[idx + 1:]
        if isinstance(st, ast.If) and is_ismethod(st.test) and not st.orelse and len(st.body) == 1:
            b = st.body[0]
            if isinstance(b, ast.Assign) and len(b.targets) == 1 and _is_name(b.targets[0], ent) and is_func(b.value):
                chain.append('PFunc')
                continue
            if isinstance(b, ast.Return) and is_func(b.value):
                # early return: only the same thing as the sequential form when nothing else is applied afterwards
                if len(rest) == 1 and isinstance(rest[0], ast.Return) and _is_name(rest[0].value, ent):
                    chain.append('PFunc')
                    continue
                _fail(fname, st, '_get_key: early return for bound methods followed by further projections')
        if isinstance(st, ast.If) and len(st.body) == 1 and isinstance(st.body[0], ast.Return):
            # `if hasattr(e, A): return e.A [else: return e]`
            r = st.body[0].value
            for attr, pj in (('__code__', 'PCode'), ('__wrapped__', 'PWrapped')):
                if has_attr_test(st.test, attr) and isinstance(r, ast.Attribute) and r.attr == attr and _is_name(r.value, ent):
                    tail = st.orelse if st.orelse else rest
                    if len(tail) == 1 and isinstance(tail[0], ast.Return) and _is_name(tail[0].value, ent) \
                            and (st.orelse == [] or last):
                        chain.append(pj)
                        return chain
        if isinstance(st, ast.Assign) and len(st.targets) == 1 and _is_name(st.targets[0], ent):
            chain.extend(proj(st.value, st))
            continue
        if isinstance(st, ast.Return) and last:
            chain.extend(proj(st.value, st))
            return chain
        _fail(fname, st, '_get_key: unrecognised statement `%s`' % ast.unparse(st).split('\n')[0][:70])
    _fail(fname, gk, '_get_key does not end in a return')


def _allowlist_cache_shape(repo, ctree, atree):
    """conversion._ALLOWLIST_CACHE is one UnboundInstanceCache, read by
    is_in_allowlist_cache(entity, options) and written by
    cache_allowlisted(entity, options) only, both keyed by the callable and the
    options exactly as converted_call hands them over.  -> the key chain"""
    uic = _find_class(ctree, 'UnboundInstanceCache', 'cache.py')
    if [ast.unparse(b) for b in uic.bases] != ['_TransformedFnCache']:
        _fail('cache.py', uic, 'UnboundInstanceCache base class')
    for m in uic.body:
        if isinstance(m, ast.FunctionDef) and m.name != '_get_key':
            _fail('cache.py', m, 'UnboundInstanceCache overrides %s' % m.name)
    chain = _key_chain(_find_method(uic, '_get_key', 'cache.py'), 'cache.py')
    path = os.path.join(repo, 'malt', 'impl', 'conversion.py')
    with open(path) as f:
        vtree = ast.parse(f.read())
    binds = [n for n in ast.walk(vtree) if isinstance(n, ast.Name) and n.id == '_ALLOWLIST_CACHE' and isinstance(n.ctx, ast.Store)]
    top = [n for n in vtree.body if isinstance(n, ast.Assign) and len(n.targets) == 1 and _is_name(n.targets[0], '_ALLOWLIST_CACHE')]
    if len(binds) != 1 or len(top) != 1 or ast.unparse(top[0].value) != 'cache.UnboundInstanceCache()':
        _fail('conversion.py', top[0] if top else vtree, '_ALLOWLIST_CACHE is not bound once to cache.UnboundInstanceCache()')
    fns = dict((n.name, n) for n in vtree.body if isinstance(n, ast.FunctionDef))
    want = {'is_in_allowlist_cache': ['try:\n    return _ALLOWLIST_CACHE.has(entity, options)\nexcept TypeError:\n    return False'],
            'cache_allowlisted': ['try:\n    _ALLOWLIST_CACHE[entity][options] = True\nexcept TypeError:\n    pass']}
    for name, body in want.items():
        if name not in fns:
            raise Untranslatable('untranslatable: conversion.py: function %s not found' % name)
        fn = fns[name]
        if [a.arg for a in fn.args.args] != ['entity', 'options'] or fn.decorator_list \
                or [ast.unparse(s) for s in _nodoc(fn.body)] != body:
            _fail('conversion.py', fn, '%s shape' % name)
    for n in ast.walk(vtree):
        if isinstance(n, ast.Name) and n.id == '_ALLOWLIST_CACHE' and isinstance(n.ctx, ast.Load):
            if not any(n is m for name in want for m in ast.walk(fns[name])):
                _fail('conversion.py', n, '_ALLOWLIST_CACHE is used outside is_in_allowlist_cache / cache_allowlisted')
    # api.py reads / writes it with exactly (f, options) of the request
    afns = dict((n.name, n) for n in atree.body if isinstance(n, ast.FunctionDef))
    for n in ast.walk(atree):
        if isinstance(n, ast.Attribute) and n.attr == '_ALLOWLIST_CACHE':
            _fail('api.py', n, 'api.py touches conversion._ALLOWLIST_CACHE directly')
        if isinstance(n, ast.Call) and isinstance(n.func, ast.Attribute) and n.func.attr in ('is_in_allowlist_cache', 'cache_allowlisted'):
            if [ast.unparse(a) for a in n.args] != ['f', 'options'] or n.keywords:
                _fail('api.py', n, '%s is not called with (f, options)' % n.func.attr)
    for name in ('converted_call', '_fall_back_unconverted', '_call_unconverted'):
        fn = afns.get(name)
        if fn is None:
            continue
        for n in ast.walk(fn):
            if isinstance(n, ast.Name) and isinstance(n.ctx, ast.Store) and n.id == 'f':
                _fail('api.py', n, '%s rebinds its parameter f (the allowlist cache would be asked about another object)' % name)
    return chain


_REQUEST_PATH = ('to_graph', 'convert', 'converted_call', '_call_unconverted', '_fall_back_unconverted',
                 'autograph_artifact', 'is_autograph_artifact')


def _entry_funnel(atree, ttree, key_src, key_chain):
    """api._convert_actual -- the one funnel through which to_graph, the convert
    wrappers and (recursive) converted_call obtain a converted function -- as a
    value of MV.Cache.Entry.funnel:

      FDirect      guards (if ...: raise), R[, m, sm] = _TRANSPILER.transform(entity, ctx), asserts,
                   `R.attr = <name unpacked from the transform result>`, return R
      FMemo ks ss  the same around a memo of the RESULT: `if M.has(entity, X): return M[entity][X]` before and
                   `M[entity][X] = R` after the transform, M a module-level cache.UnboundInstanceCache() (ks = the
                   function object) or cache.CodeObjectCache() (ks = the generated key source), X = ctx.options
                   (SubOptions) / ctx.options.<field> (SubOptionsField) / a constant (SubConstant)

    and the requirement that nothing else on the request path of api.py keeps
    state: the other entry functions use no module-level mutable name, the
    transpiler instance is used by the funnel only, GenericTranspiler.transform
    just dispatches to transform_function.  Fail closed on anything else."""
    fns = dict((n.name, n) for n in atree.body if isinstance(n, ast.FunctionDef))
    ca = fns.get('_convert_actual')
    if ca is None:
        raise Untranslatable('untranslatable: api.py: function _convert_actual not found')
    a = ca.args
    if a.vararg or a.kwarg or a.kwonlyargs or a.posonlyargs or a.defaults or len(a.args) != 2 or ca.decorator_list:
        _fail('api.py', ca, '_convert_actual signature / decorators')
    ent, ctx = [x.arg for x in a.args]
    # module-level bindings of api.py
    bound = collections.Counter()
    values = {}
    for n in ast.walk(atree):
        if isinstance(n, ast.Name) and isinstance(n.ctx, (ast.Store, ast.Del)):
            bound[n.id] += 1
    for n in atree.body:
        if isinstance(n, ast.Assign) and len(n.targets) == 1 and isinstance(n.targets[0], ast.Name):
            values[n.targets[0].id] = n.value
    for n in ast.walk(atree):
        if isinstance(n, (ast.Global, ast.Nonlocal)) and any(x in values for x in n.names):
            _fail('api.py', n, 'global/nonlocal rebinding of a module-level name')

    def module_const(name, texts):
        return name in values and bound[name] == 1 and ast.unparse(values[name]) in texts
    transpilers = [k for k in values if module_const(k, ('PyToPy()',))]
    if transpilers != ['_TRANSPILER']:
        _fail('api.py', atree, 'the transpiler instance is not bound once as `_TRANSPILER = PyToPy()`')

    def is_ent(e):
        return _is_name(e, ent)

    def subkey(e, node):
        if isinstance(e, ast.Attribute) and _is_name(e.value, ctx) and e.attr == 'options':
            return 'SubOptions'
        if isinstance(e, ast.Attribute) and isinstance(e.value, ast.Attribute) and _is_name(e.value.value, ctx) \
                and e.value.attr == 'options':
            return 'SubOptionsField'
        if isinstance(e, ast.Constant):
            return 'SubConstant'
        _fail('api.py', node, '_convert_actual: memo sub-key `%s` is not ctx.options / a field of it / a constant' % ast.unparse(e)[:50])

    def memo_of(name, node):
        if module_const(name, ('cache.UnboundInstanceCache()',)):
            if key_chain != ['PFunc']:
                _fail('api.py', node, 'memo keyed by UnboundInstanceCache whose key is not the function object')
            return 'KeyEntity'
        if module_const(name, ('cache.CodeObjectCache()',)):
            return key_src
        _fail('api.py', node, '_convert_actual uses `%s`, which is not a module-level cache.UnboundInstanceCache() / '
              'cache.CodeObjectCache() bound once' % name)
    memo = {'read': None, 'write': None}
    R = None
    unpacked = []
    returned = False
    body = _nodoc(ca.body)
    for idx, st in enumerate(body):
        if returned:
            _fail('api.py', st, '_convert_actual: statement after return')
        if _is_logging_stmt(st):
            continue
        # guard: if <test over entity only>: raise
        if isinstance(st, ast.If) and not st.orelse and all(isinstance(x, ast.Raise) for x in st.body) \
                and all(n.id in (ent, 'hasattr', 'callable', 'isinstance', 'inspect', 'types') for n in ast.walk(st.test) if isinstance(n, ast.Name)):
            continue
        if isinstance(st, ast.Assert):
            if any(isinstance(n, (ast.Call,)) and not (_is_name(n.func, 'hasattr') or _is_name(n.func, 'isinstance')) for n in ast.walk(st)):
                _fail('api.py', st, '_convert_actual: assert with a call')
            continue
        # memo read
        if isinstance(st, ast.If) and not st.orelse and len(st.body) == 1 and isinstance(st.body[0], ast.Return) \
                and isinstance(st.test, ast.Call) and isinstance(st.test.func, ast.Attribute) and st.test.func.attr == 'has' \
                and isinstance(st.test.func.value, ast.Name) and R is None and memo['read'] is None:
            m = st.test.func.value.id
            t, r = st.test, st.body[0].value
            if not (len(t.args) == 2 and not t.keywords and is_ent(t.args[0])):
                _fail('api.py', st, '_convert_actual: memo probed with something else than (entity, sub-key)')
            if not (isinstance(r, ast.Subscript) and isinstance(r.value, ast.Subscript) and _is_name(r.value.value, m)
                    and is_ent(r.value.slice) and ast.dump(r.slice) == ast.dump(t.args[1])):
                _fail('api.py', st, '_convert_actual: memo hit does not return M[entity][sub-key]')
            memo['read'] = (m, memo_of(m, st), subkey(t.args[1], st), ast.dump(t.args[1]))
            continue
        # the transform
        if isinstance(st, ast.Assign) and len(st.targets) == 1 and isinstance(st.value, ast.Call) \
                and isinstance(st.value.func, ast.Attribute) and _is_name(st.value.func.value, '_TRANSPILER'):
            c = st.value
            if R is not None or c.func.attr != 'transform' or c.keywords or len(c.args) != 2 \
                    or not is_ent(c.args[0]) or not _is_name(c.args[1], ctx):
                _fail('api.py', st, '_convert_actual: not exactly one `_TRANSPILER.transform(%s, %s)`' % (ent, ctx))
            t = st.targets[0]
            if isinstance(t, ast.Name):
                R = t.id
            elif isinstance(t, ast.Tuple) and t.elts and all(isinstance(x, ast.Name) for x in t.elts):
                R = t.elts[0].id
                unpacked = [x.id for x in t.elts[1:]]
            else:
                _fail('api.py', st, '_convert_actual: result of transform is not bound to names')
            if R in (ent, ctx) or set(unpacked) & {ent, ctx, R}:
                _fail('api.py', st, '_convert_actual: transform result rebinds a parameter')
            continue
        # R.attr = <unpacked name>
        if isinstance(st, ast.Assign) and len(st.targets) == 1 and isinstance(st.targets[0], ast.Attribute) \
                and R is not None and _is_name(st.targets[0].value, R) and isinstance(st.value, ast.Name) \
                and st.value.id in unpacked:
            continue
        # memo write
        if isinstance(st, ast.Assign) and len(st.targets) == 1 and isinstance(st.targets[0], ast.Subscript) \
                and isinstance(st.targets[0].value, ast.Subscript) and isinstance(st.targets[0].value.value, ast.Name) \
                and R is not None and memo['write'] is None:
            t = st.targets[0]
            m = t.value.value.id
            if not (is_ent(t.value.slice) and _is_name(st.value, R)):
                _fail('api.py', st, '_convert_actual: memo written with something else than M[entity][sub-key] = result')
            memo['write'] = (m, memo_of(m, st), subkey(t.slice, st), ast.dump(t.slice))
            continue
        if isinstance(st, ast.Return):
            if not (R is not None and _is_name(st.value, R) and idx == len(body) - 1):
                _fail('api.py', st, '_convert_actual: return shape / position')
            returned = True
            continue
        _fail('api.py', st, '_convert_actual: unrecognised statement: ' + ast.unparse(st).split('\n')[0][:80])
    if not returned or R is None:
        _fail('api.py', ca, '_convert_actual does not end in `return <result of _TRANSPILER.transform>`')
    if (memo['read'] is None) != (memo['write'] is None) or (memo['read'] and memo['read'] != memo['write']):
        _fail('api.py', ca, '_convert_actual: memo read and memo write do not match')
    # the transpiler instance is used by the funnel only; the funnel is called with two positional arguments
    inside = set(id(n) for n in ast.walk(ca))
    for n in ast.walk(atree):
        if isinstance(n, ast.Name) and n.id == '_TRANSPILER' and isinstance(n.ctx, ast.Load) and id(n) not in inside:
            _fail('api.py', n, '_TRANSPILER is used outside _convert_actual')
        if isinstance(n, ast.Call) and _is_name(n.func, '_convert_actual') and (len(n.args) != 2 or n.keywords):
            _fail('api.py', n, '_convert_actual is not called with (entity, program_ctx)')
        if isinstance(n, ast.Name) and n.id == '_convert_actual' and isinstance(n.ctx, ast.Store):
            _fail('api.py', n, '_convert_actual is rebound')
    for d in atree.body:
        if isinstance(d, ast.FunctionDef) and d.name == '_convert_actual' and d is not ca:
            _fail('api.py', d, '_convert_actual defined twice')
    # nothing else on the request path keeps state
    _require_stateless(atree, 'api.py', _REQUEST_PATH)
    # transpiler.py: transform only dispatches
    gt = _find_class(ttree, 'GenericTranspiler', 'transpiler.py')
    tr = _find_method(gt, 'transform', 'transpiler.py')
    tb = _nodoc(tr.body)
    if [x.arg for x in tr.args.args] != ['self', 'obj', 'user_context'] or tr.decorator_list or not tb or \
            ast.unparse(tb[0]) != 'if inspect.isfunction(obj) or inspect.ismethod(obj):\n    return self.transform_function(obj, user_context)' \
            or not all(isinstance(x, ast.Raise) for x in tb[1:]):
        _fail('transpiler.py', tr, 'GenericTranspiler.transform is not a plain dispatch to transform_function(obj, user_context)')
    if _find_method(_find_class(ttree, 'PyToPy', 'transpiler.py'), 'transform', 'transpiler.py', required=False) is not None:
        _fail('transpiler.py', tr, 'PyToPy overrides transform')
    if memo['read'] is None:
        return 'FDirect'
    return 'FMemo %s %s' % (memo['read'][1], memo['read'][2])


def translate(repo):
    # ---- transpiler.py
    path = os.path.join(repo, 'malt', 'pyct', 'transpiler.py')
    with open(path) as f:
        tree = ast.parse(f.read())
    cls = _find_class(tree, 'PyToPy', 'transpiler.py')
    init = _find_method(cls, '__init__', 'transpiler.py')
    lock_ok = cache_ok = False
    for st in _nodoc(init.body):
        if isinstance(st, ast.Assign) and len(st.targets) == 1:
            if _is_self_attr(st.targets[0], '_cache_lock'):
                if ast.unparse(st.value) != 'threading.RLock()':
                    _fail('transpiler.py', st, '_cache_lock is not a threading.RLock()')
                lock_ok = True
            elif _is_self_attr(st.targets[0], '_cache'):
                if ast.unparse(st.value) != 'cache.CodeObjectCache()':
                    _fail('transpiler.py', st, '_cache is not a cache.CodeObjectCache()')
                cache_ok = True
    if not (lock_ok and cache_ok):
        _fail('transpiler.py', init, 'PyToPy.__init__ does not create _cache_lock and _cache')
    # helper that reads the cache
    get_method = None
    cf = _find_method(cls, '_cached_factory', 'transpiler.py', required=False)
    if cf is not None:
        a = [x.arg for x in cf.args.args]
        body = [s for s in _nodoc(cf.body) if not _is_logging_stmt(s)]
        ok = len(a) == 3 and a[0] == 'self'

        def item(e):
            return (isinstance(e, ast.Subscript) and isinstance(e.value, ast.Subscript)
                    and _is_self_attr(e.value.value, '_cache') and _is_name(e.value.slice, a[1])
                    and _is_name(e.slice, a[2]))
        if ok and len(body) == 1 and isinstance(body[0], ast.Return) and item(body[0].value):
            pass
        elif ok and len(body) == 2 and isinstance(body[0], ast.Assign) and len(body[0].targets) == 1 \
                and isinstance(body[0].targets[0], ast.Name) and item(body[0].value) \
                and isinstance(body[1], ast.Return) and _is_name(body[1].value, body[0].targets[0].id):
            pass
        else:
            _fail('transpiler.py', cf, '_cached_factory is not `return self._cache[fn][subkey]`')
        get_method = '_cached_factory'
    tf = _find_method(cls, 'transform_function', 'transpiler.py')
    t = _TF(cls, tf, get_method)
    prog = t.block(_nodoc(tf.body), top=True)
    if not t.returned:
        _fail('transpiler.py', tf, 'transform_function does not end in a return')

    # ---- cache.py
    path = os.path.join(repo, 'malt', 'pyct', 'cache.py')
    with open(path) as f:
        ctree = ast.parse(f.read())
    base = _find_class(ctree, '_TransformedFnCache', 'cache.py')
    coc = _find_class(ctree, 'CodeObjectCache', 'cache.py')
    if [ast.unparse(b) for b in coc.bases] != ['_TransformedFnCache']:
        _fail('cache.py', coc, 'CodeObjectCache base class')
    for m in coc.body:
        if isinstance(m, ast.FunctionDef) and m.name != '_get_key':
            _fail('cache.py', m, 'CodeObjectCache overrides %s' % m.name)
    binit = _find_method(base, '__init__', 'cache.py')
    if [ast.unparse(s) for s in _nodoc(binit.body)] != ['self._cache = weakref.WeakKeyDictionary()']:
        _fail('cache.py', binit, '_TransformedFnCache.__init__ shape')
    has = _find_method(base, 'has', 'cache.py')
    # the lock-free probe must be read-only: no path through __getitem__ (which creates buckets), no store
    for n in ast.walk(has):
        writes = (isinstance(n, ast.Subscript) and (_is_name(n.value, 'self') or isinstance(n.ctx, (ast.Store, ast.Del)))) \
            or (isinstance(n, ast.Attribute) and n.attr in ('__getitem__', '__setitem__', 'setdefault', 'pop', 'update', 'clear')) \
            or isinstance(n, (ast.Delete, ast.AugAssign)) \
            or (isinstance(n, ast.Assign) and any(not isinstance(t, ast.Name) for t in n.targets))
        if writes:
            _fail('cache.py', n, 'has() is not read-only (it can write the cache: %s); PyToPy.transform_function calls it '
                  'outside the lock, where the machine (IIfHas) assumes an atomic read' % ast.unparse(n)[:60])
    want_has = ['key = self._get_key(entity)', 'parent = self._cache.get(key, None)',
                'if parent is None:\n    return False', 'return subkey in parent']
    if [x.arg for x in has.args.args] != ['self', 'entity', 'subkey'] or \
            [ast.unparse(s) for s in _nodoc(has.body)] != want_has:
        _fail('cache.py', has, '_TransformedFnCache.has shape')
    gi = _find_method(base, '__getitem__', 'cache.py')
    want_gi = ['key = self._get_key(entity)', 'parent = self._cache.get(key, None)',
               'if parent is None:\n    self._cache[key] = parent = {}', 'return parent']
    if [x.arg for x in gi.args.args] != ['self', 'entity'] or \
            [ast.unparse(s) for s in _nodoc(gi.body)] != want_gi:
        _fail('cache.py', gi, '_TransformedFnCache.__getitem__ shape')
    gk = _find_method(coc, '_get_key', 'cache.py')
    gsrc = [ast.unparse(s) for s in _nodoc(gk.body)]
    if gsrc == ["if hasattr(entity, '__code__'):\n    return entity.__code__\nelse:\n    return entity"] or \
            gsrc == ["if hasattr(entity, '__code__'):\n    return entity.__code__", 'return entity']:
        key_src = 'KeyCodeObject'
    elif gsrc == ['return entity']:
        key_src = 'KeyEntity'
    else:
        _fail('cache.py', gk, 'CodeObjectCache._get_key shape')

    # ---- api.py
    path = os.path.join(repo, 'malt', 'impl', 'api.py')
    with open(path) as f:
        atree = ast.parse(f.read())
    acls = _find_class(atree, 'PyToPy', 'api.py')
    if [ast.unparse(b) for b in acls.bases] != ['transpiler.PyToPy']:
        _fail('api.py', acls, 'PyToPy base class')
    for m in acls.body:
        if isinstance(m, ast.FunctionDef) and m.name in ('transform_function', '_cached_factory', 'transform'):
            _fail('api.py', m, 'api.PyToPy overrides %s' % m.name)
    ck = _find_method(acls, 'get_caching_key', 'api.py')
    params = [x.arg for x in ck.args.args]
    body = _nodoc(ck.body)
    if not (len(params) == 2 and len(body) == 1 and isinstance(body[0], ast.Return)):
        _fail('api.py', ck, 'get_caching_key shape')
    v = body[0].value
    if isinstance(v, ast.Attribute) and _is_name(v.value, params[1]) and v.attr == 'options':
        sub_src = 'SubOptions'
    elif isinstance(v, ast.Attribute) and isinstance(v.value, ast.Attribute) and _is_name(v.value.value, params[1]) \
            and v.value.attr == 'options':
        sub_src = 'SubOptionsField'
    elif isinstance(v, ast.Constant):
        sub_src = 'SubConstant'
    else:
        _fail('api.py', ck, 'get_caching_key returns something else than ctx.options')

    exits = _allowlist_exits(atree)
    key_chain = _allowlist_cache_shape(repo, ctree, atree)
    funnel = _entry_funnel(atree, tree, key_src, key_chain)
    # purity of the two functions that produce cache sub-keys
    _require_pure(ck, 'api.py', {'converter'})
    path = os.path.join(repo, 'malt', 'core', 'converter.py')
    with open(path) as f:
        vtree = ast.parse(f.read())
    ocls = _find_class(vtree, 'ConversionOptions', 'converter.py')
    _require_pure(_find_method(ocls, 'call_options', 'converter.py'), 'converter.py', {'ConversionOptions', 'Feature'})
    # source recovery on the request path keeps no state of its own
    for fn_, names in (('inspect_utils.py', ('getimmediatesource',)), ('parser.py', ('parse_entity', 'dedent_block', 'parse'))):
        with open(os.path.join(repo, 'malt', 'pyct', fn_)) as f:
            _require_stateless(ast.parse(f.read()), fn_, names)
    for m in ('as_tuple', '__hash__', '__eq__'):
        _require_pure(_find_method(ocls, m, 'converter.py'), 'converter.py', {'ConversionOptions', 'Feature', 'hash', 'isinstance'})

    out = ['(* GENERATED on every run by tools/translate/c10_cache.py from malt/pyct/transpiler.py,',
           '   malt/pyct/cache.py and malt/impl/api.py -- do not edit *)',
           'From Coq Require Import List.',
           'Import ListNotations.',
           'Require Import MV.Cache.Machine MV.Cache.KeySrc MV.Cache.Allowlist MV.Cache.Entry.',
           '(* PyToPy.transform_function *)',
           'Definition transform_function_prog : prog :=',
           '  [%s].' % '; '.join(prog),
           '(* CodeObjectCache._get_key *)',
           'Definition cache_key_src : key_src := %s.' % key_src,
           '(* _TransformedFnCache.has only reads (no __getitem__, no store): checked by the translator *)',
           'Definition cache_has_read_only : bool := true.',
           '(* api.PyToPy.get_caching_key *)',
           'Definition cache_subkey_src : subkey_src := %s.' % sub_src,
           '(* ConversionOptions.call_options / as_tuple / __hash__ / __eq__ and get_caching_key read no module-level',
           '   state and mutate nothing (checked by the translator): sub-keys are pure functions of the options *)',
           'Definition subkeys_pure : bool := true.',
           '(* inspect_utils.getimmediatesource, parser.parse_entity / dedent_block / parse use no module-level mutable',
           '   state (no memo below the conversion cache): what is transformed is the current source of the request *)',
           'Definition source_recovery_stateless : bool := true.',
           '(* cache.UnboundInstanceCache._get_key (conversion._ALLOWLIST_CACHE): projections applied to the callable *)',
           'Definition allowlist_key_chain : akey_chain := [%s].' % '; '.join(key_chain),
           '(* api.converted_call / _fall_back_unconverted: every _call_unconverted exit,',
           '   (guard depends on the calling context, writes the allowlist cache) *)',
           'Definition allowlist_exits : exits :=',
           '  [' + ';\n   '.join('(%s, %s) (* %s *)' % ('true' if d else 'false', 'true' if v else 'false', w.replace('*)', '* )').replace('(*', '( *').replace('"', "'"))
                               for d, v, w in exits) + '].',
           '(* api._convert_actual, the funnel of to_graph / convert wrappers / converted_call; the other entry functions',
           '   of api.py use no module-level mutable state and GenericTranspiler.transform only dispatches (checked by',
           '   the translator) *)',
           'Definition entry_funnel : funnel := %s.' % funnel]
    return '\n'.join(out) + '\n'


def parse_prog(text):
    """The program of a generated file as nested Python lists (for the harness):
    ('IIfHas', hit, miss) | ('ILock', body) | 'IGet' | ..."""
    import re
    m = re.search(r'Definition transform_function_prog : prog :=\s*(\[.*?\])\.\n', text, re.S)
    src = m.group(1)
    toks = re.findall(r'\[|\]|;|[A-Za-z]+', src)
    pos = [0]

    def plist():
        assert toks[pos[0]] == '['
        pos[0] += 1
        items = []
        while toks[pos[0]] != ']':
            if toks[pos[0]] == ';':
                pos[0] += 1
                continue
            items.append(pitem())
        pos[0] += 1
        return items

    def pitem():
        t = toks[pos[0]]
        pos[0] += 1
        if t == 'IIfHas':
            a = plist()
            b = plist()
            return ('IIfHas', a, b)
        if t == 'ILock':
            return ('ILock', plist())
        return t
    return plist()


if __name__ == '__main__':
    import sys
    print(translate(sys.argv[1] if len(sys.argv) > 1 else '/repo'))
