"""Fail-closed syntactic translator for C04:
   malt/impl/api.py (PyToPy.transform_ast) + malt/converters/*.py  ->  coq/Generated/C04_gen.v

What is extracted (anything not recognised raises Untranslatable -> tie broken):

 * pass order and feature gates: the body of PyToPy.transform_ast must be a
   sequence of   node = <module>.transform(node, ctx)   statements, optionally
   inside   if ctx.user.options.uses(converter.Feature.<F>):   blocks (other
   statements are allowed only before the first pass: verify / initial_analysis).
   Each converter module's transform() names the transformer classes it runs,
   in order (`<Class>(ctx, ...).visit(node)`).
 * per transformer class and visit_<Kind> method:
     - traversal: `self.generic_visit(node)` on every path = all fields;
       otherwise the fields F for which the method (or a helper of the class
       that visits its parameter) calls self.visit / self.visit_block /
       self.generic_visit on `node.F` (or `node.args.F`);
     - whether the node is replaced: abstract interpretation of the return
       statements (`node` untouched / generic_visit(node) = same; else new)
       -> Never / Sometimes / Always;
     - the fields whose content may end up where no traversal enters: a direct `ast.<Kind>(...)`
       construction must give every list field of the grammar a value that is recognisably a list
       (display, comprehension, list(...), attribute of a node, sum of those); a tuple / tuple(...) /
       generator is recorded (a_hide: the fields of the visited node that flow into it, by a
       flow-insensitive taint over the method and its helpers); anything else fails closed;
     - the node kinds introduced: every node class occurring in a template
       string, `parser.parse_expression` literal or direct `ast.<Kind>(...)`
       construction reachable from the method through self.<helper> references
       and module-level helpers (placeholders excluded).
 * refinements by sub-kind:
     - visit_Call of CallTreeTransformer: the `if <cond>: return node` guards
       must be of the four documented shapes (ag__., function scope, debugger
       entry points, print without BUILTIN_FUNCTIONS);
     - visit_UnaryOp: resolved per operator class through LOGICAL_OPERATORS /
       EQUALITY_OPERATORS when the method has the `_overload_of` shape.
 * the grammar (node kinds, node-valued fields, statement sorts) is read
   reflectively from CPython's ast module.
"""
import ast
import os
import re
import textwrap


class Untranslatable(Exception):
    pass


def _fail(fn, node, msg):
    raise Untranslatable('untranslatable: %s:%s: %s' % (fn, getattr(node, 'lineno', '?'), msg))


# ---------------------------------------------------------------- grammar (reflective)

UNARY_SUBKINDS = ['Not', 'Invert', 'UAdd', 'USub']
CALL_SUBKINDS = ['ag', 'fscope', 'debugger', 'print', 'gen']
DOCUMENTED_DEBUGGER = {'pdb.set_trace', 'ipdb.set_trace', 'breakpoint'}


STAR_FIELDS = set()     # (kind, field) whose value is a list in CPython's grammar


def grammar():
    """-> (fields: kind -> [(fname, typename)], sorts: typename -> [kinds], S kinds, stmt fields)"""
    fields = {}
    sort_of = {}
    sorts = {}
    STAR_FIELDS.clear()
    for name in sorted(dir(ast)):
        cls = getattr(ast, name)
        if not (isinstance(cls, type) and issubclass(cls, ast.AST)) or cls is ast.AST:
            continue
        doc = cls.__doc__ or ''
        if cls.__subclasses__() and not getattr(cls, '_fields', ()):
            continue   # abstract sort class (stmt, expr, ...)
        if name in ('Num', 'Str', 'Bytes', 'NameConstant', 'Ellipsis', 'Index', 'ExtSlice', 'Suite', 'Param',
                    'AugLoad', 'AugStore', 'slice'):
            continue
        m = re.match(r'\s*%s\((.*)\)\s*$' % name, doc.strip().split('\n')[0]) if doc.strip() else None
        fl = []
        if cls._fields:
            if not m:
                raise Untranslatable('untranslatable: ast.%s: no grammar docstring' % name)
            for part in m.group(1).split(','):
                ty, fn = part.strip().split()
                fl.append((fn, ty.rstrip('*?')))
                if ty.endswith('*'):
                    STAR_FIELDS.add((name, fn))
        fields[name] = fl
        base = cls.__mro__[1].__name__
        sort_of[name] = base if base != 'AST' else name
        sorts.setdefault(sort_of[name], []).append(name)
    node_types = set(sorts) | set(fields)
    nfields = {k: [(f, t) for (f, t) in fl if t in node_types] for k, fl in fields.items()}
    # statement-sorted kinds: least set containing the stmt sort and every kind with a field whose sort
    # contains a statement-sorted kind
    S = set(sorts.get('stmt', []))
    changed = True
    while changed:
        changed = False
        for k, fl in nfields.items():
            if k in S:
                continue
            for f, t in fl:
                if any(x in S for x in sorts.get(t, [t])):
                    S.add(k)
                    changed = True
                    break
    stmt_fields = []
    for k, fl in nfields.items():
        for f, t in fl:
            if any(x in S for x in sorts.get(t, [t])):
                stmt_fields.append((k, f))
    return nfields, sorts, S, sorted(stmt_fields)


# ---------------------------------------------------------------- helpers on the converter source

def _is_self_call(node, names):
    return (isinstance(node, ast.Call) and isinstance(node.func, ast.Attribute)
            and isinstance(node.func.value, ast.Name) and node.func.value.id == 'self'
            and node.func.attr in names)


def _node_path(e, var):
    """`var.F` -> ('F',) ; `var.A.F` -> ('A','F') ; var -> () ; else None"""
    path = []
    while isinstance(e, ast.Attribute):
        path.append(e.attr)
        e = e.value
    if isinstance(e, ast.Name) and e.id == var:
        return tuple(reversed(path))
    return None


class ClassInfo(object):
    def __init__(self, fn, mod, cls):
        self.fn = fn
        self.mod = mod
        self.cls = cls
        self.methods = {n.name: n for n in cls.body if isinstance(n, ast.FunctionDef)}
        self.module_defs = {n.name: n for n in mod.body if isinstance(n, (ast.FunctionDef, ast.ClassDef))}
        self._visiting = None

    # -- which helper methods visit which of their parameters
    def visiting_params(self):
        if self._visiting is not None:
            return self._visiting
        vis = {m: set() for m in self.methods}
        changed = True
        while changed:
            changed = False
            for mname, m in self.methods.items():
                if mname.startswith('visit_'):
                    continue
                params = [a.arg for a in m.args.args][1:]
                for call in ast.walk(m):
                    if not isinstance(call, ast.Call):
                        continue
                    tgt = None
                    if _is_self_call(call, ('visit', 'visit_block', 'generic_visit')):
                        tgt = 0
                    elif (isinstance(call.func, ast.Attribute) and isinstance(call.func.value, ast.Name)
                          and call.func.value.id == 'self' and call.func.attr in vis):
                        for i, a in enumerate(call.args):
                            if isinstance(a, ast.Name) and a.id in params and i < 10:
                                callee_params = [x.arg for x in self.methods[call.func.attr].args.args][1:]
                                if i < len(callee_params) and callee_params[i] in vis[call.func.attr]:
                                    if a.id not in vis[mname]:
                                        vis[mname].add(a.id)
                                        changed = True
                        continue
                    if tgt is not None and call.args and isinstance(call.args[0], ast.Name) \
                            and call.args[0].id in params:
                        if call.args[0].id not in vis[mname]:
                            vis[mname].add(call.args[0].id)
                            changed = True
        self._visiting = vis
        return vis

    # -- closure of code reachable from a method (self.<m> references, module-level names)
    def closure(self, mname):
        seen = []
        todo = [('m', mname)]
        while todo:
            key = todo.pop()
            if key in seen:
                continue
            seen.append(key)
            node = self.methods[key[1]] if key[0] == 'm' else self.module_defs[key[1]]
            for n in ast.walk(node):
                if isinstance(n, ast.Attribute) and isinstance(n.value, ast.Name) and n.value.id == 'self' \
                        and n.attr in self.methods and not n.attr.startswith('visit_'):
                    todo.append(('m', n.attr))
                elif isinstance(n, ast.Name) and n.id in self.module_defs and n.id != self.cls.name \
                        and not self._is_transformer(self.module_defs[n.id]):
                    todo.append(('g', n.id))
        return [self.methods[k[1]] if k[0] == 'm' else self.module_defs[k[1]] for k in seen]

    @staticmethod
    def _is_transformer(defn):
        return isinstance(defn, ast.ClassDef) and any(
            isinstance(b, ast.Attribute) and b.attr == 'Base' for b in defn.bases)


def _str_value(node, env):
    """string literal / f-string (holes -> None) / Name bound to one in env -> text, else None"""
    if isinstance(node, ast.Constant) and isinstance(node.value, str):
        return [node.value]
    if isinstance(node, ast.JoinedStr):
        return [''.join(v.value if isinstance(v, ast.Constant) else 'None' for v in node.values)]
    if isinstance(node, ast.Name) and node.id in env:
        return env[node.id]
    return None


def _string_env(ci, fn):
    """name -> [(line, texts)] for the assignments of string constants in a function.  Recognised values: a string
    literal; an f-string whose holes are names bound to string constants only; `a if c else b` of those; and a
    template derived from an earlier one,  X = Y.replace(<const>, <those>)  -- the derived template stands for
    the earlier texts too (the derivation may be conditional)."""
    assigns = sorted((n for n in ast.walk(fn) if isinstance(n, ast.Assign) and len(n.targets) == 1
                      and isinstance(n.targets[0], ast.Name)), key=lambda n: (n.lineno, n.col_offset))
    env = {}

    def before(name, line):
        prev = [x for x in env.get(name, []) if x[0] < line]
        return max(prev)[1] if prev else None

    def consts(e, line):
        if isinstance(e, ast.Constant) and isinstance(e.value, str):
            return [e.value]
        if isinstance(e, ast.IfExp):
            a, b = consts(e.body, line), consts(e.orelse, line)
            return None if a is None or b is None else a + b
        if isinstance(e, ast.Name):
            # every assignment of the name in this function must be a recognised string
            vals = []
            for a in assigns:
                if a.targets[0].id == e.id:
                    if a.lineno >= line:
                        return None
                    v = before(e.id, a.lineno + 1)
                    if v is None:
                        return None
                    vals += v
            return vals or None
        if isinstance(e, ast.JoinedStr):
            outs = ['']
            for part in e.values:
                if isinstance(part, ast.Constant):
                    vs = [part.value]
                elif isinstance(part, ast.FormattedValue) and part.format_spec is None and part.conversion == -1:
                    vs = consts(part.value, line)
                    if vs is None:
                        return None
                else:
                    return None
                outs = [o + v for o in outs for v in vs]
                if len(outs) > 64:
                    _fail(ci.fn, e, 'template text has too many variants')
            return outs
        return None

    for a in assigns:
        name, v = a.targets[0].id, a.value
        if isinstance(v, ast.Call) and isinstance(v.func, ast.Attribute) and v.func.attr == 'replace' \
                and isinstance(v.func.value, ast.Name) and before(v.func.value.id, a.lineno) is not None:
            base = before(v.func.value.id, a.lineno)
            if len(v.args) != 2 or v.keywords:
                _fail(ci.fn, a, 'template derived by an unrecognised str.replace')
            olds, news = consts(v.args[0], a.lineno), consts(v.args[1], a.lineno)
            if olds is None or news is None:
                _fail(ci.fn, a, 'template derived by str.replace with a text that is not a string constant')
            texts = list(base)
            for b in base:
                for o in olds:
                    for w in news:
                        if b.replace(o, w) not in texts:
                            texts.append(b.replace(o, w))
            if len(texts) > 64:
                _fail(ci.fn, a, 'template text has too many variants')
            env.setdefault(name, []).append((a.lineno, texts))
            continue
        texts = consts(v, a.lineno) if isinstance(v, (ast.JoinedStr, ast.IfExp, ast.Constant)) else None
        if texts is None:
            texts = _str_value(v, {})
        if texts is not None:
            env.setdefault(name, []).append((a.lineno, texts))
    return env


def _nearest_assignment(fn, name, line):
    best = None
    for a in ast.walk(fn):
        if isinstance(a, ast.Assign) and a.lineno < line:
            for tg in a.targets:
                if isinstance(tg, ast.Name) and tg.id == name and (best is None or a.lineno > best.lineno):
                    best = a
                elif isinstance(tg, (ast.Tuple, ast.List)) and any(
                        isinstance(x, ast.Name) and x.id == name for x in ast.walk(tg)) \
                        and (best is None or a.lineno > best.lineno):
                    best = a
    return best


def _sequence_shape(ci, fn, e, depth=0):
    """'list' | 'opaque' | 'empty' for the value given to a list field of a constructed node; fails closed."""
    if isinstance(e, (ast.List, ast.ListComp)):
        return 'list'
    if isinstance(e, ast.Tuple):
        return 'opaque' if e.elts else 'empty'
    if isinstance(e, (ast.GeneratorExp, ast.Set, ast.SetComp)):
        return 'opaque'
    if isinstance(e, ast.Call) and isinstance(e.func, ast.Name) and e.func.id in ('list', 'sorted') and not e.keywords:
        return 'list'
    if isinstance(e, ast.Call) and isinstance(e.func, ast.Name) and e.func.id in ('tuple', 'set', 'frozenset', 'iter',
                                                                                 'map', 'filter', 'zip', 'reversed'):
        return 'opaque' if e.args else 'empty'
    if isinstance(e, ast.BinOp) and isinstance(e.op, ast.Add):
        a, b = _sequence_shape(ci, fn, e.left, depth), _sequence_shape(ci, fn, e.right, depth)
        return 'opaque' if 'opaque' in (a, b) else 'list' if 'list' in (a, b) else 'empty'
    if isinstance(e, ast.IfExp):
        a, b = _sequence_shape(ci, fn, e.body, depth), _sequence_shape(ci, fn, e.orelse, depth)
        return 'opaque' if 'opaque' in (a, b) else 'list' if 'list' in (a, b) else 'empty'
    if isinstance(e, ast.Attribute):
        return 'list'          # a field of an existing node (the parser and the templates build lists)
    if isinstance(e, ast.Subscript) and isinstance(e.slice, ast.Slice):
        return _sequence_shape(ci, fn, e.value, depth)
    if isinstance(e, ast.Name) and depth < 4:
        a = _nearest_assignment(fn, e.id, e.lineno)
        if a is not None and len(a.targets) == 1 and isinstance(a.targets[0], ast.Name):
            return _sequence_shape(ci, fn, a.value, depth + 1)
    _fail(ci.fn, e, 'list field of a constructed node given a value that is not recognisably a list: ' + ast.unparse(e))


def opaque_constructions(ci, mname, all_nodes):
    """[(function, expression)] : values that are not lists given to list fields in direct ast.<Kind>(...)
    constructions reachable from the method."""
    out = []
    for fn in ci.closure(mname):
        for n in ast.walk(fn):
            if not (isinstance(n, ast.Call) and isinstance(n.func, ast.Attribute) and isinstance(n.func.value, ast.Name)
                    and n.func.value.id == 'ast' and n.func.attr in all_nodes):
                continue
            k = n.func.attr
            given = list(zip(getattr(ast, k)._fields, n.args)) + [(kw.arg, kw.value) for kw in n.keywords]
            if any(isinstance(a, ast.Starred) for a in n.args) or any(kw.arg is None for kw in n.keywords):
                _fail(ci.fn, n, 'node constructed with unpacked arguments')
            for f, v in given:
                if (k, f) in STAR_FIELDS and _sequence_shape(ci, fn, v) == 'opaque':
                    out.append((fn, v))
    return out


def hidden_fields(ci, mname, var, node_fields, all_nodes):
    """Fields of the visited node whose content may flow into a non-list sequence given to a list field of a
    constructed node.  Flow-insensitive taint over the method and the helpers it reaches: the taint of a name
    is the set of first-level fields of the visited node it may derive from ('*' = the node itself)."""
    sinks = opaque_constructions(ci, mname, all_nodes)
    if not sinks:
        return []
    fns = ci.closure(mname)
    taint = {}      # (function name, local name) -> set of fields / '*'
    taint[(mname, var)] = {'*'}

    def of_expr(fname, e):
        res = set()
        skip = set()
        for x in ast.walk(e):
            if isinstance(x, ast.Attribute):
                p, base = [], x
                while isinstance(base, (ast.Attribute, ast.Subscript)):
                    if isinstance(base, ast.Attribute):
                        p.append(base.attr)
                    base = base.value
                if isinstance(base, ast.Name) and '*' in taint.get((fname, base.id), ()):
                    first = p[-1] if p else None
                    if first in node_fields:
                        res.add(first)
                        skip.add(id(base))
                    elif first is not None and len(taint[(fname, base.id)]) == 1:
                        skip.add(id(base))      # node.ctx, node.lineno, ...: no child
        for x in ast.walk(e):
            if isinstance(x, ast.Name) and id(x) not in skip:
                res |= taint.get((fname, x.id), set())
        return res

    changed = True
    rounds = 0
    while changed and rounds < 50:
        changed = False
        rounds += 1
        for fn in fns:
            if not isinstance(fn, ast.FunctionDef):
                continue
            for n in ast.walk(fn):
                if isinstance(n, (ast.Assign, ast.AugAssign, ast.AnnAssign)) and getattr(n, 'value', None) is not None:
                    tv = of_expr(fn.name, n.value)
                    tgts = n.targets if isinstance(n, ast.Assign) else [n.target]
                    for tg in tgts:
                        for x in ast.walk(tg):
                            if isinstance(x, ast.Name) and isinstance(x.ctx, ast.Store):
                                cur = taint.setdefault((fn.name, x.id), set())
                                if not tv <= cur:
                                    cur |= tv
                                    changed = True
                elif isinstance(n, (ast.For, ast.comprehension)):
                    tv = of_expr(fn.name, n.iter)
                    for x in ast.walk(n.target):
                        if isinstance(x, ast.Name):
                            cur = taint.setdefault((fn.name, x.id), set())
                            if not tv <= cur:
                                cur |= tv
                                changed = True
                elif isinstance(n, ast.Call):
                    callee = None
                    if isinstance(n.func, ast.Attribute) and isinstance(n.func.value, ast.Name) \
                            and n.func.value.id == 'self' and n.func.attr in ci.methods:
                        callee, params = ci.methods[n.func.attr], [a.arg for a in ci.methods[n.func.attr].args.args][1:]
                    elif isinstance(n.func, ast.Name) and isinstance(ci.module_defs.get(n.func.id), ast.FunctionDef):
                        callee = ci.module_defs[n.func.id]
                        params = [a.arg for a in callee.args.args]
                    if callee is None or callee.name.startswith('visit_'):
                        continue
                    for i, a in enumerate(n.args):
                        if i < len(params):
                            tv = of_expr(fn.name, a)
                            cur = taint.setdefault((callee.name, params[i]), set())
                            if not tv <= cur:
                                cur |= tv
                                changed = True
                    for kw in n.keywords:
                        if kw.arg in params:
                            tv = of_expr(fn.name, kw.value)
                            cur = taint.setdefault((callee.name, kw.arg), set())
                            if not tv <= cur:
                                cur |= tv
                                changed = True
    hidden = set()
    for fn, v in sinks:
        hidden |= of_expr(fn.name, v) if isinstance(fn, ast.FunctionDef) else {'*'}
    if '*' in hidden or not hidden:
        return list(node_fields)        # provenance unknown: anything of the node may be there
    return [f for f in node_fields if f in hidden]


def template_kinds(ci, mname, interest, all_nodes):
    """Kinds introduced by the code reachable from method mname."""
    out = set()
    for fn in ci.closure(mname):
        env = _string_env(ci, fn)
        for n in ast.walk(fn):
            if not isinstance(n, ast.Call):
                continue
            fname = ast.unparse(n.func)
            if fname in ('templates.replace', 'templates.replace_as_expression', 'parser.parse_expression',
                         'parser.parse_str', 'parser.parse'):
                if not n.args:
                    _fail(ci.fn, n, 'template call without positional template')
                a0 = n.args[0]
                if isinstance(a0, ast.Name) and a0.id in env:
                    # the textually nearest preceding assignment of that name
                    prev = [x for x in env[a0.id] if x[0] < n.lineno]
                    texts = max(prev)[1] if prev else None
                else:
                    texts = _str_value(a0, {})
                if texts is None:
                    if fname.startswith('parser.') and isinstance(n.args[0], (ast.Name, ast.Call, ast.Attribute)):
                        # parse_expression(<dynamic name>): the caller must be of the recognised
                        # operator-name shape, see _operator_names_ok
                        out.add('?dynamic-expression')
                        continue
                    _fail(ci.fn, n, 'template is not a string literal')
                placeholders = set(kw.arg for kw in n.keywords if kw.arg)
                for text in texts:
                    try:
                        tree = ast.parse(textwrap.dedent(text).strip())
                    except SyntaxError:
                        _fail(ci.fn, n, 'template does not parse')
                    out |= _kinds_of_template(ci, n, tree, placeholders, interest)
            elif isinstance(n.func, ast.Attribute) and isinstance(n.func.value, ast.Name) \
                    and n.func.value.id == 'ast' and n.func.attr in all_nodes:
                k = n.func.attr
                if k == 'Call':
                    f = n.args[0] if n.args else None
                    if (isinstance(f, ast.Call) and ast.unparse(f.func) == 'ast.Name' and f.args
                            and isinstance(f.args[0], ast.Constant) and f.args[0].value in ('tuple', 'dict')):
                        out.add('Call.gen')
                    else:
                        out.add('Call')
                elif k == 'UnaryOp':
                    out.add('UnaryOp.Not')     # operator unknown: assume the overloadable one
                elif k == 'Return':
                    out.add('Return')
                elif k in interest:
                    out.add(k)
    return out


def _kinds_of_template(ci, call, tree, placeholders, interest):
    out = set()
    expr_template = ast.unparse(call.func) != 'templates.replace'
    for n in ast.walk(tree):
        k = type(n).__name__
        if isinstance(n, ast.Module) or (expr_template and n in tree.body and isinstance(n, ast.Expr)):
            continue
        if isinstance(n, ast.Expr) and isinstance(n.value, ast.Name) and n.value.id in placeholders:
            continue
        if isinstance(n, ast.Call):
            f = n.func
            dotted = ast.unparse(f)
            if dotted.startswith('ag__.'):
                out.add('Call.ag')
            elif isinstance(f, ast.Attribute) and isinstance(f.value, ast.Name) and f.value.id in placeholders \
                    and f.value.id == 'function_context':
                out.add('Call.fscope')
            elif isinstance(f, ast.Name) and f.id in placeholders:
                out.add('?placeholder-call:' + f.id)
            else:
                out.add('Call')
        elif isinstance(n, ast.UnaryOp):
            out.add('UnaryOp.' + type(n.op).__name__)
        elif isinstance(n, ast.Return):
            out.add('Return.gen')
        elif k in interest:
            out.add(k)
    return out


# ---------------------------------------------------------------- one visit method

def always_generic(stmts, var):
    """Every path through stmts calls self.generic_visit(<var>)."""
    for i, s in enumerate(stmts):
        if isinstance(s, ast.If):
            rest = stmts[i + 1:]
            return always_generic(s.body + rest, var) and always_generic(s.orelse + rest, var)
        if isinstance(s, ast.With):
            for it in s.items:
                if _has_gv(it.context_expr, var):
                    return True
            return always_generic(s.body + stmts[i + 1:], var)
        if isinstance(s, (ast.For, ast.While, ast.Try)):
            if any(_has_gv(x, var) for x in ast.walk(s)):
                return False        # conditional traversal: not recognised as "all"
            continue
        if _has_gv(s, var):
            return True
        if isinstance(s, (ast.Return, ast.Raise)):
            return False
    return False


_CI = [None]


def _has_gv(node, var, depth=0):
    for n in ast.walk(node):
        if _is_self_call(n, ('generic_visit',)) and len(n.args) == 1 and isinstance(n.args[0], ast.Name) \
                and n.args[0].id == var:
            return True
        ci = _CI[0]
        if ci is not None and depth < 3 and isinstance(n, ast.Call) and isinstance(n.func, ast.Attribute) \
                and isinstance(n.func.value, ast.Name) and n.func.value.id == 'self' and n.func.attr in ci.methods \
                and not n.func.attr.startswith('visit') and len(n.args) == 1 and not n.keywords \
                and isinstance(n.args[0], ast.Name) and n.args[0].id == var:
            h = ci.methods[n.func.attr]
            hp = [a.arg for a in h.args.args][1:]
            if len(hp) == 1 and always_generic(h.body, hp[0]):
                return True
    return False


def _method_hash(m):
    import hashlib
    return hashlib.sha1(ast.dump(m).encode()).hexdigest()[:16]


# methods whose "always replaces the node" cannot be seen by the abstract interpretation (the loop in
# visit_BoolOp runs at least once because a BoolOp has >= 2 operands): accepted for exactly this text
PINNED_ALWAYS = {('LogicalExpressionTransformer', 'visit_BoolOp'): '97556d92472ec96a'}


def visited_fields(ci, m, var, nfields, kind):
    """Fields of `var` the method traverses (unconditionally or not: every recognised visit counts as
    traversal of that field only if it is not nested under an `if`; conditional visits are rejected)."""
    vis = ci.visiting_params()
    fields = []
    sub = {}     # field -> set of sub-fields visited through node.A.B

    def record(path, where):
        if len(path) == 1:
            if path[0] not in fields:
                fields.append(path[0])
        elif len(path) == 2:
            sub.setdefault(path[0], [])
            if path[1] not in sub[path[0]]:
                sub[path[0]].append(path[1])
        else:
            _fail(ci.fn, where, 'visit of an unrecognised expression')

    def scan(stmts, conditional, loopvars):
        for s in stmts:
            if isinstance(s, ast.If):
                # a visit under a condition is accepted only as `if d is not None:` inside a recognised loop
                # a visit under a condition is accepted when the condition only tests presence of the
                # visited thing itself: `if node.F:` / `if d is not None:` (d a recognised loop variable)
                t = s.test
                presence = (_node_path(t, var) not in (None, ())) or (
                    isinstance(t, ast.Compare) and len(t.ops) == 1 and isinstance(t.ops[0], ast.IsNot)
                    and isinstance(t.left, ast.Name) and t.left.id in loopvars
                    and isinstance(t.comparators[0], ast.Constant) and t.comparators[0].value is None)
                scan(s.body, conditional or not presence, loopvars)
                scan(s.orelse, True, loopvars)
                continue
            if isinstance(s, ast.With):
                scan(s.body, conditional, loopvars)
                continue
            if isinstance(s, ast.For):
                it = s.iter
                if isinstance(it, ast.Call) and isinstance(it.func, ast.Name) and it.func.id == 'enumerate' and it.args:
                    it = it.args[0]
                p = _node_path(it, var)
                lv = dict(loopvars)
                if p:
                    names = [n.id for n in ast.walk(s.target) if isinstance(n, ast.Name)]
                    for nm in names:
                        lv[nm] = p
                scan(s.body, conditional, lv)
                continue
            if isinstance(s, (ast.While, ast.Try)):
                for n in ast.walk(s):
                    if _is_self_call(n, ('visit', 'visit_block', 'generic_visit')) or \
                            (isinstance(n, ast.Call) and isinstance(n.func, ast.Attribute)
                             and isinstance(n.func.value, ast.Name) and n.func.value.id == 'self'
                             and vis.get(n.func.attr)):
                        _fail(ci.fn, n, 'visit inside while/try')
                continue
            for n in ast.walk(s):
                if not isinstance(n, ast.Call):
                    continue
                args = []
                if _is_self_call(n, ('visit', 'visit_block', 'generic_visit')):
                    args = n.args[:1]
                    if n.func.attr == 'generic_visit' and args and isinstance(args[0], ast.Name) and args[0].id == var:
                        continue
                    if n.func.attr == 'generic_visit':
                        # generic_visit(node.F) skips the handler of the child itself: equivalent to a
                        # visit only if the class has no handler for any kind that field can hold
                        p = _node_path(args[0], var) if args else None
                        if p and len(p) == 1:
                            ftypes = dict(nfields.get(kind.split('.')[0], []))
                            holders = SORTS.get(ftypes.get(p[0]), [ftypes.get(p[0])])
                            if any(('visit_' + h) in ci.methods for h in holders if h):
                                _fail(ci.fn, n, 'generic_visit(node.%s) bypasses a handler of this class' % p[0])
                elif isinstance(n.func, ast.Attribute) and isinstance(n.func.value, ast.Name) \
                        and n.func.value.id == 'self' and n.func.attr in vis and vis[n.func.attr]:
                    callee_params = [x.arg for x in ci.methods[n.func.attr].args.args][1:]
                    args = [a for i, a in enumerate(n.args) if i < len(callee_params)
                            and callee_params[i] in vis[n.func.attr]]
                else:
                    continue
                for a in args:
                    p = _node_path(a, var)
                    if p is None and isinstance(a, ast.Name) and a.id in loopvars:
                        p = loopvars[a.id]
                    if p is None or p == ():
                        if isinstance(a, ast.Name) and a.id == var:
                            continue
                        _fail(ci.fn, n, 'visit of an unrecognised expression ' + ast.unparse(a))
                    if conditional:
                        _fail(ci.fn, n, 'conditional visit of node.%s' % '.'.join(p))
                    record(p, n)
    scan(m.body, False, {})
    return fields, sub


def rewrite_class(ci, m, var, depth=0):
    """Abstract interpretation of what the method returns.  Abstract values: 'O' the node it was given,
    'N' definitely a fresh replacement (result of templates.replace*, or None = removal), 'U' unknown.
    -> set of abstract values over all returns."""
    kinds = set()

    def ev(e, env):
        if e is None or (isinstance(e, ast.Constant) and e.value is None):
            return {'N'}
        if isinstance(e, ast.Name):
            return set(env.get(e.id, {'U'}))
        if _is_self_call(e, ('generic_visit',)) and len(e.args) == 1 and isinstance(e.args[0], ast.Name):
            return set(env.get(e.args[0].id, {'U'}))
        if isinstance(e, ast.Call) and ast.unparse(e.func) in ('templates.replace', 'templates.replace_as_expression'):
            return {'N'}
        if isinstance(e, ast.Call) and isinstance(e.func, ast.Attribute) and isinstance(e.func.value, ast.Name) \
                and e.func.value.id == 'self' and e.func.attr in ci.methods and not e.func.attr.startswith('visit') \
                and depth < 3 and not e.keywords:
            h = ci.methods[e.func.attr]
            params = [a.arg for a in h.args.args][1:]
            if len(e.args) == len(params):
                henv = {p: ev(a, env) for p, a in zip(params, e.args)}
                return _returns(ci, h, henv, depth + 1)
        return {'U'}

    return _returns(ci, m, {var: {'O'}}, depth, ev)


def _returns(ci, m, env0, depth, ev=None):
    kinds = set()
    if ev is None:
        def ev(e, env):
            if e is None or (isinstance(e, ast.Constant) and e.value is None):
                return {'N'}
            if isinstance(e, ast.Name):
                return set(env.get(e.id, {'U'}))
            if _is_self_call(e, ('generic_visit',)) and len(e.args) == 1 and isinstance(e.args[0], ast.Name):
                return set(env.get(e.args[0].id, {'U'}))
            if isinstance(e, ast.Call) and ast.unparse(e.func) in ('templates.replace', 'templates.replace_as_expression'):
                return {'N'}
            if isinstance(e, ast.Call) and isinstance(e.func, ast.Attribute) and isinstance(e.func.value, ast.Name) \
                    and e.func.value.id == 'self' and e.func.attr in ci.methods \
                    and not e.func.attr.startswith('visit') and depth < 3 and not e.keywords:
                h = ci.methods[e.func.attr]
                params = [a.arg for a in h.args.args][1:]
                if len(e.args) == len(params):
                    return _returns(ci, h, {p: ev(a, env) for p, a in zip(params, e.args)}, depth + 1)
            return {'U'}

    def join(a, b):
        if a is None:
            return b
        if b is None:
            return a
        out = {}
        for k in set(a) | set(b):
            out[k] = set(a.get(k, {'U'})) | set(b.get(k, {'U'}))
        return out

    def run(stmts, env):
        for s in stmts:
            if env is None:
                return None
            if isinstance(s, ast.Return):
                kinds.update(ev(s.value, env))
                return None
            if isinstance(s, ast.Raise):
                return None
            if isinstance(s, (ast.Assign, ast.AugAssign, ast.AnnAssign)):
                tgts = s.targets if isinstance(s, ast.Assign) else [s.target]
                env = dict(env)
                for t in tgts:
                    if isinstance(t, ast.Name) and isinstance(s, ast.Assign):
                        env[t.id] = ev(s.value, env)
                    else:
                        for n in ast.walk(t):
                            if isinstance(n, ast.Name) and isinstance(n.ctx, ast.Store):
                                env[n.id] = {'U'}
                continue
            if isinstance(s, ast.If):
                env = join(run(s.body, dict(env)), run(s.orelse, dict(env)))
                continue
            if isinstance(s, ast.With):
                env = run(s.body, dict(env))
                continue
            if isinstance(s, (ast.For, ast.While)):
                e1 = dict(env)
                for n in ast.walk(s.target) if isinstance(s, ast.For) else []:
                    if isinstance(n, ast.Name):
                        e1[n.id] = {'U'}
                a = join(e1, run(s.body, dict(e1)))
                a = join(a, run(s.body, dict(a)) if a is not None else None)
                env = run(s.orelse, a) if s.orelse else a
                continue
            if isinstance(s, ast.Try):
                a = run(s.body, dict(env))
                for h in s.handlers:
                    a = join(a, run(h.body, dict(env)))
                a = run(s.orelse, a) if s.orelse and a is not None else a
                env = run(s.finalbody, a) if s.finalbody and a is not None else a
                continue
        return env
    end = run(m.body, dict(env0))
    if end is not None:
        kinds.add('N')     # falls off the end: returns None = node removed
    return kinds


# ---------------------------------------------------------------- sub-kind refinements

def call_guards(ci, m, var):
    """visit_Call of the shape   <prefix>; if <guard>: ...; return node   ...; return <new>.
    -> dict subkind -> gate ('never' | ('feature', F))  for the recognised guards; fails closed on
    any other `return node`."""
    found = {}
    names = {}
    for s in m.body:
        if isinstance(s, ast.Assign) and len(s.targets) == 1 and isinstance(s.targets[0], ast.Name):
            names[s.targets[0].id] = ast.unparse(s.value)
    qn = [k for k, v in names.items() if re.match(r"str\(anno\.getanno\(%s\.func, anno\.Basic\.QN, default=''\)\)$" % var, v)]
    for s in m.body:
        if isinstance(s, ast.If):
            rets = [n for n in ast.walk(s) if isinstance(n, ast.Return)]
            if not rets:
                continue
            if s.orelse or not all(isinstance(r.value, ast.Name) and r.value.id == var for r in rets):
                _fail(ci.fn, s, 'visit_Call: unrecognised conditional return')
            if not qn:
                _fail(ci.fn, s, 'visit_Call: qualified name of the callee not computed in the recognised way')
            c = ast.unparse(s.test)
            q = qn[0]
            if c == "%s.startswith('ag__.')" % q:
                found['ag'] = 'never'
            elif re.match(r"%s\.startswith\((\w+) \+ '\.'\)$" % q, c) and \
                    names.get(re.match(r"%s\.startswith\((\w+) \+ '\.'\)$" % q, c).group(1), '') == 'self.state[_Function].context_name':
                found['fscope'] = 'never'
            elif isinstance(s.test, ast.Compare) and len(s.test.ops) == 1 and isinstance(s.test.ops[0], ast.In) \
                    and ast.unparse(s.test.left) == q and isinstance(s.test.comparators[0], (ast.Tuple, ast.List, ast.Set)):
                vals = [e.value for e in s.test.comparators[0].elts if isinstance(e, ast.Constant)]
                if len(vals) != len(s.test.comparators[0].elts) or not set(vals) <= DOCUMENTED_DEBUGGER:
                    _fail(ci.fn, s, 'visit_Call: exemption of callees %r is not documented' % (vals,))
                found['debugger'] = 'never'
                found['_debugger_names'] = sorted(vals)
            elif re.match(r"%s == 'print' and \(?not self\.ctx\.user\.options\.uses\(converter\.Feature\.(\w+)\)\)?$" % q, c):
                found['print'] = ('feature', re.match(r".*Feature\.(\w+)\)+$", c).group(1))
            else:
                _fail(ci.fn, s, 'visit_Call: unrecognised exemption `%s`' % c)
        elif isinstance(s, ast.Return):
            if isinstance(s.value, ast.Name) and s.value.id == var and 'T' not in _taint_at_end(m, var):
                _fail(ci.fn, s, 'visit_Call: unconditional `return node`')
        else:
            for n in ast.walk(s):
                if isinstance(n, ast.Return):
                    _fail(ci.fn, s, 'visit_Call: return in an unrecognised position')
    return found


def _taint_at_end(m, var):
    # visit_Call reassigns `node = self.generic_visit(node)` only: the variable stays the original
    st = {'C'}
    for s in m.body:
        if isinstance(s, ast.Assign) and any(isinstance(t, ast.Name) and t.id == var for t in s.targets):
            if not (_is_self_call(s.value, ('generic_visit',))):
                st = {'T'}
    return st


def unary_resolution(ci, m, var, mod):
    """visit_UnaryOp of the shape  overload = self._overload_of(node.op); if overload is None: return node;
    return <new>  -> dict op-class-name -> 'always' | 'never' | ('feature', F)."""
    src = [ast.unparse(s) for s in m.body]
    pat_ok = any(re.match(r'(\w+) = self\._overload_of\(%s\.op\)$' % var, x) for x in src) and \
        any(re.match(r'if \w+ is None:\n\s+return %s$' % var, x) for x in src)
    if not pat_ok or '_overload_of' not in ci.methods:
        return None
    ov = ci.methods['_overload_of']
    dicts = {}
    for n in mod.body:
        if isinstance(n, ast.Assign) and len(n.targets) == 1 and isinstance(n.targets[0], ast.Name) \
                and isinstance(n.value, ast.Dict):
            keys = []
            for k, v in zip(n.value.keys, n.value.values):
                if not (isinstance(k, ast.Attribute) and isinstance(k.value, ast.Name) and k.value.id == 'ast'
                        and isinstance(v, ast.Constant) and isinstance(v.value, str)):
                    keys = None
                    break
                keys.append((k.attr, v.value))
            if keys is not None:
                dicts[n.targets[0].id] = keys
    param = ov.args.args[1].arg
    res = {}
    tvar = None
    body = [s for s in ov.body if not (isinstance(s, ast.Expr) and isinstance(s.value, ast.Constant))]
    for s in body:
        u = ast.unparse(s)
        mm = re.match(r'(\w+) = type\(%s\)$' % param, u)
        if mm:
            tvar = mm.group(1)
            continue
        if tvar is None:
            return None
        mm = re.match(r'if %s in (\w+):\n\s+return (\w+)\[%s\]$' % (tvar, tvar), u)
        if mm and mm.group(1) == mm.group(2) and mm.group(1) in dicts:
            for k, v in dicts[mm.group(1)]:
                res.setdefault(k, ('always', v))
            continue
        mm = re.match(r'if self\.ctx\.user\.options\.uses\(converter\.Feature\.(\w+)\):\n\s+if %s in (\w+):\n\s+return (\w+)\[%s\]$' % (tvar, tvar), u)
        if mm and mm.group(2) == mm.group(3) and mm.group(2) in dicts:
            for k, v in dicts[mm.group(2)]:
                res.setdefault(k, (('feature', mm.group(1)), v))
            continue
        if u == 'return None':
            continue
        return None
    return res, dicts


# ---------------------------------------------------------------- whole translation

SORTS = {}


def translate(repo):
    nfields, sorts, S, stmt_fields = grammar()
    SORTS.clear()
    SORTS.update(sorts)
    all_nodes = set(nfields)
    interest = set(S) | {'If', 'While', 'For', 'Break', 'Continue', 'BoolOp', 'IfExp', 'Lambda'}

    api_fn = os.path.join(repo, 'malt', 'impl', 'api.py')
    with open(api_fn) as f:
        api = ast.parse(f.read())
    ta = None
    for n in ast.walk(api):
        if isinstance(n, ast.ClassDef) and n.name == 'PyToPy':
            for mth in n.body:
                if isinstance(mth, ast.FunctionDef) and mth.name == 'transform_ast':
                    ta = mth
    if ta is None:
        raise Untranslatable('untranslatable: api.py: PyToPy.transform_ast not found')
    nodevar = ta.args.args[1].arg
    ctxvar = ta.args.args[2].arg
    order = []      # (module, gate feature or None)

    def pass_stmt(s):
        if isinstance(s, ast.Assign) and len(s.targets) == 1 and isinstance(s.targets[0], ast.Name) \
                and s.targets[0].id == nodevar and isinstance(s.value, ast.Call) \
                and isinstance(s.value.func, ast.Attribute) and s.value.func.attr == 'transform' \
                and isinstance(s.value.func.value, ast.Name):
            if [ast.unparse(a) for a in s.value.args] != [nodevar, ctxvar] or s.value.keywords:
                _fail('api.py', s, 'transform called with unexpected arguments')
            return s.value.func.value.id
        return None

    started = False
    for s in ta.body:
        if isinstance(s, ast.Expr) and isinstance(s.value, ast.Constant):
            continue
        mname = pass_stmt(s)
        if mname:
            started = True
            order.append((mname, None))
            continue
        if isinstance(s, ast.If):
            mm = re.match(r'%s\.user\.options\.uses\(converter\.Feature\.(\w+)\)$' % ctxvar, ast.unparse(s.test))
            if not mm or s.orelse:
                _fail('api.py', s, 'unrecognised condition in transform_ast')
            for b in s.body:
                mn = pass_stmt(b)
                if not mn:
                    _fail('api.py', b, 'unrecognised statement under a feature gate')
                order.append((mn, mm.group(1)))
            started = True
            continue
        if isinstance(s, ast.Return):
            if ast.unparse(s.value) != nodevar:
                _fail('api.py', s, 'transform_ast returns something else than the transformed node')
            continue
        if started:
            _fail('api.py', s, 'unrecognised statement between passes')
        u = ast.unparse(s)
        if not (u.startswith('unsupported_features_checker.verify(') or
                u == '%s = self.initial_analysis(%s, %s)' % (nodevar, nodevar, ctxvar)):
            _fail('api.py', s, 'unrecognised statement before the first pass')
    if not order:
        raise Untranslatable('untranslatable: api.py: no passes found in transform_ast')

    passes = []     # (name, gate, entries) ; entries: (kind, gate, all, fields, rw, intro)
    features = set(g for _, g in order if g)
    meta = {'debugger_names': [], 'operator_names': {}}
    for module, gate in order:
        fn = os.path.join('malt', 'converters', module + '.py')
        path = os.path.join(repo, fn)
        if not os.path.exists(path):
            raise Untranslatable('untranslatable: api.py: pass module %s not found' % module)
        with open(path) as f:
            mod = ast.parse(f.read())
        tr = [n for n in mod.body if isinstance(n, ast.FunctionDef) and n.name == 'transform']
        if len(tr) != 1:
            raise Untranslatable('untranslatable: %s: transform() not found' % fn)
        classes = {n.name: n for n in mod.body if isinstance(n, ast.ClassDef) and ClassInfo._is_transformer(n)}
        used = []
        tvars = {}
        for n in ast.walk(tr[0]):
            if isinstance(n, ast.Assign) and len(n.targets) == 1 and isinstance(n.targets[0], ast.Name) \
                    and isinstance(n.value, ast.Call) and isinstance(n.value.func, ast.Name) \
                    and n.value.func.id in classes:
                tvars[n.targets[0].id] = n.value.func.id
        for n in ast.walk(tr[0]):
            if isinstance(n, ast.Call) and isinstance(n.func, ast.Attribute) and n.func.attr == 'visit':
                b = n.func.value
                if isinstance(b, ast.Call) and isinstance(b.func, ast.Name) and b.func.id in classes:
                    used.append((n.lineno, n.col_offset, b.func.id))
                elif isinstance(b, ast.Name) and b.id in tvars:
                    used.append((n.lineno, n.col_offset, tvars[b.id]))
                else:
                    _fail(fn, n, 'transform(): visit on an unrecognised transformer')
        if not used:
            raise Untranslatable('untranslatable: %s: transform() runs no transformer' % fn)
        for _, _, cname in sorted(used):
            ci = ClassInfo(fn, mod, classes[cname])
            _CI[0] = ci
            entries = []
            for mname, m in ci.methods.items():
                if not mname.startswith('visit_') or mname == 'visit_block':
                    continue
                kind = mname[len('visit_'):]
                if kind not in all_nodes:
                    _fail(fn, m, 'handler for unknown node kind ' + kind)
                var = m.args.args[1].arg
                if always_generic(m.body, var):
                    allf, fields, sub = True, [], {}
                else:
                    allf = False
                    fields, sub = visited_fields(ci, m, var, nfields, kind)
                    if _has_gv(m, var):
                        # generic_visit(node) on some paths only: counts as no traversal
                        pass
                for f in fields:
                    if f not in [x for x, _ in nfields[kind]]:
                        _fail(fn, m, '%s has no node field %s' % (kind, f))
                rk = rewrite_class(ci, m, var)
                rw = 'Always' if rk == {'N'} else 'Never' if rk == {'O'} else 'Sometimes'
                if rw == 'Sometimes' and PINNED_ALWAYS.get((cname, mname)) == _method_hash(m):
                    rw = 'Always'
                intro = template_kinds(ci, mname, interest, all_nodes)
                # operator names given dynamically (logical_expressions): every name must be an ag__ one
                if any(x.startswith('?') for x in intro):
                    names = []
                    for n in mod.body:
                        if isinstance(n, ast.Assign) and isinstance(n.value, ast.Dict):
                            names += [v.value for v in n.value.values if isinstance(v, ast.Constant)]
                    for c in ast.walk(ci.cls):
                        if isinstance(c, ast.Call) and isinstance(c.func, ast.Attribute) \
                                and c.func.attr in ('_as_binary_function', '_as_unary_function') and c.args \
                                and isinstance(c.args[0], ast.Constant):
                            names.append(c.args[0].value)
                    if not names or not all(isinstance(x, str) and x.startswith('ag__.') for x in names):
                        _fail(fn, m, 'operator name of a generated call is not an ag__ one')
                    meta['operator_names'][cname] = sorted(set(names))
                    intro = set(x for x in intro if not x.startswith('?')) | {'Call.ag'}
                intro = sorted(intro)
                hide = hidden_fields(ci, mname, var, [x for x, _ in nfields[kind]], all_nodes)
                if kind == 'Call':
                    guards = call_guards(ci, m, var) if rw == 'Sometimes' and cname == 'CallTreeTransformer' else None
                    base_rw = 'Always' if guards is not None else rw
                    entries.append(('Call', None, allf, fields, base_rw, intro, hide))
                    for sk in CALL_SUBKINDS:
                        if sk == 'gen':
                            continue
                        g = guards.get(sk) if guards else None
                        if g == 'never':
                            entries.append(('Call.' + sk, None, allf, fields, 'Never', intro, hide))
                        elif g:
                            features.add(g[1])
                            entries.append(('Call.' + sk, (g[1], False), allf, fields, 'Never', intro, hide))
                            entries.append(('Call.' + sk, (g[1], True), allf, fields, base_rw, intro, hide))
                        else:
                            entries.append(('Call.' + sk, None, allf, fields, base_rw, intro, hide))
                    if guards and guards.get('_debugger_names'):
                        meta['debugger_names'] = guards['_debugger_names']
                    entries.append(('Call.gen', None, allf, fields, base_rw, intro, hide))
                    continue
                if kind == 'UnaryOp':
                    r = unary_resolution(ci, m, var, mod) if rw == 'Sometimes' else None
                    for sk in UNARY_SUBKINDS:
                        if r is None:
                            entries.append(('UnaryOp.' + sk, None, allf, fields, rw, intro, hide))
                        else:
                            how = r[0].get(sk)
                            if how is None:
                                entries.append(('UnaryOp.' + sk, None, allf, fields, 'Never', intro, hide))
                            elif how[0] == 'always':
                                entries.append(('UnaryOp.' + sk, None, allf, fields, 'Always', intro, hide))
                            else:
                                features.add(how[0][1])
                                entries.append(('UnaryOp.' + sk, (how[0][1], True), allf, fields, 'Always', intro, hide))
                                entries.append(('UnaryOp.' + sk, (how[0][1], False), allf, fields, 'Never', intro, hide))
                    continue
                entries.append((kind, None, allf, fields, rw, intro, hide))
                if sub:
                    for holder, subfields in sub.items():
                        ftypes = dict(nfields[kind])
                        hk = ftypes.get(holder)
                        if hk not in nfields or hk in sorts and len(sorts[hk]) != 1:
                            _fail(fn, m, 'nested field path through %s' % holder)
                        # the holder node is reached, and of it only these sub-fields
                        if holder not in fields and not allf:
                            entries[-1] = (kind, None, allf, fields + [holder], rw, intro, hide)
                            fields = fields + [holder]
                        if ('visit_' + hk) in ci.methods:
                            _fail(fn, m, 'nested field path and a handler for %s' % hk)
                        entries.append((hk, None, False, list(subfields), 'Never', [], []))
            passes.append((module + '.' + cname, gate, entries))
    meta['features'] = sorted(features)
    return emit(nfields, sorts, S, stmt_fields, passes, sorted(features), meta), passes, meta


def coq_str(s):
    return '"' + s.replace('"', '""') + '"'


def coq_list(xs):
    return '[' + '; '.join(xs) + ']'


def coq_gate(g):
    if g is None:
        return 'None'
    if isinstance(g, tuple):
        return '(Some (%s, %s))' % (coq_str(g[0]), 'true' if g[1] else 'false')
    return '(Some (%s, true))' % coq_str(g)


def emit(nfields, sorts, S, stmt_fields, passes, features, meta):
    out = ['(* GENERATED on every run by tools/translate/c04_tables.py from malt/impl/api.py, malt/converters/*.py',
           '   and CPython\'s ast grammar -- do not edit *)',
           'From Coq Require Import List String Bool.', 'Import ListNotations.',
           'Require Import MV.Route.Traversal MV.Route.Pipeline.', 'Local Open Scope string_scope.', '']
    kinds = sorted(nfields)
    fl = []
    for k in kinds:
        names = [f for f, _ in nfields[k]]
        fl.append('(%s, %s)' % (coq_str(k), coq_list(map(coq_str, names))))
        if k == 'UnaryOp':
            for sk in UNARY_SUBKINDS:
                fl.append('(%s, %s)' % (coq_str('UnaryOp.' + sk), coq_list(map(coq_str, names))))
        if k == 'Call':
            for sk in CALL_SUBKINDS:
                fl.append('(%s, %s)' % (coq_str('Call.' + sk), coq_list(map(coq_str, names))))
        if k == 'Return':
            fl.append('(%s, %s)' % (coq_str('Return.gen'), coq_list(map(coq_str, names))))
    out.append('Definition gen_fields : list (kind * list fname) :=\n  [' + ';\n   '.join(fl) + '].')
    Sk = sorted(S) + ['Return.gen']
    out.append('Definition gen_S : list kind := %s.' % coq_list(map(coq_str, Sk)))
    out.append('Definition gen_stmt_fields : list (kind * fname) :=\n  [' + '; '.join(
        '(%s, %s)' % (coq_str(k), coq_str(f)) for k, f in stmt_fields) + '].')
    out.append('Definition gen_features : list string := %s.' % coq_list(map(coq_str, features)))
    ps = []
    for name, gate, entries in passes:
        es = []
        for kind, g, allf, fields, rw, intro, hide in entries:
            es.append('(%s, %s, mkAction %s %s %s %s %s)' % (
                coq_str(kind), coq_gate(g), 'true' if allf else 'false', coq_list(map(coq_str, fields)), rw,
                coq_list(map(coq_str, intro)), coq_list(map(coq_str, hide))))
        ps.append('mkGpass %s %s\n     [' % (coq_str(name), coq_gate(gate)) + ';\n      '.join(es) + ']')
    out.append('Definition gen_passes : list gpass :=\n  [' + ';\n   '.join(ps) + '].')
    return '\n'.join(out) + '\n'


if __name__ == '__main__':
    import sys
    print(translate(sys.argv[1] if len(sys.argv) > 1 else '/repo')[0])
