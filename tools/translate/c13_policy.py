"""Fail-closed syntactic translator for C13:
   malt/impl/api.py (converted_call, _call_unconverted, _fall_back_unconverted, is_autograph_artifact,
                     is_autograph_strict_conversion_mode),
   malt/impl/conversion.py (is_unsupported, is_allowlisted, is_in_allowlist_cache, cache_allowlisted),
   malt/core/config.py (CONVERSION_RULES), malt/core/config_lib.py (Rule.matches, get_action)
   -> coq/Generated/C13_gen.v

Every function body is flattened into an ORDERED DECISION LIST  [(condition, result)]  (first entry
whose condition holds decides).  Conditions are boolean formulas over the atoms of
coq/Policy/PolicySyntax.v; an atom stands for one test *as spelled in the source* (table ATOMS
below, compared after ast.unparse).  Recognised statement shapes (anything else -> Untranslatable):

  logging.log(...)                                  ignored (no effect on the decision)
  if <cond>: <stmts ending in return/raise>         entries guarded by <cond>; `else:`/`elif` guarded by the negation
  return <call>                                     the calls listed in _action_of_return / True / False
  try: <body> except Exception as e: <handler>      handler must be exactly: log; if <strict>: raise; return _fall_back_unconverted(f, args, kwargs, options, e)
  the `options is None` preamble, the functools.partial block, the target_entity/effective_args block,
  the `program_ctx/_convert_actual` block and the final `converted_f(*effective_args[, **kwargs])` block
  of converted_call are matched structurally (see the functions below) and emitted as separate tables.
"""
import ast
import os


class Untranslatable(Exception):
    pass


def _fail(fname, node, msg):
    raise Untranslatable('untranslatable: %s:%s: %s' % (fname, getattr(node, 'lineno', '?'), msg))


def U(node):
    return ast.unparse(node)


# ---------------------------------------------------------------- conditions
ATOMS_CALL = {
    'options is None': 'CAtom AOptsNone',
    'caller_fn_scope is None': 'CAtom AScopeNone',
    'conversion.is_in_allowlist_cache(f, options)': 'CAtom AInCache',
    'ag_ctx.control_status_ctx().status == ag_ctx.Status.DISABLED': 'CAtom ACtxDisabled',
    'is_autograph_artifact(f)': 'CAtom AArtifact',
    'isinstance(f, functools.partial)': 'CAtom APartial',
    'inspect_utils.isbuiltin(f)': 'CAtom ABuiltin',
    'f is eval': 'CAtom AIsEval',
    'f is super': 'CAtom AIsSuper',
    'f is globals': 'CAtom AIsGlobals',
    'f is locals': 'CAtom AIsLocals',
    'kwargs': 'CAtom AKwTruthy',
    'kwargs is not None': 'CAtom AKwNotNone',
    'kwargs is None': 'CNot (CAtom AKwNotNone)',
    'conversion.is_unsupported(f)': 'CAtom AUnsupported',
    'options.user_requested': 'CAtom AUserRequested',
    'conversion.is_allowlisted(f)': 'CAtom AAllowlisted',
    'options.internal_convert_user_code': 'CAtom AInternalConvert',
    'inspect.ismethod(f)': 'CAtom AIsMethod',
    'inspect.isfunction(f)': 'CAtom AIsFunction',
    'f_self is not None': 'CAtom ASelfNotNone',
    "getattr(f, '__self__', None) is not None": 'CAtom ASelfNotNone',
    # truthiness of the receiver is a different predicate (falsy receivers exist): its own atom
    'f_self': 'CAtom ASelfTruthy',
    "getattr(f, '__self__', None)": 'CAtom ASelfTruthy',
    "hasattr(f, '__class__')": 'CAtom AHasClass',
    "hasattr(f.__class__, '__call__')": 'CAtom AClassHasCall',
    "hasattr(target_entity, '__code__')": 'CAtom ATargetHasCode',
    "hasattr(target_entity.__code__, 'co_filename')": 'CAtom ACodeHasFilename',
    "target_entity.__code__.co_filename == '<string>'": 'CAtom AFilenameString',
    'is_autograph_strict_conversion_mode()': 'CAtom AStrict',
    'f.keywords is not None': 'CAtom AStoredKwNotNone',
}
ATOMS_CU = {
    'update_cache': 'CAtom AUpdateCacheFlag',
    'kwargs is not None': 'CAtom AKwNotNone',
    'kwargs is None': 'CNot (CAtom AKwNotNone)',
}
ATOMS_FB = {
    'isinstance(exc, errors.InaccessibleSourceCodeError)': 'CAtom AExcInaccessible',
    'isinstance(exc, errors.UnsupportedLanguageElementError)': 'CAtom AExcUnsupportedLang',
    'ag_ctx.INSPECT_SOURCE_SUPPORTED': 'CAtom AInspectSupported',
    'conversion.is_in_allowlist_cache(f, options)': 'CAtom AInCache',
}
ATOMS_UNSUP = {
    "_is_known_loaded_type(o, 'wrapt', 'FunctionWrapper')": 'CAtom AWraptFunction',
    "_is_known_loaded_type(o, 'wrapt', 'BoundFunctionWrapper')": 'CAtom AWraptBound',
    "_is_known_loaded_type(o, 'functools', '_lru_cache_wrapper')": 'CAtom ALruCache',
    'inspect_utils.isconstructor(o)': 'CAtom AConstructor',
    "hasattr(o, '__module__') and hasattr(o.__module__, '_IS_TENSORFLOW_PLUGIN')": 'CAtom ATfPlugin',
}
ATOMS_ALLOW = {
    'isinstance(o, functools.partial)': 'CAtom AIsPartialObj',
    "hasattr(m, '__name__')": 'CAtom AModuleHasName',
    "hasattr(o, '__code__')": 'CAtom AHasCode',
    'inspect.isgeneratorfunction(o)': 'CAtom AIsGenerator',
    'check_call_override': 'CAtom ACheckCallOverride',
    'inspect.isclass(o)': 'CAtom AIsClass',
    "hasattr(o, '__call__')": 'CAtom AHasCall',
    'type(o) != type(o.__call__)': 'CAtom ACallTypeDiffers',
    'is_allowlisted(o.__call__)': 'CAtom ACallAllowlisted',
    'inspect.ismethod(o)': 'CAtom AIsMethodObj',
    'owner_class is not None': 'CAtom AOwnerNotNone',
    'issubclass(owner_class, unittest.TestCase)': 'CAtom AOwnerIsTestCase',
    'is_allowlisted(owner_class, check_call_override=False, allow_namedtuple_subclass=True)': 'CAtom AOwnerAllowlisted',
    'inspect_utils.isnamedtuple(o)': 'CAtom AIsNamedTuple',
    'allow_namedtuple_subclass': 'CAtom AAllowNtSubclass',
    'any((inspect_utils.isnamedtuple(base) for base in o.__bases__))': 'CAtom ABaseIsNamedTuple',
}


def cond_of(fname, node, atoms, extra=None):
    s = U(node)
    if s in atoms:
        return atoms[s]
    if extra is not None:
        r = extra(node)
        if r is not None:
            return r
    if isinstance(node, ast.BoolOp):
        parts = [cond_of(fname, v, atoms, extra) for v in node.values]
        op = 'CAnd' if isinstance(node.op, ast.And) else 'COr'
        out = parts[-1]
        for p in reversed(parts[:-1]):
            out = '(%s %s %s)' % (op, _par(p), _par(out))
        return out
    if isinstance(node, ast.UnaryOp) and isinstance(node.op, ast.Not):
        return 'CNot %s' % _par(cond_of(fname, node.operand, atoms, extra))
    if isinstance(node, ast.Constant) and node.value is True:
        return 'CTrue'
    _fail(fname, node, 'unknown condition `%s`' % s)


def _par(s):
    return s if (s.startswith('(') or ' ' not in s) else '(%s)' % s


def c_and(a, b):
    if a == 'CTrue':
        return b
    if b == 'CTrue':
        return a
    return 'CAnd %s %s' % (_par(a), _par(b))


def c_not(a):
    return 'CNot %s' % _par(a)


def _is_log(st):
    return (isinstance(st, ast.Expr) and isinstance(st.value, ast.Call)
            and U(st.value.func) == 'logging.log')


def _nodoc(fn):
    body = fn.body
    if body and isinstance(body[0], ast.Expr) and isinstance(body[0].value, ast.Constant) \
            and isinstance(body[0].value.value, str):
        body = body[1:]
    return body


def _find_fn(tree, name, fname):
    for n in tree.body:
        if isinstance(n, ast.FunctionDef) and n.name == name:
            return n
    raise Untranslatable('untranslatable: %s: function %s not found' % (fname, name))


class Flattener(object):
    """Generic statement list -> decision list.  `ret` maps a Return/Raise node to a result term;
    `special` may consume a statement (return list of entries, or None if not recognised);
    `harmless` says whether an expression statement can be ignored."""

    def __init__(self, fname, atoms, ret, special=None, harmless=None, extra_cond=None):
        self.fname, self.atoms, self.ret, self.special = fname, atoms, ret, special
        self.harmless = harmless or (lambda st: False)
        self.extra_cond = extra_cond

    def cond(self, node):
        return cond_of(self.fname, node, self.atoms, self.extra_cond)

    def flat(self, stmts, guard):
        """-> (entries, terminates)"""
        entries = []
        for st in stmts:
            if _is_log(st) or self.harmless(st):
                continue
            if self.special is not None:
                r = self.special(self, st, guard)
                if r is not None:
                    entries += r
                    continue
            if isinstance(st, (ast.Return, ast.Raise)):
                entries.append((guard, self.ret(st)))
                return entries, True
            if isinstance(st, ast.If):
                c = self.cond(st.test)
                e1, t1 = self.flat(st.body, c_and(guard, c))
                entries += e1
                if not t1 and self._has_effect(st.body):
                    _fail(self.fname, st, 'branch with effects falls through')
                if st.orelse:
                    e2, t2 = self.flat(st.orelse, c_and(guard, c_not(c)))
                    entries += e2
                    if not t2 and self._has_effect(st.orelse):
                        _fail(self.fname, st, 'else branch with effects falls through')
                    if t1 and t2:
                        return entries, True
                continue
            _fail(self.fname, st, 'statement shape `%s`' % U(st).split('\n')[0])
        return entries, False

    def _has_effect(self, stmts):
        for st in stmts:
            if _is_log(st) or self.harmless(st):
                continue
            if isinstance(st, ast.If):
                if self._has_effect(st.body) or self._has_effect(st.orelse):
                    return True
                continue
            if isinstance(st, (ast.Return, ast.Raise)):
                continue
            return True
        return False


def emit_dl(entries):
    return '[' + ';\n   '.join('(%s, %s)' % (c, a) for c, a in entries) + ']'


# ---------------------------------------------------------------- api.py
def translate_api(tree, fname='api.py'):
    out = {}
    # --- _call_unconverted
    cu = _find_fn(tree, '_call_unconverted', fname)
    params = [a.arg for a in cu.args.args]
    if params != ['f', 'args', 'kwargs', 'options', 'update_cache'] or cu.args.vararg or cu.args.kwarg \
            or len(cu.args.defaults) != 1 or not isinstance(cu.args.defaults[0], ast.Constant) \
            or not isinstance(cu.args.defaults[0].value, bool):
        _fail(fname, cu, '_call_unconverted signature')
    cu_default = cu.args.defaults[0].value
    body = _nodoc(cu)
    if not (body and isinstance(body[0], ast.If) and not body[0].orelse and len(body[0].body) == 1
            and U(body[0].body[0]) == 'conversion.cache_allowlisted(f, options)'):
        _fail(fname, cu, '_call_unconverted: first statement must be `if <c>: conversion.cache_allowlisted(f, options)`')
    out['cu_cache'] = cond_of(fname, body[0].test, ATOMS_CU)

    def cu_ret(st):
        if isinstance(st, ast.Return) and st.value is not None:
            s = U(st.value)
            if s == 'f(*args, **kwargs)':
                return 'StarArgsKw'
            if s == 'f(*args)':
                return 'StarArgs'
        _fail(fname, st, '_call_unconverted result `%s`' % U(st))
    ents, term = Flattener(fname, ATOMS_CU, cu_ret).flat(body[1:], 'CTrue')
    if not term:
        _fail(fname, cu, '_call_unconverted may fall off its end')
    out['cu_call'] = ents
    out['cu_default'] = cu_default

    # --- _fall_back_unconverted
    fb = _find_fn(tree, '_fall_back_unconverted', fname)
    if [a.arg for a in fb.args.args] != ['f', 'args', 'kwargs', 'options', 'exc'] or fb.args.defaults:
        _fail(fname, fb, '_fall_back_unconverted signature')
    body = _nodoc(fb)
    last = body[-1]
    if not (isinstance(last, ast.Return) and U(last.value) in (
            '_call_unconverted(f, args, kwargs, options)',)):
        _fail(fname, last, '_fall_back_unconverted must end in `return _call_unconverted(f, args, kwargs, options)`')
    out['fb_final'] = 'ACallUnconv %s' % ('true' if cu_default else 'false')
    tmpl_names = set()

    def fb_harmless(st):
        # the assignments of the message template / file_bug_message (string constants only)
        if isinstance(st, ast.Assign) and len(st.targets) == 1 and isinstance(st.targets[0], ast.Name) \
                and isinstance(st.value, ast.Constant) and isinstance(st.value.value, str):
            tmpl_names.add(st.targets[0].id)
            return True
        return False

    # the if/elif/else over the exception kind: each leaf is `logging.warning(warning_template, f, <str>, exc)`
    def fb_walk(stmts, guard):
        """-> entries (cond, bool): does this path warn"""
        ents = []
        warned = False
        for st in stmts:
            if fb_harmless(st) or _is_log(st):
                continue
            if isinstance(st, ast.Expr) and isinstance(st.value, ast.Call) and U(st.value.func) == 'logging.warning':
                a = st.value.args
                if not (len(a) == 4 and isinstance(a[0], ast.Name) and a[0].id in tmpl_names
                        and U(a[1]) == 'f' and U(a[3]) == 'exc'):
                    _fail(fname, st, 'warning call shape')
                warned = True
                continue
            if isinstance(st, ast.If):
                if warned:
                    _fail(fname, st, 'condition after a warning')
                c = cond_of(fname, st.test, ATOMS_FB)
                ents += fb_walk(st.body, c_and(guard, c))
                if st.orelse:
                    ents += fb_walk(st.orelse, c_and(guard, c_not(c)))
                    return ents            # if/else covers everything below
                # an `if` without else: the path where it does not hold continues below
                guard = c_and(guard, c_not(c))
                continue
            _fail(fname, st, '_fall_back_unconverted statement `%s`' % U(st).split('\n')[0])
        ents.append((guard, 'true' if warned else 'false'))
        return ents
    out['fb_warn'] = fb_walk(body[:-1], 'CTrue')

    # --- is_autograph_artifact / strict mode: pinned spellings (the atoms are evaluated by calling them)
    art = _find_fn(tree, 'is_autograph_artifact', fname)
    if U(_nodoc(art)[0]) != "return hasattr(entity, 'autograph_info__')":
        _fail(fname, art, 'is_autograph_artifact shape')
    sm = _find_fn(tree, 'is_autograph_strict_conversion_mode', fname)
    if U(_nodoc(sm)[0]) != "return int(os.environ.get('AUTOGRAPH_STRICT_CONVERSION', '0')) > 0":
        _fail(fname, sm, 'is_autograph_strict_conversion_mode shape')

    # --- converted_call
    cc = _find_fn(tree, 'converted_call', fname)
    if [a.arg for a in cc.args.args] != ['f', 'args', 'kwargs', 'caller_fn_scope', 'options'] \
            or [U(d) for d in cc.args.defaults] != ['None', 'None'] or cc.args.vararg or cc.args.kwarg:
        _fail(fname, cc, 'converted_call signature')
    state = {'target': None, 'self_prepend': None, 'final_call': None, 'partial': None,
             'options_from_scope': False, 'convert_seen': False}

    def cc_ret(st):
        if isinstance(st, ast.Raise):
            if st.exc is None:
                return 'AReraise'
            if isinstance(st.exc, ast.Call) and U(st.exc.func) == 'ValueError':
                return 'ARaiseValueError'
            _fail(fname, st, 'raise shape')
        s = U(st.value) if st.value is not None else ''
        table = {
            '_call_unconverted(f, args, kwargs, options)': 'ACallUnconv %s' % ('true' if cu_default else 'false'),
            '_call_unconverted(f, args, kwargs, options, False)': 'ACallUnconv false',
            '_call_unconverted(f, args, kwargs, options, True)': 'ACallUnconv true',
            '_call_unconverted(f, args, kwargs, options, update_cache=False)': 'ACallUnconv false',
            '_call_unconverted(f, args, kwargs, options, update_cache=True)': 'ACallUnconv true',
            'py_builtins.eval_in_original_context(f, args, caller_fn_scope)': 'AFrameBuiltin FEval',
            'py_builtins.super_in_original_context(f, args, caller_fn_scope)': 'AFrameBuiltin FSuper',
            'py_builtins.globals_in_original_context(caller_fn_scope)': 'AFrameBuiltin FGlobals',
            'py_builtins.locals_in_original_context(caller_fn_scope)': 'AFrameBuiltin FLocals',
            'py_builtins.overload_of(f)(*args, **kwargs)': 'AOverload StarArgsKw',
            'py_builtins.overload_of(f)(*args)': 'AOverload StarArgs',
            '_fall_back_unconverted(f, args, kwargs, options, e)': 'AFallback',
            'result': 'AConvertCall',
        }
        if s in table:
            if s == 'result' and not (state['convert_seen'] and state['final_call']):
                _fail(fname, st, '`return result` before the conversion / final call blocks')
            return table[s]
        _fail(fname, st, 'return shape `%s`' % s)

    def handler_entries(fl, h, guard):
        if not (isinstance(h, ast.ExceptHandler) and h.type is not None and U(h.type) == 'Exception' and h.name == 'e'):
            _fail(fname, h, 'handler must be `except Exception as e`')
        ents, term = Flattener(fname, ATOMS_CALL, cc_ret).flat(h.body, guard)
        if not term:
            _fail(fname, h, 'handler falls through')
        for c, a in ents:
            if a not in ('AReraise', 'AFallback'):
                _fail(fname, h, 'handler action %s' % a)
        return ents

    def special(fl, st, guard):
        # preamble: options from the caller scope
        if isinstance(st, ast.If) and U(st.test) == 'options is None':
            b = st.body
            if not (len(b) == 2 and isinstance(b[0], ast.If) and U(b[0].test) == 'caller_fn_scope is None'
                    and len(b[0].body) == 1 and isinstance(b[0].body[0], ast.Raise) and not b[0].orelse
                    and U(b[1]) == 'options = caller_fn_scope.callopts' and not st.orelse):
                _fail(fname, st, 'options preamble shape')
            state['options_from_scope'] = True
            return [(c_and(guard, c_and('CAtom AOptsNone', 'CAtom AScopeNone')), cc_ret(b[0].body[0]))]
        # functools.partial block
        if isinstance(st, ast.If) and U(st.test) == 'isinstance(f, functools.partial)':
            state['partial'] = _partial_block(fname, st)
            return [(c_and(guard, 'CAtom APartial'), 'ARecursePartial')]
        if isinstance(st, ast.Try):
            if st.orelse or st.finalbody or len(st.handlers) != 1:
                _fail(fname, st, 'try shape')
            body = [s for s in st.body if not _is_log(s)]
            # (a) target resolution
            if len(body) == 1 and isinstance(body[0], ast.If) and 'target_entity' in U(body[0]):
                tgt, prepend, no_target = _target_block(fname, body[0])
                state['target'], state['self_prepend'] = tgt, prepend
                return handler_entries(fl, st.handlers[0], c_and(guard, no_target))
            # (b) conversion
            srcs = [U(s) for s in body]
            if srcs[:2] == ['program_ctx = converter.ProgramContext(options=options)',
                            'converted_f = _convert_actual(target_entity, program_ctx)']:
                for s in body[2:]:
                    if U(s) != 'if logging.has_verbosity(2):\n    _log_callargs(converted_f, effective_args, kwargs)':
                        _fail(fname, s, 'statement in the conversion try block')
                state['convert_seen'] = True
                return handler_entries(fl, st.handlers[0], c_and(guard, 'CAtom AConvRaises'))
            # (c) the call of the converted function
            if len(body) == 1 and isinstance(body[0], ast.If) and 'converted_f(' in U(body[0]):
                h = st.handlers[0]
                if not (U(h.type) == 'Exception' and [U(s) for s in h.body] == ['_attach_error_metadata(e, converted_f)', 'raise']):
                    _fail(fname, h, 'handler of the converted call must attach metadata and re-raise')

                def fc_ret(s):
                    if isinstance(s, ast.Assign) and U(s.targets[0]) == 'result':
                        v = U(s.value)
                        if v == 'converted_f(*effective_args, **kwargs)':
                            return 'StarArgsKw'
                        if v == 'converted_f(*effective_args)':
                            return 'StarArgs'
                    _fail(fname, s, 'converted call shape')
                i = body[0]
                if not (len(i.body) == 1 and len(i.orelse) == 1):
                    _fail(fname, i, 'converted call if/else shape')
                c = cond_of(fname, i.test, ATOMS_CALL)
                state['final_call'] = [(c, fc_ret(i.body[0])), (c_not(c), fc_ret(i.orelse[0]))]
                return []
            _fail(fname, st, 'unrecognised try block')
        return None

    fl = Flattener(fname, ATOMS_CALL, cc_ret, special)
    ents, term = fl.flat(_nodoc(cc), 'CTrue')
    if not term:
        _fail(fname, cc, 'converted_call may fall off its end')
    for k in ('target', 'self_prepend', 'final_call', 'partial'):
        if state[k] is None:
            _fail(fname, cc, 'converted_call: %s block not found' % k)
    if not state['options_from_scope']:
        _fail(fname, cc, 'options preamble not found')
    out['chain'] = ents
    out.update(state)
    return out


def _partial_block(fname, st):
    """if isinstance(f, functools.partial): ... return converted_call(f.func, new_args, new_kwargs, ...)"""
    body = [s for s in st.body if not _is_log(s)]
    if st.orelse:
        _fail(fname, st, 'partial block has else')
    kw = []
    args = None
    ret = None
    started = False
    for s in body:
        src = U(s)
        if src == 'new_kwargs = {}':
            if started:
                _fail(fname, s, 'new_kwargs reset')
            started = True
        elif isinstance(s, ast.If) and not s.orelse and len(s.body) == 1 and started:
            g = cond_of(fname, s.test, ATOMS_CALL)
            b = U(s.body[0])
            if b == 'new_kwargs = f.keywords.copy()':
                kw.append('KCopy SStored %s' % _par(g))
            elif b == 'new_kwargs = kwargs.copy()':
                kw.append('KCopy SCall %s' % _par(g))
            elif b == 'new_kwargs.update(kwargs)':
                kw.append('KUpdate SCall %s' % _par(g))
            elif b == 'new_kwargs.update(f.keywords)':
                kw.append('KUpdate SStored %s' % _par(g))
            else:
                _fail(fname, s, 'partial keyword step `%s`' % b)
        elif src == 'new_args = f.args + args':
            args = ['SStored', 'SCall']
        elif src == 'new_args = args + f.args':
            args = ['SCall', 'SStored']
        elif isinstance(s, ast.Return):
            ret = src
        else:
            _fail(fname, s, 'partial block statement `%s`' % src.split('\n')[0])
    ok_ret = ('return converted_call(f.func, new_args, new_kwargs, caller_fn_scope=caller_fn_scope, options=options)',)
    if ret not in ok_ret or args is None or not started:
        _fail(fname, st, 'partial block shape (return: %s)' % ret)
    return 'mk_partial_spec [%s] [%s] true' % ('; '.join(args), '; '.join(kw))


def _target_block(fname, i):
    """if ismethod or isfunction: target_entity = f ... elif callable object ... else raise
       -> (target table, self-prepend condition, condition under which no target is found)"""
    table = []
    prepend = None
    neg = 'CTrue'
    node = i
    while True:
        c = cond_of(fname, node.test, ATOMS_CALL)
        srcs = [U(s) for s in node.body]
        if srcs[:2] == ['target_entity = f', 'effective_args = args']:
            rest = node.body[2:]
            if len(rest) == 2 and U(rest[0]) == "f_self = getattr(f, '__self__', None)" and isinstance(rest[1], ast.If) \
                    and not rest[1].orelse and [U(s) for s in rest[1].body] == ['effective_args = (f_self,) + effective_args']:
                prepend = cond_of(fname, rest[1].test, ATOMS_CALL)
            elif len(rest) == 1 and isinstance(rest[0], ast.If) and not rest[0].orelse \
                    and [U(s) for s in rest[0].body] == ['effective_args = (f.__self__,) + effective_args']:
                prepend = cond_of(fname, rest[0].test, ATOMS_CALL)
            else:
                _fail(fname, node, 'effective_args derivation for functions/methods')
            table.append((c_and(neg, c), 'TSelf'))
        elif srcs == ['target_entity = f.__class__.__call__', 'effective_args = (f,) + args']:
            table.append((c_and(neg, c), 'TClassCall'))
        else:
            _fail(fname, node, 'target_entity branch `%s`' % ' ; '.join(srcs))
        neg = c_and(neg, c_not(c))
        if len(node.orelse) == 1 and isinstance(node.orelse[0], ast.If):
            node = node.orelse[0]
            continue
        e = node.orelse
        if not (len(e) == 2 and U(e[0]) == 'target_entity = f' and isinstance(e[1], ast.Raise)
                and isinstance(e[1].exc, ast.Call) and U(e[1].exc.func) == 'NotImplementedError'):
            _fail(fname, node, 'target_entity else branch must raise NotImplementedError')
        break
    if prepend is None:
        _fail(fname, i, 'no function/method branch')
    return table, prepend, neg


# ---------------------------------------------------------------- conversion.py
def translate_conversion(tree, fname='conversion.py'):
    out = {}

    def bool_ret(st):
        if isinstance(st, ast.Return) and isinstance(st.value, ast.Constant) and isinstance(st.value.value, bool):
            return 'true' if st.value.value else 'false'
        _fail(fname, st, 'must return True/False')

    # --- is_unsupported
    un = _find_fn(tree, 'is_unsupported', fname)
    std = {}

    def unsup_extra(node):
        if isinstance(node, ast.Call) and U(node.func) == 'any' and len(node.args) == 1 \
                and isinstance(node.args[0], ast.GeneratorExp):
            g = node.args[0]
            if U(g.elt) == '_is_of_known_loaded_module(o, m)' and len(g.generators) == 1 \
                    and U(g.generators[0].target) == 'm' and isinstance(g.generators[0].iter, ast.Tuple) \
                    and all(isinstance(e, ast.Constant) and isinstance(e.value, str) for e in g.generators[0].iter.elts) \
                    and not g.generators[0].ifs:
                std['mods'] = [e.value for e in g.generators[0].iter.elts]
                return 'CAtom AOfStdModule'
        return None

    def warn_ok(st):
        return isinstance(st, ast.Expr) and isinstance(st.value, ast.Call) and U(st.value.func) == 'logging.warning'
    ents, term = Flattener(fname, ATOMS_UNSUP, bool_ret, harmless=warn_ok, extra_cond=unsup_extra).flat(_nodoc(un), 'CTrue')
    if not term:
        _fail(fname, un, 'is_unsupported may fall off its end')
    out['unsupported'] = ents
    out['std_modules'] = std.get('mods', [])

    # --- is_allowlisted
    al = _find_fn(tree, 'is_allowlisted', fname)
    if [a.arg for a in al.args.args] != ['o', 'check_call_override', 'allow_namedtuple_subclass'] \
            or [U(d) for d in al.args.defaults] != ['True', 'False']:
        _fail(fname, al, 'is_allowlisted signature')
    seen = {'module': False, 'rules': False}
    allowed_assign = {'owner_class = None', 'owner_class = inspect_utils.getmethodclass(o)',
                      'owner_class = inspect_utils.getdefiningclass(o, owner_class)'}

    def al_special(fl, st, guard):
        if isinstance(st, ast.If) and U(st.test) == 'isinstance(o, functools.partial)':
            if not ([U(s) for s in st.body] == ['m = functools'] and [U(s) for s in st.orelse] == ['m = inspect.getmodule(o)']):
                _fail(fname, st, 'module lookup shape')
            seen['module'] = True
            return []
        if isinstance(st, ast.If) and U(st.test) == "hasattr(m, '__name__')":
            b = st.body
            want = ('for rule in config.CONVERSION_RULES:\n'
                    '    action = rule.get_action(m)\n'
                    '    if action == config.Action.CONVERT:\n'
                    '        {l1}return False\n'
                    '    elif action == config.Action.DO_NOT_CONVERT:\n'
                    '        {l2}return True')
            if not (len(b) == 1 and isinstance(b[0], ast.For) and not st.orelse and not b[0].orelse):
                _fail(fname, st, 'rule loop shape')
            loop = b[0]
            # drop the log lines, compare the rest literally
            class Strip(ast.NodeTransformer):
                def visit_Expr(self, n):
                    return None if _is_log(n) else n
            stripped = U(ast.fix_missing_locations(Strip().visit(ast.parse(U(loop)))))
            if stripped != want.format(l1='', l2=''):
                _fail(fname, st, 'rule loop body')
            seen['rules'] = True
            g = c_and(guard, 'CAtom AModuleHasName')
            return [(c_and(g, 'CAtom ARuleConvert'), 'false'), (c_and(g, 'CAtom ARuleDoNotConvert'), 'true')]
        if isinstance(st, ast.Assign):
            if U(st) in allowed_assign:
                return []
            _fail(fname, st, 'assignment `%s`' % U(st))
        return None

    class AlFlat(Flattener):
        def _has_effect(self, stmts):
            # the owner_class assignments are bindings of later atoms, not effects
            return Flattener._has_effect(self, [s for s in stmts if not (isinstance(s, ast.Assign) and U(s) in allowed_assign)])
    ents, term = AlFlat(fname, ATOMS_ALLOW, bool_ret, al_special).flat(_nodoc(al), 'CTrue')
    if not term or not seen['module'] or not seen['rules']:
        _fail(fname, al, 'is_allowlisted: module lookup / rule loop / final return missing')
    out['allowlisted'] = ents

    # --- cache helpers: pinned spelling
    ic = _find_fn(tree, 'is_in_allowlist_cache', fname)
    if U(ic.body[-1] if len(_nodoc(ic)) == 1 else ic) .find('return _ALLOWLIST_CACHE.has(entity, options)') < 0:
        _fail(fname, ic, 'is_in_allowlist_cache shape')
    ca = _find_fn(tree, 'cache_allowlisted', fname)
    if U(ca).find('_ALLOWLIST_CACHE[entity][options] = True') < 0:
        _fail(fname, ca, 'cache_allowlisted shape')
    return out


# ---------------------------------------------------------------- config.py / config_lib.py
def translate_config(cfg_tree, lib_tree):
    out = {}
    fname = 'config_lib.py'
    classes = {n.name: n for n in lib_tree.body if isinstance(n, ast.ClassDef)}
    for k in ('Rule', 'Action', 'DoNotConvert', 'Convert'):
        if k not in classes:
            raise Untranslatable('untranslatable: config_lib.py: class %s missing' % k)
    rule = classes['Rule']
    init = [n for n in rule.body if isinstance(n, ast.FunctionDef) and n.name == '__init__']
    if not init or [U(s) for s in _nodoc(init[0])] != ['self._prefix = module_prefix']:
        _fail(fname, rule, 'Rule.__init__ shape')
    m = [n for n in rule.body if isinstance(n, ast.FunctionDef) and n.name == 'matches']
    if not m or len(_nodoc(m[0])) != 1 or not isinstance(_nodoc(m[0])[0], ast.Return):
        _fail(fname, rule, 'Rule.matches shape')
    e = _nodoc(m[0])[0].value
    alts = e.values if (isinstance(e, ast.BoolOp) and isinstance(e.op, ast.Or)) else [e]
    malts = []
    for a in alts:
        s = U(a)
        if s == "module_name.startswith(self._prefix + '.')":
            malts.append('MStartsWithPrefixDot')
        elif s == 'module_name == self._prefix':
            malts.append('MEqualsPrefix')
        else:
            _fail(fname, a, 'Rule.matches alternative `%s`' % s)
    out['matches'] = malts
    acts = {}
    for cname in ('DoNotConvert', 'Convert'):
        c = classes[cname]
        if [U(b) for b in c.bases] != ['Rule']:
            _fail(fname, c, 'base class')
        ga = [n for n in c.body if isinstance(n, ast.FunctionDef) and n.name == 'get_action']
        if not ga:
            _fail(fname, c, 'get_action missing')
        b = _nodoc(ga[0])
        if not (len(b) == 2 and isinstance(b[0], ast.If) and U(b[0].test) == 'self.matches(module.__name__)'
                and len(b[0].body) == 1 and isinstance(b[0].body[0], ast.Return) and not b[0].orelse
                and U(b[1]) == 'return Action.NONE'):
            _fail(fname, c, 'get_action shape')
        r = U(b[0].body[0].value)
        if r not in ('Action.DO_NOT_CONVERT', 'Action.CONVERT'):
            _fail(fname, c, 'get_action result')
        acts[cname] = 'RDoNotConvert' if r == 'Action.DO_NOT_CONVERT' else 'RConvert'
    for n in rule.body + classes['DoNotConvert'].body + classes['Convert'].body:
        if isinstance(n, ast.FunctionDef) and n.name not in ('__init__', 'matches', 'get_action', '__str__'):
            _fail(fname, n, 'unexpected method %s' % n.name)
    fname = 'config.py'
    alias = {}
    rules = None
    for n in cfg_tree.body:
        if isinstance(n, ast.Assign) and len(n.targets) == 1 and isinstance(n.targets[0], ast.Name):
            t = n.targets[0].id
            v = U(n.value)
            if v in ('config_lib.DoNotConvert', 'config_lib.Convert'):
                alias[t] = v.split('.')[1]
            elif t == 'CONVERSION_RULES':
                if not isinstance(n.value, ast.Tuple):
                    _fail(fname, n, 'CONVERSION_RULES must be a tuple display')
                rules = []
                for el in n.value.elts:
                    if not (isinstance(el, ast.Call) and isinstance(el.func, ast.Name) and el.func.id in alias
                            and len(el.args) == 1 and not el.keywords and isinstance(el.args[0], ast.Constant)
                            and isinstance(el.args[0].value, str)):
                        _fail(fname, el, 'rule shape `%s`' % U(el))
                    rules.append((acts[alias[el.func.id]], el.args[0].value))
    if rules is None:
        raise Untranslatable('untranslatable: config.py: CONVERSION_RULES not found')
    out['rules'] = rules
    return out


# ---------------------------------------------------------------- operators/py_builtins.py
ATOMS_OV = {
    'f in SUPPORTED_BUILTINS': 'CAtom AInSupportedBuiltins',
    'any((f is b for b in SUPPORTED_BUILTINS))': 'CAtom AInSupportedBuiltins',
    "getattr(f, '__name__', None) in BUILTIN_FUNCTIONS_MAP": 'CAtom ANameInOverloadMap',
    'f.__name__ in BUILTIN_FUNCTIONS_MAP': 'CAtom ANameInOverloadMap',
}


def translate_builtins(tree, fname='py_builtins.py'):
    out = {}
    ov = _find_fn(tree, 'overload_of', fname)
    if [a.arg for a in ov.args.args] != ['f'] or ov.args.defaults:
        _fail(fname, ov, 'overload_of signature')
    body = _nodoc(ov)

    def ov_ret(st):
        if isinstance(st, ast.Return) and st.value is not None:
            s = U(st.value)
            if s == 'BUILTIN_FUNCTIONS_MAP[f.__name__]':
                return 'OvMapped'
            if s == 'f':
                return 'OvSelf'
        _fail(fname, st, 'overload_of result `%s`' % U(st))
    if len(body) == 1 and isinstance(body[0], ast.Return) and \
            U(body[0].value) == "BUILTIN_FUNCTIONS_MAP.get(getattr(f, '__name__', None), f)":
        # dict.get with default: the name alone selects the overload
        ents = [('CAtom ANameInOverloadMap', 'OvMapped'), ('CTrue', 'OvSelf')]
    else:
        ents, term = Flattener(fname, ATOMS_OV, ov_ret).flat(body, 'CTrue')
        if not term:
            _fail(fname, ov, 'overload_of may fall off its end')
    out['overload'] = ents
    sup = keys = None
    for n in tree.body:
        if isinstance(n, ast.Assign) and len(n.targets) == 1 and isinstance(n.targets[0], ast.Name):
            t = n.targets[0].id
            if t == 'SUPPORTED_BUILTINS':
                if not (isinstance(n.value, ast.Tuple) and all(isinstance(e, ast.Name) for e in n.value.elts)):
                    _fail(fname, n, 'SUPPORTED_BUILTINS must be a tuple of builtin names')
                sup = [e.id for e in n.value.elts]
            elif t == 'BUILTIN_FUNCTIONS_MAP':
                if not isinstance(n.value, ast.Dict):
                    _fail(fname, n, 'BUILTIN_FUNCTIONS_MAP must be a dict display')
                keys = []
                for k, v in zip(n.value.keys, n.value.values):
                    if not (isinstance(k, ast.Constant) and isinstance(k.value, str) and isinstance(v, ast.Name)
                            and v.id == k.value + '_'):
                        _fail(fname, k or n, 'BUILTIN_FUNCTIONS_MAP entry must be \'name\': name_')
                    keys.append(k.value)
    if sup is None or keys is None:
        raise Untranslatable('untranslatable: py_builtins.py: SUPPORTED_BUILTINS / BUILTIN_FUNCTIONS_MAP not found')
    import builtins as _b
    for nme in sup:
        if not hasattr(_b, nme):
            raise Untranslatable('untranslatable: py_builtins.py: SUPPORTED_BUILTINS lists %s which is not a builtin' % nme)
    out['supported'] = sup
    out['map_keys'] = keys
    return out


def coq_str(s):
    return '"' + s.replace('"', '""') + '"'


def translate(repo):
    def parse(rel):
        with open(os.path.join(repo, rel)) as f:
            return ast.parse(f.read())
    api = translate_api(parse('malt/impl/api.py'))
    conv = translate_conversion(parse('malt/impl/conversion.py'))
    cfg = translate_config(parse('malt/core/config.py'), parse('malt/core/config_lib.py'))
    blt = translate_builtins(parse('malt/operators/py_builtins.py'))
    o = []
    o.append('(* GENERATED on every run by tools/translate/c13_policy.py from malt/impl/api.py, malt/impl/conversion.py,')
    o.append('   malt/core/config.py, malt/core/config_lib.py -- do not edit *)')
    o.append('From Coq Require Import List String Bool.')
    o.append('Import ListNotations.')
    o.append('Require Import MV.Policy.PolicySyntax.')
    o.append('Local Open Scope string_scope.')
    o.append('(* converted_call: ordered decision chain, first entry whose condition holds decides *)')
    o.append('Definition chain_gen : list (cond * action) :=\n  %s.' % emit_dl(api['chain']))
    o.append('Definition options_from_scope_gen : bool := %s.' % ('true' if api['options_from_scope'] else 'false'))
    o.append('Definition target_gen : list (cond * target_mode) :=\n  %s.' % emit_dl(api['target']))
    o.append('Definition self_prepend_gen : cond := %s.' % api['self_prepend'])
    o.append('Definition final_call_gen : list (cond * callform) :=\n  %s.' % emit_dl(api['final_call']))
    o.append('Definition partial_gen : partial_spec := %s.' % api['partial'])
    o.append('(* _call_unconverted *)')
    o.append('Definition cu_cache_gen : cond := %s.' % api['cu_cache'])
    o.append('Definition cu_default_flag_gen : bool := %s.' % ('true' if api['cu_default'] else 'false'))
    o.append('Definition cu_call_gen : list (cond * callform) :=\n  %s.' % emit_dl(api['cu_call']))
    o.append('(* _fall_back_unconverted: does the path warn; then the final action *)')
    o.append('Definition fb_warn_gen : list (cond * bool) :=\n  %s.' % emit_dl(api['fb_warn']))
    o.append('Definition fb_final_gen : action := %s.' % api['fb_final'])
    o.append('(* conversion.is_unsupported / is_allowlisted *)')
    o.append('Definition unsupported_gen : list (cond * bool) :=\n  %s.' % emit_dl(conv['unsupported']))
    o.append('Definition std_modules_gen : list string := [%s].' % '; '.join(coq_str(s) for s in conv['std_modules']))
    o.append('Definition allowlisted_gen : list (cond * bool) :=\n  %s.' % emit_dl(conv['allowlisted']))
    o.append('(* config.CONVERSION_RULES, Rule.matches *)')
    o.append('Definition rules_gen : list (rule_action * string) :=\n  [%s].' % ';\n   '.join(
        '(%s, %s)' % (a, coq_str(p)) for a, p in cfg['rules']))
    o.append('Definition matches_gen : list match_alt := [%s].' % '; '.join(cfg['matches']))
    o.append('(* py_builtins.overload_of, SUPPORTED_BUILTINS, keys of BUILTIN_FUNCTIONS_MAP *)')
    o.append('Definition overload_gen : list (cond * overload_result) :=\n  %s.' % emit_dl(blt['overload']))
    o.append('Definition supported_builtins_gen : list string := [%s].' % '; '.join(coq_str(s) for s in blt['supported']))
    o.append('Definition overload_map_gen : list string := [%s].' % '; '.join(coq_str(s) for s in blt['map_keys']))
    return '\n'.join(o) + '\n'


if __name__ == '__main__':
    import sys
    print(translate(sys.argv[1] if len(sys.argv) > 1 else '/repo'))
