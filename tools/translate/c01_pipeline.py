"""Fail-closed translator: the pass pipeline of malt/impl/api.py PyToPy.transform_ast
-> coq/Generated/C01_pipeline_gen.v

Recognised statement shapes inside transform_ast (anything else -> Untranslatable):
    node = <module>.transform(node, ctx)                        a pass
    if ctx.user.options.uses(converter.Feature.<F>): <passes>   feature-gated passes
    <name> = <expr without `.transform(`>                       ignored set-up (e.g. unsupported-feature check)
    <expr statement without `.transform(`>                      ignored
    return node
"""
import ast
import os


class Untranslatable(Exception):
    pass


def translate(repo):
    path = os.path.join(repo, 'malt', 'impl', 'api.py')
    tree = ast.parse(open(path).read())
    fn = None
    for n in ast.walk(tree):
        if isinstance(n, ast.ClassDef) and n.name == 'PyToPy':
            for m in n.body:
                if isinstance(m, ast.FunctionDef) and m.name == 'transform_ast':
                    fn = m
    if fn is None:
        raise Untranslatable('untranslatable: api.py: PyToPy.transform_ast not found')
    passes = []

    def is_pass(st):
        return (isinstance(st, ast.Assign) and len(st.targets) == 1 and isinstance(st.targets[0], ast.Name)
                and st.targets[0].id == 'node' and isinstance(st.value, ast.Call)
                and isinstance(st.value.func, ast.Attribute) and st.value.func.attr == 'transform'
                and isinstance(st.value.func.value, ast.Name)
                and [ast.unparse(a) for a in st.value.args] == ['node', 'ctx'] and not st.value.keywords)

    def walk(stmts, gate):
        for st in stmts:
            if isinstance(st, ast.Expr) and isinstance(st.value, ast.Constant):
                continue
            if is_pass(st):
                passes.append((st.value.func.value.id, gate))
            elif isinstance(st, ast.If):
                t = ast.unparse(st.test)
                pre = 'ctx.user.options.uses(converter.Feature.'
                if not (t.startswith(pre) and t.endswith(')')) or st.orelse or gate is not None:
                    raise Untranslatable('untranslatable: api.py:%d: gate shape %s' % (st.lineno, t))
                walk(st.body, t[len(pre):-1])
            elif isinstance(st, ast.Return):
                if ast.unparse(st.value) != 'node':
                    raise Untranslatable('untranslatable: api.py:%d: return shape' % st.lineno)
            elif '.transform(' in ast.unparse(st):
                raise Untranslatable('untranslatable: api.py:%d: unrecognised use of a pass: %s' % (st.lineno, ast.unparse(st)[:80]))
            elif isinstance(st, (ast.Assign, ast.Expr)):
                continue
            else:
                raise Untranslatable('untranslatable: api.py:%d: statement %s' % (st.lineno, type(st).__name__))
    walk(fn.body, None)
    out = ['(* GENERATED on every run by tools/translate/c01_pipeline.py from malt/impl/api.py -- do not edit *)',
           'From Coq Require Import List String.', 'Import ListNotations.', 'Local Open Scope string_scope.',
           '(* (pass module, feature gate) in execution order *)',
           'Definition pipeline_gen : list (string * option string) := [']
    out.append(';\n'.join('  ("%s", %s)' % (p, 'Some "%s"' % g if g else 'None') for p, g in passes))
    out.append('].')
    return '\n'.join(out) + '\n', passes


if __name__ == '__main__':
    print(translate('/repo')[0])
