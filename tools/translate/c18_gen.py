"""C18: seeded generators of programs and ANF configurations, and the Python mirror of the
model's order guard (classifier of the known evaluation-order findings)."""
import ast

PARAMS = ['a', 'b', 'c', 'd', 'e', 'f', 'g', 'h', 'o', 'p', 'q', 'x', 'y', 'z']
BINOPS = ['+', '-', '*', '/', '//', '%', '**', '<<', '>>', '|', '^', '&', '@']
CMPOPS = ['<', '<=', '>', '>=', '==', '!=', 'is', 'is not', 'in', 'not in']
UNOPS = ['-', '+', '~', 'not ']
ATTRS = ['m', 'n', 'val']
EXC_NAMES = ['Exception', 'TypeError', 'KeyError', 'LookupError']      # builtins: every name read is bound
EXC_VARS = ['e1', 'e2']        # `except T as e1`: unbound again after the clause, so never a parameter name


class Gen(object):
    """profile 'model': only constructs of the Coq model; 'wide': + slices, ** entries, tuple
    targets, delete, try, several with-items, attribute with-targets;  lazy: probability of a
    BoolOp / IfExp / lambda / comprehension / chained comparison in an expression position;
    tryp: probability that a compound statement is a try statement (1-3 except clauses with type
    expressions of every operand shape, `as` names, else, finally, bodies that raise real exceptions)."""

    def __init__(self, rnd, profile='model', lazy=0.0, maxdepth=3, walrus=0.0, tryp=0.0):
        self.r = rnd
        self.tryp = tryp         # probability that a compound statement is a try statement with 1-3 except clauses
        self.bound = []          # names bound by the enclosing `except ... as name` clauses (readable in their bodies only)
        self.walrus = walrus     # probability of an assignment expression `(v := e)` in an operand position
        self.wide = (profile == 'wide')
        self.lazy = lazy
        self.maxdepth = maxdepth

    def name(self):
        if self.bound and self.r.random() < 0.25:
            return self.r.choice(self.bound)
        return self.r.choice(PARAMS)

    def const(self):
        return self.r.choice(['1', '2', "'s'", 'None', 'True', '0', '...', "b'x'", '1.5'])

    def atom(self):
        return self.name() if self.r.random() < 0.8 else self.const()

    def expr(self, d):
        r = self.r
        if d <= 0 or r.random() < 0.18:
            return self.atom()
        if self.lazy and r.random() < self.lazy:
            return self.lazy_expr(d)
        if self.walrus and r.random() < self.walrus:
            # evaluate the value, then bind: as call argument, binop / compare operand, subscript index, test ...
            return '(%s := %s)' % (self.name(), self.expr(d - 1))
        k = r.random()
        e = lambda: self.expr(d - 1 if r.random() < 0.6 else 0)   # noqa
        if k < 0.30:
            return self.call(d)
        if k < 0.45:
            return '(%s %s %s)' % (e(), r.choice(BINOPS), e())
        if k < 0.52:
            return '(%s%s)' % (r.choice(UNOPS), e())
        if k < 0.60:
            return '(%s %s %s)' % (e(), r.choice(CMPOPS), e())
        if k < 0.72:
            return '%s.%s' % (self.postfix_base(d), r.choice(ATTRS))
        if k < 0.82:
            return '%s[%s]' % (self.postfix_base(d), self.index(d))
        if k < 0.88:
            items = [self.star(e()) for _ in range(r.randint(0, 3))]
            return '(%s,)' % ', '.join(items) if items else '()'
        if k < 0.92:
            return '[%s]' % ', '.join(self.star(e()) for _ in range(r.randint(0, 3)))
        if k < 0.95:
            return '{%s}' % ', '.join(self.star(e()) for _ in range(r.randint(1, 3)))
        n = r.randint(0, 3) if r.random() < 0.5 else 1
        ents = []
        for _ in range(n):
            if self.wide and r.random() < 0.2:
                ents.append('**%s' % e())
            else:
                ents.append('%s: %s' % (e(), e()))
        return '{%s}' % ', '.join(ents)

    def star(self, s):
        return '*' + s if self.r.random() < 0.12 else s

    def postfix_base(self, d):
        s = self.expr(d - 1)
        return s if s.isidentifier() else '(%s)' % s

    def index(self, d):
        r = self.r
        if self.wide and r.random() < 0.35:
            part = lambda: self.expr(d - 1) if r.random() < 0.7 else ''   # noqa
            sl = '%s:%s' % (part(), part())
            if r.random() < 0.3:
                sl += ':' + part()
            if r.random() < 0.25:
                sl = '%s, %s' % (self.expr(d - 1), sl)
            return sl
        return self.expr(d - 1)

    def call(self, d):
        r = self.r
        e = lambda: self.expr(d - 1 if r.random() < 0.6 else 0)   # noqa
        fn = self.name() if r.random() < 0.55 else '%s.%s' % (self.postfix_base(d), r.choice(ATTRS)) \
            if r.random() < 0.6 else self.postfix_base(d)
        args = [self.star(e()) for _ in range(r.randint(0, 3))]
        kws = []
        for i in range(r.choice([0, 0, 0, 1, 2])):
            kws.append('k%d=%s' % (i, e()))
        if r.random() < 0.08:
            kws.append('**%s' % e())
        return '%s(%s)' % (fn, ', '.join(args + kws))

    def lazy_expr(self, d):
        r = self.r
        sub = lambda: self.atom() if r.random() < 0.5 else self.expr(d - 1)   # noqa
        k = r.randint(0, 8)
        if k >= 6:
            # lazy operands that nest operations 2-3 deep behind an operand the original may skip
            deep = r.choice(['%s(%s(%s))', '%s(k0=%s(%s(%s)))' if False else '%s(k0=%s(%s))', '(%s + %s(%s))', '%s[%s(%s)].m',
                             '%s(%s, %s(%s(%s)))' if False else '%s(%s(%s), 1)']) % (self.name(), self.name(), self.name())
            if r.random() < 0.4:
                deep = '%s(%s)' % (self.name(), deep)
            first = r.choice([self.name(), self.name(), 'None', '0', '1', 'True'])
            if k == 6:
                return '(%s %s %s)' % (first, r.choice(['and', 'or']), deep)
            if k == 7:
                return r.choice(['(%s if %s else %s)' % (deep, first, self.atom()), '(%s if %s else %s)' % (self.atom(), first, deep)])
            return '(lambda: %s)' % deep
        if k == 0:
            return '(%s %s %s)' % (sub(), r.choice(['and', 'or']), sub())
        if k == 1:
            return '(%s if %s else %s)' % (sub(), sub(), sub())
        if k == 2:
            return '(lambda: %s)' % sub()
        if k == 3:
            return r.choice(['[%s for q in %s]', '{%s for q in %s}', '(%s for q in %s)', '{q: %s for q in %s}']) % (sub(), sub())
        if k == 4:
            return '(%s < %s < %s)' % (sub(), sub(), sub())
        return '(%s %s %s)' % (self.atom(), r.choice(['and', 'or']), self.atom())

    def target(self, d):
        r = self.r
        k = r.random()
        if k < 0.5:
            return self.name()
        if k < 0.72:
            return '%s.%s' % (self.postfix_base(d), r.choice(ATTRS))
        if k < 0.94 or not self.wide:
            return '%s[%s]' % (self.postfix_base(d), self.index(d))
        return '(%s, %s)' % (self.name(), self.target(d - 1))

    def block(self, depth, n, ind, in_loop):
        out = []
        for _ in range(n):
            out += self.stmt(depth, ind, in_loop)
        return out or [ind + 'pass']

    def stmt(self, depth, ind, in_loop):
        r = self.r
        D = self.maxdepth
        k = r.random()
        if depth > 0 and self.tryp and r.random() < self.tryp:
            return self.try_stmt(depth, ind, in_loop)
        if depth <= 0 or k < 0.62:
            j = r.random()
            if j < 0.30:
                return [ind + self.expr(D)]
            if j < 0.62:
                ts = [self.target(D - 1)]
                if r.random() < 0.12:
                    ts.append(self.target(D - 1))
                return [ind + ' = '.join(ts + [self.expr(D)])]
            if j < 0.74:
                t = self.target(D - 1)
                while t.startswith('('):
                    t = self.target(D - 1)
                return [ind + '%s %s= %s' % (t, r.choice(['+', '-', '*', '|']), self.expr(D))]
            if j < 0.84:
                return [ind + ('return %s' % self.expr(D) if r.random() < 0.9 else 'return')]
            if j < 0.89:
                return [ind + ('raise %s' % self.expr(D - 1) + (' from %s' % self.expr(D - 1) if r.random() < 0.4 else ''))]
            if j < 0.93 and in_loop:
                return [ind + r.choice(['break', 'continue'])]
            if j < 0.96 and self.wide:
                if r.random() < 0.3:
                    return [ind + '%s: int = %s' % (self.name(), self.expr(D))]
                # never delete a bare name: a later read would be an unbound-name error, which is
                # outside the guarantee (names are atoms)
                t = self.target(D - 1)
                while t.isidentifier() or t.startswith('('):
                    t = self.target(D - 1)
                if r.random() < 0.25:
                    t = '(%s, %s.%s)' % (t, self.name(), r.choice(ATTRS))
                return [ind + 'del %s' % t]
            return [ind + 'pass']
        if k < 0.76:
            out = [ind + 'if %s:' % self.expr(D)] + self.block(depth - 1, r.randint(1, 2), ind + '  ', in_loop)
            if r.random() < 0.5:
                out += [ind + 'else:'] + self.block(depth - 1, r.randint(1, 2), ind + '  ', in_loop)
            return out
        if k < 0.85:
            t = self.name() if r.random() < 0.8 else '%s.%s' % (self.name(), r.choice(ATTRS))
            out = [ind + 'for %s in %s:' % (t, self.expr(D))] + self.block(depth - 1, r.randint(1, 2), ind + '  ', True)
            if r.random() < 0.2:
                out += [ind + 'else:'] + self.block(depth - 1, 1, ind + '  ', in_loop)
            return out
        if k < 0.90:
            # the test must be an event (a truth test of a V): event-free tests could loop forever
            t = self.name() if r.random() < 0.8 else r.choice(['%s.%s' % (self.name(), r.choice(ATTRS)), '%s(%s)' % (self.name(), self.name()), '(not %s)' % self.name(),
                                                                  '(%s := %s(%s))' % (self.name(), self.name(), self.name())])
            return [ind + 'while %s:' % t] + self.block(depth - 1, r.randint(1, 2), ind + '  ', True)
        if k < 0.96 or not self.wide:
            items = []
            for _ in range(r.randint(1, 2) if self.wide else 1):
                it = self.expr(D)
                if r.random() < 0.5:
                    if self.wide and r.random() < 0.3:
                        it += ' as %s.%s' % (self.name(), r.choice(ATTRS))
                    else:
                        it += ' as ' + self.name()
                items.append(it)
            return [ind + 'with %s:' % ', '.join(items)] + self.block(depth - 1, r.randint(1, 2), ind + '  ', in_loop)
        return self.try_stmt(depth, ind, in_loop)

    # ---- try statements.  The type expression of an except clause is a LAZY position: Python evaluates it only
    # while an exception propagates out of the body, after the body, clause by clause until one matches.  It is
    # generated in every shape an operand can have: a name of a builtin class, an attribute load `v.Error` (an
    # event whose result is a real exception class, see c18_runtime), an attribute load / call / subscript with
    # operations below it, a tuple of those.
    def handler_type(self, d):
        r = self.r
        k = r.random()
        if k < 0.22:
            return r.choice(EXC_NAMES)
        if k < 0.45:
            return '%s.Error' % self.name()
        if k < 0.62:
            return '%s.Error' % self.postfix_base(max(d, 1))
        if k < 0.74:
            return self.call(max(d, 1))
        if k < 0.82:
            return self.expr(max(d, 1))
        elts = []
        for _ in range(r.randint(1, 2)):
            j = r.random()
            elts.append('%s.Error' % self.name() if j < 0.45 else r.choice(EXC_NAMES) if j < 0.75 else self.call(max(d, 1)))
        return '(%s,)' % ', '.join(elts)

    def try_stmt(self, depth, ind, in_loop):
        r = self.r
        D = self.maxdepth
        body = []
        for _ in range(r.randint(1, 2)):
            if r.random() < 0.3:
                # an exception of a real class, so that clauses match / do not match / are never reached
                body.append(ind + '  raise %s.Error%s' % (self.name(), '(%s)' % self.atom() if r.random() < 0.6 else ''))
            else:
                body += self.stmt(depth - 1, ind + '  ', in_loop)
        out = [ind + 'try:'] + body
        nh = r.choice([1, 1, 2, 2, 3]) if r.random() < 0.9 else 0
        for i in range(nh):
            if i == nh - 1 and r.random() < 0.12:
                head, var = 'except:', None
            else:
                free = [v for v in EXC_VARS if v not in self.bound]
                var = r.choice(free) if free and r.random() < 0.35 else None
                head = 'except %s%s:' % (self.handler_type(D - 1), ' as ' + var if var else '')
            if var:
                self.bound.append(var)
            out += [ind + head] + self.block(depth - 1, r.randint(1, 2), ind + '  ', in_loop)
            if var:
                self.bound.pop()
        if nh and r.random() < 0.25:
            out += [ind + 'else:'] + self.block(depth - 1, 1, ind + '  ', in_loop)
        if nh == 0 or r.random() < 0.3:
            out += [ind + 'finally:'] + self.block(depth - 1, 1, ind + '  ', False)
        return out

    def program(self, nstmts=None, depth=2):
        while True:
            n = nstmts or self.r.randint(1, 4)
            body = self.block(depth, n, '  ', False)
            src = 'def fn(%s):\n%s\n' % (', '.join(PARAMS), '\n'.join(body))
            try:
                import warnings
                with warnings.catch_warnings():
                    warnings.simplefilter('ignore')
                    compile(src, '<gen>', 'exec')
                return src
            except SyntaxError:
                continue       # e.g. an assignment expression in a comprehension iterable


def rename_to_gensym(src, rnd):
    """Rename 1-4 variables / parameters of the program (in every role: parameter, assigned local,
    loop / with target, operand) to names of the shape the transformer generates, tmp_1001..tmp_1009."""
    tree = ast.parse(src)
    used = sorted({n.id for n in ast.walk(tree) if isinstance(n, ast.Name) and n.id in PARAMS})
    if not used:
        used = PARAMS[:2]
    k = min(len(used), rnd.randint(1, 4))
    olds = rnd.sample(used, k)
    news = rnd.sample(['tmp_%d' % i for i in range(1001, 1010)], k)
    m = dict(zip(olds, news))
    for n in ast.walk(tree):
        if isinstance(n, ast.Name) and n.id in m:
            n.id = m[n.id]
        elif isinstance(n, ast.arg) and n.arg in m:
            n.arg = m[n.arg]
    return ast.unparse(tree) + '\n'


# ------------------------------------------------------------------ identifiers of the implementation
# The property is over ALL programs, in particular over all spellings of their variables.  The only spellings a
# transformer can treat specially are the ones it uses itself: placeholder names of the code templates it
# instantiates around / with the user's code, names of its own variables, attributes and helper functions.
# They are harvested from the tree under test (the anchor files of the property), so that a variable of the
# generated programs can be called like each of them.
ANCHOR_FILES = ['malt/pyct/common_transformers/anf.py', 'malt/pyct/templates.py', 'malt/pyct/transformer.py']


def _usable(name):
    import keyword
    return name.isidentifier() and not keyword.iskeyword(name) and name not in ('None', 'True', 'False', '__debug__') \
        and name.isascii() and not (name.startswith('__') and name.endswith('__')) and name not in PARAMS \
        and not name.startswith('tmp_')       # gensym-shaped names are the known finding anf-gensym-user-name-collision


def internal_names(repo):
    """-> (placeholders, others), both sorted.  placeholders: keyword names of every templates.replace /
    replace_as_expression call of the anchor files and the identifiers of the template texts handed to them;
    others: every other identifier of those files (variables, parameters, attributes, functions, classes,
    keywords of calls, identifiers inside string constants that parse as code)."""
    import os
    place, other = set(), set()

    def code_names(text):
        import textwrap
        try:
            t = ast.parse(textwrap.dedent(text))
        except (SyntaxError, ValueError):
            return set()
        out = set()
        for n in ast.walk(t):
            if isinstance(n, ast.Name):
                out.add(n.id)
            elif isinstance(n, ast.arg):
                out.add(n.arg)
            elif isinstance(n, (ast.FunctionDef, ast.ClassDef)):
                out.add(n.name)
            elif isinstance(n, ast.Attribute):
                out.add(n.attr)
        return out
    for rel in ANCHOR_FILES:
        path = os.path.join(repo, rel)
        if not os.path.exists(path):
            continue
        try:
            tree = ast.parse(open(path).read())
        except SyntaxError:
            continue
        for n in ast.walk(tree):
            if isinstance(n, ast.Call):
                f = n.func
                fname = f.attr if isinstance(f, ast.Attribute) else f.id if isinstance(f, ast.Name) else ''
                if fname in ('replace', 'replace_as_expression') and (n.keywords or (
                        n.args and isinstance(n.args[0], ast.Constant) and isinstance(n.args[0].value, str))):
                    place.update(k.arg for k in n.keywords if k.arg)
                    if n.args and isinstance(n.args[0], ast.Constant) and isinstance(n.args[0].value, str):
                        place.update(code_names(n.args[0].value))
                else:
                    other.update(k.arg for k in n.keywords if k.arg)
            if isinstance(n, ast.Name):
                other.add(n.id)
            elif isinstance(n, ast.arg):
                other.add(n.arg)
            elif isinstance(n, ast.Attribute):
                other.add(n.attr)
            elif isinstance(n, (ast.FunctionDef, ast.ClassDef)):
                other.add(n.name)
            elif isinstance(n, ast.Constant) and isinstance(n.value, str) and '\n' not in n.value.strip() and len(n.value) < 200:
                other.update(code_names(n.value))
    place = sorted(x for x in place if _usable(x))
    return place, sorted(x for x in other if _usable(x) and x not in place)


def rename_vars(node_or_src, mapping):
    """consistent renaming of variables (parameters, locals, targets, operands; not attribute or keyword
    names) -> text (for a text) or a renamed deep copy (for a tree)"""
    import copy
    tree = ast.parse(node_or_src) if isinstance(node_or_src, str) else copy.deepcopy(node_or_src)
    for n in ast.walk(tree):
        if isinstance(n, ast.Name) and n.id in mapping:
            n.id = mapping[n.id]
        elif isinstance(n, ast.arg) and n.arg in mapping:
            n.arg = mapping[n.arg]
    return ast.unparse(tree) + '\n' if isinstance(node_or_src, str) else tree


def operand_names(src):
    """variables of the program read inside an operand that is itself an operand of an operation (the
    positions out of which the default configuration hoists): sorted"""
    strict = (ast.Call, ast.BinOp, ast.UnaryOp, ast.Compare, ast.Attribute, ast.Subscript, ast.Dict, ast.Set,
              ast.Tuple, ast.List, ast.Starred)
    out = set()

    def walk(n, depth):
        if isinstance(n, ast.Name) and isinstance(n.ctx, ast.Load) and depth >= 2 and n.id in PARAMS:
            out.add(n.id)
        d = depth + 1 if isinstance(n, strict) else depth
        if isinstance(n, LAZY_NODES):
            return
        for c in ast.iter_child_nodes(n):
            walk(c, d if isinstance(c, (ast.expr, ast.keyword)) or isinstance(n, ast.expr) else 0)
    walk(ast.parse(src), 0)
    return sorted(out)


LAZY_NODES = (ast.BoolOp, ast.IfExp, ast.Lambda, ast.ListComp, ast.SetComp, ast.DictComp, ast.GeneratorExp)

# one variable (V) in every role, inside operands that are hoisted; the shapes keep the order of evaluation
# (no operation before a sibling out of which something is hoisted)
HYGIENE_TEMPLATES = [
    'return f(g(h(V)))',
    'V = g(a)\n  return f(h(V))',
    'z = 0\n  for q in g(V):\n    z = f(z, h(V + q))\n  return z',
    'for V in g(a):\n    b = f(h(V))\n  return b',
    'with f(g(V)) as c:\n    return h(c + V)',
    'with f(a) as V:\n    return g(h(V))',
    'return V(g(V(a)))',
    'if f(g(V)).m:\n    return a[h(V)].val\n  raise g(-h(V))',
    'x.m = f(k0=g(V))\n  a[b] = h([V, 1])\n  return (V < c)[V]',
    'try:\n    x = f(g(V))\n  except Exception:\n    x = h(g(V))\n  return x',
]


# ------------------------------------------------------------------ configurations
class SpecConfig(object):
    """Reference reading of a configuration, written from the documentation of anf.transform /
    ASTEdgePattern and independent of the implementation's matcher: rules are tried in order, the
    first matching one governs, no rule = do not transform; a pattern matches when the parent is an
    instance of the parent slot, the field name is EQUAL to the field slot and the child is an instance
    of the child slot (ANY matches anything).  The oracle judges `every position the configuration asks
    to be named` with this reading, so an implementation that applies a configuration differently
    (e.g. matches field names loosely) is reported with the concrete (program, configuration)."""

    def __init__(self, config, anf):
        self.anf = anf
        if config is None:
            config = [(anf.ASTEdgePattern(anf.ANY, anf.ANY, (ast.Constant, ast.Name)), anf.LEAVE),
                      (anf.ASTEdgePattern(anf.ANY, anf.ANY, ast.expr), anf.REPLACE)]
        self.rules = config

    def should(self, parent, field, child):
        ANY = self.anf.ANY
        for pat, act in self.rules:
            if pat is not ANY:
                pp, pf, pc = tuple(pat)
                if not (pp is ANY or isinstance(parent, pp)):
                    continue
                if not (pf is ANY or (isinstance(pf, str) and field == pf)):
                    continue
                if not (pc is ANY or isinstance(child, pc)):
                    continue
            if act is self.anf.REPLACE:
                return True
            if act is self.anf.LEAVE:
                return False
            return bool(act(parent, field, child))
        return False


def spec_trivial(node):
    """Reference reading of `trivial` for operand positions (documentation of anf.transform: "variable
    references are never replaced"; plus the Ellipsis literal): independent of the implementation's table."""
    return isinstance(node, ast.Name) or (isinstance(node, ast.Constant) and node.value is Ellipsis) \
        or not isinstance(node, ast.AST)


def _field_names():
    names = set()
    for x in vars(ast).values():
        if isinstance(x, type) and issubclass(x, ast.AST):
            names.update(getattr(x, '_fields', ()))
    return sorted(names)


# every AST field name that contains, or is contained in, another AST field name
# (value/values, arg/args/kwonlyargs, elt/elts, key/keys, op/ops, target/targets, name/names, body/finalbody, ...)
NESTED_FIELDS = sorted({a for a in _field_names() for b in _field_names() if a != b and (a in b or b in a)})
# the ones that name an operand position of the fragment (where a loose match changes the outcome)
NESTED_OPERAND_FIELDS = ['value', 'values', 'args', 'elts', 'keys', 'target', 'targets', 'body', 'test', 'items', 'exc']

def depth_selective_configs(anf):
    """configurations that never name a direct operand of a lazy construct (the parent slot is a strict
    node class) but name positions deeper inside it"""
    P = anf.ASTEdgePattern
    return [
        ([(P(ast.Call, 'args', ast.expr), anf.REPLACE)], "[(anf.ASTEdgePattern(ast.Call, 'args', ast.expr), anf.REPLACE)]"),
        ([(P(ast.Call, 'args', ast.Call), anf.REPLACE)], "[(anf.ASTEdgePattern(ast.Call, 'args', ast.Call), anf.REPLACE)]"),
        ([(P(ast.Call, 'keywords', anf.ANY), anf.REPLACE)], "[(anf.ASTEdgePattern(ast.Call, 'keywords', anf.ANY), anf.REPLACE)]"),
        ([(P(ast.BinOp, anf.ANY, (ast.Call, ast.Attribute)), anf.REPLACE)],
         "[(anf.ASTEdgePattern(ast.BinOp, anf.ANY, (ast.Call, ast.Attribute)), anf.REPLACE)]"),
        ([(P(ast.Subscript, 'slice', ast.expr), anf.REPLACE)], "[(anf.ASTEdgePattern(ast.Subscript, 'slice', ast.expr), anf.REPLACE)]"),
        ([(P(ast.Attribute, 'value', ast.Subscript), anf.REPLACE), (P(ast.Call, anf.ANY, ast.Call), anf.REPLACE)],
         "[(anf.ASTEdgePattern(ast.Attribute, 'value', ast.Subscript), anf.REPLACE), (anf.ASTEdgePattern(ast.Call, anf.ANY, ast.Call), anf.REPLACE)]"),
        ([(P((ast.Call, ast.BinOp, ast.Subscript), anf.ANY, (ast.Call, ast.BinOp, ast.Subscript)), anf.REPLACE)],
         "[(anf.ASTEdgePattern((ast.Call, ast.BinOp, ast.Subscript), anf.ANY, (ast.Call, ast.BinOp, ast.Subscript)), anf.REPLACE)]"),
    ]


DEEP_LAZY_PROGRAMS = [
    'return None and f(g(x))', 'return 1 or f(k0=g(h(x)))', 'return (f(g(x)) if 0 else y)',
    'return (y if 1 else a + f(b[g(c)]))', 'z = lambda: f(g(x), 1)\n  return z', 'if 0 and f(g(x)).m:\n    return b\n  return c',
    'return f(0 or g(h(x)))', 'x = [None and f(a + g(b))]\n  return x', 'return a and f(g(x))', 'return (a or b[g(c)].m, d)',
]


# try statements, x configurations: the default one, the depth-selective ones and the ones that name the positions of a
# try statement.  Handler types: a call, an attribute load (a real exception class), depending on what the body binds,
# with operations below (something to hoist out of them), in a tuple, after a clause that matches / does not match.
TRY_PROGRAMS = [
    'try:\n    x = f(a)\n  except g(b):\n    x = c\n  return x',
    'try:\n    x = f(a)\n  except b.Error:\n    x = c\n  return x',
    'try:\n    raise a.Error(b)\n  except c.Error:\n    x = d\n  except o.Error as e1:\n    x = e1\n  return x',
    'try:\n    x = f(a)\n    y = x.m\n  except x.Error:\n    y = c\n  return y',
    'try:\n    x = f(a)\n  except g(h(b)):\n    x = c\n  return x',
    'try:\n    x = f(a)\n  except g(h(b)).Error:\n    pass\n  return x',
    'try:\n    raise a.Error\n  except (KeyError, b.Error, g(c)):\n    return d\n  finally:\n    p(q)',
    'for x in f(a):\n    try:\n      y = g(x)\n    except x.Error:\n      continue\n    else:\n      z = h(y)\n  return z',
    'try:\n    x = f(a)\n  except Exception:\n    x = b\n  return x',
    'try:\n    raise a.Error(b)\n  except Exception as e1:\n    return g(h(e1))',
    'try:\n    try:\n      raise a.Error(b)\n    except c[d]:\n      x = p\n  except (q.Error,):\n    x = o\n  return x',
    'with f(a) as x:\n    try:\n      y = x.m\n    except g(k0=x).Error as e2:\n      y = e2\n  return y',
]


def try_configs(anf):
    P = anf.ASTEdgePattern
    return [
        ([(P(ast.ExceptHandler, 'type', anf.ANY), anf.REPLACE)], "[(anf.ASTEdgePattern(ast.ExceptHandler, 'type', anf.ANY), anf.REPLACE)]"),
        ([(P(anf.ANY, 'type', ast.expr), anf.REPLACE)], "[(anf.ASTEdgePattern(anf.ANY, 'type', ast.expr), anf.REPLACE)]"),
        ([(P(ast.Try, anf.ANY, anf.ANY), anf.REPLACE), (P(ast.ExceptHandler, anf.ANY, anf.ANY), anf.REPLACE)],
         "[(anf.ASTEdgePattern(ast.Try, anf.ANY, anf.ANY), anf.REPLACE), (anf.ASTEdgePattern(ast.ExceptHandler, anf.ANY, anf.ANY), anf.REPLACE)]"),
        ([(P(anf.ANY, anf.ANY, ast.expr), anf.REPLACE)], "[(anf.ASTEdgePattern(anf.ANY, anf.ANY, ast.expr), anf.REPLACE)]"),
    ]


def gen_config(rnd, anf, handlers=False):
    """None (default) or a random list of (pattern, directive).  handlers: the slots also range over the node
    classes / field names of try statements (a separate switch: the draws of the other streams stay what they were)."""
    k = rnd.random()
    if k < 0.45:
        return None, 'default'
    parents = [anf.ANY, anf.ANY, ast.Call, ast.BinOp, ast.Attribute, ast.Subscript, ast.Return, ast.If, ast.For,
               ast.expr, ast.stmt, ast.Tuple, ast.Dict, ast.Compare, (ast.Call, ast.BinOp), ast.With, ast.Raise]
    fields = [anf.ANY, anf.ANY, anf.ANY, 'args', 'func', 'value', 'left', 'right', 'test', 'iter', 'elts', 'keywords',
              'slice', 'values', 'keys', 'operand', 'comparators', 'items', 'exc']
    if handlers:
        parents += [ast.ExceptHandler, ast.ExceptHandler, ast.Try, (ast.Try, ast.ExceptHandler)]
        fields += ['type', 'type', 'handlers']
    childs = [anf.ANY, anf.ANY, ast.expr, ast.Call, ast.Constant, ast.Name, (ast.Constant, ast.Name), ast.BinOp,
              ast.Attribute, ast.Tuple, ast.Subscript, (ast.Call, ast.Attribute)]
    rules = []
    desc = []

    def nm(x):
        if x is anf.ANY:
            return 'ANY'
        if isinstance(x, tuple):
            return '(' + ', '.join('ast.' + c.__name__ for c in x) + ')'
        if isinstance(x, str):
            return repr(x)
        return 'ast.' + x.__name__
    for _ in range(rnd.randint(0, 3)):
        act = rnd.random() < 0.5
        if rnd.random() < 0.3:
            # field names nested in one another (a matcher comparing them loosely confuses them),
            # with ANY and with concrete parent / child slots
            f = rnd.choice(NESTED_FIELDS if rnd.random() < 0.4 else [x for x in NESTED_OPERAND_FIELDS if x in NESTED_FIELDS])
            p = anf.ANY if rnd.random() < 0.6 else rnd.choice(parents)
            c = anf.ANY if rnd.random() < 0.6 else rnd.choice(childs)
            rules.append((anf.ASTEdgePattern(p, f, c), anf.REPLACE if act else anf.LEAVE))
            desc.append('(anf.ASTEdgePattern(%s, %s, %s), anf.%s)' % (nm(p), nm(f), nm(c), 'REPLACE' if act else 'LEAVE'))
            continue
        if rnd.random() < 0.1:
            rules.append((anf.ANY, anf.REPLACE if act else anf.LEAVE))
            desc.append('(anf.ANY, anf.%s)' % ('REPLACE' if act else 'LEAVE'))
            continue
        p, f, c = rnd.choice(parents), rnd.choice(fields), rnd.choice(childs)
        rules.append((anf.ASTEdgePattern(p, f, c), anf.REPLACE if act else anf.LEAVE))
        desc.append('(anf.ASTEdgePattern(%s, %s, %s), anf.%s)' % (nm(p), nm(f), nm(c), 'REPLACE' if act else 'LEAVE'))
    tail = rnd.random()
    if tail < 0.5:
        rules += [(anf.ASTEdgePattern(anf.ANY, anf.ANY, (ast.Constant, ast.Name)), anf.LEAVE),
                  (anf.ASTEdgePattern(anf.ANY, anf.ANY, ast.expr), anf.REPLACE)]
        desc += ['(anf.ASTEdgePattern(anf.ANY, anf.ANY, (ast.Constant, ast.Name)), anf.LEAVE)',
                 '(anf.ASTEdgePattern(anf.ANY, anf.ANY, ast.expr), anf.REPLACE)']
    elif tail < 0.7:
        rules += [(anf.ASTEdgePattern(anf.ANY, anf.ANY, ast.expr), anf.REPLACE)]
        desc += ['(anf.ASTEdgePattern(anf.ANY, anf.ANY, ast.expr), anf.REPLACE)']
    return rules, '[' + ', '.join(desc) + ']'


# ------------------------------------------------------------------ mirror of the order guard
SILENT = (ast.Tuple, ast.List)


class Mirror(object):
    """Recomputes, on the Python ast of the ORIGINAL program, which children the transformer
    names and out of which it hoists, and from that the reasons why the two-phase walk changes
    the order of evaluation (empty set = the model's guard holds).  `should` is the
    implementation's own _should_transform bound to the configuration."""

    def __init__(self, should, is_trivial):
        self.should = should
        self.is_trivial = is_trivial
        self.reasons = set()
        self.coq_guard = True      # the (coarser) guard of the Coq theorem

    # -> (quiet_after_visit, hoists)
    def expr(self, n):
        if n is None or isinstance(n, (ast.Name, ast.Constant)):
            return True, False
        if isinstance(n, (ast.ListComp, ast.SetComp, ast.DictComp, ast.GeneratorExp)):
            return False, False
        if isinstance(n, ast.Compare) and len(n.ops) > 1:
            return False, False
        if isinstance(n, ast.Lambda):
            q, h = self.expr(n.body)
            return False, h or self.named(n, 'body', n.body)
        kids = self.children(n)
        if isinstance(n, ast.Dict):
            kids = [('keys', k, False) for k in n.keys] + [('values', v, k is None) for k, v in zip(n.keys, n.values)]
        infos = []
        star_after = False
        for f, c, star in kids:
            q, h = self.expr(c)
            nm = self.named(n, f, c)
            infos.append((q, h, nm))
            if star_after and (not q or h or nm):
                self.reasons.add('anf-starred-unpack-order')
            if star:
                # the unpacking itself happens in place, right after the operand is evaluated
                infos.append((False, False, False))
                star_after = True
        if isinstance(n, ast.NamedExpr):
            self.coq_guard = False       # binds a variable: outside the semantics of the Coq theorem
        generic_only = isinstance(n, (ast.NamedExpr, ast.Slice, ast.Starred)) or \
            (isinstance(n, (ast.Tuple, ast.List)) and not isinstance(n.ctx, ast.Load))
        if generic_only:
            infos = [(q, h, False) for q, h, _ in infos]
        infos0 = [i for i in infos]
        if isinstance(n, ast.Dict):
            nk = len(n.keys)
            if nk > 1:
                self.coq_guard = False
                # AST order k1..kn v1..vn ; Python k1 v1 k2 v2: a value that does something
                # before a later key that does something (or out of which something is hoisted)
                ki, vi = infos[:nk], infos[nk:]
                for i in range(nk):
                    for j in range(i + 1, nk):
                        if not (vi[i][0] and not vi[i][1]) and not (ki[j][0] and not ki[j][1]):
                            self.reasons.add('anf-dict-order')
        if isinstance(n, (ast.Set, ast.Dict)) and any(star for _, _, star in kids):
            # built incrementally: the items before a starred one are hashed before it is evaluated
            self.coq_guard = False
            first = [i for i, (_, _, star) in enumerate(kids) if star][0]
            if first > 0:
                self.reasons.add('anf-starred-unpack-order')
        if not self.order_ok(infos):
            self.reasons.add('anf-sibling-order')
            self.coq_guard = False
        quiet = isinstance(n, SILENT) and all(nm or q for q, h, nm in infos) and \
            not any(star for _, _, star in kids)
        return quiet, any(h or nm for q, h, nm in infos)

    def named(self, parent, field, c):
        if c is None or self.is_trivial(c):
            return False
        if isinstance(c, ast.Slice):
            # a slice (and the index tuple of an extended slice) cannot stand alone: not the slice is named but,
            # with the parent and field of the slice, its parts (_ensure_node_in_anf passes them through)
            return any(self.named(parent, field, x) for x in (c.lower, c.upper, c.step))
        if isinstance(c, ast.Tuple) and any(isinstance(x, ast.Slice) for x in c.elts):
            return any(self.named(parent, field, x.value if isinstance(x, ast.Starred) else x) for x in c.elts)
        return bool(self.should(parent, field, c))

    @staticmethod
    def order_ok(infos):
        for i, (q, h, nm) in enumerate(infos):
            if q:
                continue
            for (q2, h2, nm2) in infos[i + 1:]:
                if h2 or not (nm or not nm2 or q2):
                    return False
        return True

    def children(self, n):
        out = []
        for f in n._fields:
            v = getattr(n, f, None)
            vs = v if isinstance(v, list) else [v]
            for c in vs:
                if isinstance(c, ast.Starred):
                    out.append((f, c.value, True))
                elif isinstance(c, ast.keyword):
                    out.append((f, c.value, c.arg is None))
                elif isinstance(c, ast.expr):
                    out.append((f, c, False))
        return out

    def stmt(self, s):
        if isinstance(s, ast.Assign):
            tinfo = [self.expr(t) for t in s.targets]
            qv, hv = self.expr(s.value)
            if any(h for _, h in tinfo):
                self.coq_guard = False
                if not (qv and not hv):
                    self.reasons.add('anf-assign-target-order')
                # several targets: stores of an earlier target before hoists of a later one
                for i, t in enumerate(s.targets):
                    if not isinstance(t, ast.Name) and any(h for _, h in tinfo[i + 1:]):
                        self.reasons.add('anf-assign-target-order')
                # a name bound by the statement itself and read by a target operand that is hoisted in front of
                # the statement: `b = (b << q).val = d`, `b, (b << q).val = d` (the hoisted read sees the old b)
                stored = {n.id for t in s.targets for n in ast.walk(t) if isinstance(n, ast.Name) and isinstance(n.ctx, ast.Store)}
                loaded = {n.id for t in s.targets for n in ast.walk(t) if isinstance(n, ast.Name) and isinstance(n.ctx, ast.Load)}
                if stored & loaded:
                    self.reasons.add('anf-assign-target-order')
        elif isinstance(s, ast.AugAssign):
            qt, ht = self.expr(s.target)
            qv, hv = self.expr(s.value)
            if not self.order_ok([(isinstance(s.target, ast.Name), ht, False), (qv, hv, False)]):
                self.reasons.add('anf-sibling-order')
                self.coq_guard = False
        elif isinstance(s, (ast.Return, ast.Raise)):
            infos = []
            for f in s._fields:
                c = getattr(s, f, None)
                if isinstance(c, ast.expr):
                    q, h = self.expr(c)
                    infos.append((q, h, self.named(s, f, c)))
            if not self.order_ok(infos):
                self.reasons.add('anf-sibling-order')
                self.coq_guard = False
        else:
            for f in s._fields:
                v = getattr(s, f, None)
                vs = v if isinstance(v, list) else [v]
                for c in vs:
                    if isinstance(c, ast.stmt):
                        self.stmt(c)
                    elif isinstance(c, ast.expr):
                        self.expr(c)
                    elif isinstance(c, ast.withitem):
                        self.expr(c.context_expr)
                        if c.optional_vars is not None:
                            self.expr(c.optional_vars)
                    elif isinstance(c, ast.ExceptHandler):
                        if c.type is not None:
                            self.expr(c.type)
                        for b in c.body:
                            self.stmt(b)
            if isinstance(s, ast.With) and len(s.items) > 1:
                # items are visited first, named afterwards: the same two-phase order
                infos = []
                for it in s.items:
                    q, h = self.expr(it.context_expr)
                    infos.append((q, h, self.named(s, 'items', it.context_expr)))
                    # __enter__ of an earlier item happens before the next context expression
                if any(not q or h or nm for q, h, nm in infos[1:]):
                    self.reasons.add('anf-sibling-order')


def read_before_walrus(fn):
    """names that some statement reads (left in place: names are atoms for the transformer) at a source
    position before an assignment expression of the same statement rebinds them, e.g. `y + (y := a())`:
    the hoisted `tmp = (y := a())` runs before the read"""
    out = set()

    def own_exprs(s):
        for f in s._fields:
            v = getattr(s, f, None)
            for c in (v if isinstance(v, list) else [v]):
                if isinstance(c, ast.expr):
                    yield c
                elif isinstance(c, ast.withitem):
                    yield c.context_expr
    for s in ast.walk(fn):
        if not isinstance(s, ast.stmt):
            continue
        loads, binds = [], []
        if isinstance(s, ast.AugAssign) and isinstance(s.target, ast.Name):
            # `z += (z := a).val` reads z (old value) before the right-hand side is evaluated
            loads.append((s.target.id, (s.target.lineno, s.target.col_offset)))
        for e in own_exprs(s):
            for n in ast.walk(e):
                if isinstance(n, ast.NamedExpr):
                    binds.append((n.target.id, (n.lineno, n.col_offset)))
                elif isinstance(n, ast.Name) and isinstance(n.ctx, ast.Load):
                    loads.append((n.id, (n.lineno, n.col_offset)))
        for x, pb in binds:
            if any(y == x and pl < pb for y, pl in loads):
                out.add(x)
    return out


def assign_target_walrus(fn):
    """`(g := b).val = g`: Python reads the right-hand side first; the operand of the target (an assignment
    expression) is hoisted in front of the statement and rebinds a name the right-hand side reads --
    the root cause of anf-assign-target-order, visible through a plain name"""
    for s in ast.walk(fn):
        if isinstance(s, ast.Assign):
            bound = {n.target.id for t in s.targets for n in ast.walk(t) if isinstance(n, ast.NamedExpr)}
            if bound & {n.id for n in ast.walk(s.value) if isinstance(n, ast.Name) and isinstance(n.ctx, ast.Load)}:
                return True
    return False
