"""C19 exporter: one analysed top-level function (real cfg.Graph, real Analyzer.in_/out, the logged
answers of the scripted resolver) -> a `case` term of coq/Types/InferCheck.v.  Fails closed
(Unsupported) on anything outside the model: nested functions, calls of local functions, keyword
arguments, nested unpacking targets, comparison chains, statement kinds other than
arguments / Assign / AugAssign / Expr / Return / Pass / if-while tests / for iterables.

Which expression kinds are modelled constructors and which are `EOther` is decided reflectively from
the class under test: a kind is EOther exactly when StmtInferrer has no visit_<Kind> method; a kind
with a visitor that the model does not know is Unsupported."""
import ast
import typing

from translate import c19_lab as L


class Unsupported(Exception):
    pass


MODELLED = {'Constant', 'Name', 'Tuple', 'List', 'BinOp', 'Compare', 'UnaryOp', 'Subscript', 'Call'}
BASE_TAGS = {'int': 0, 'float': 1, 'bool': 2, 'str': 3, 'list': 4}
OPS = {'+': 0, '-': 1, '*': 2, '==': 0, '!=': 1, '<': 2, '>=': 3, 'not ': 1}
UN = {'-': 0, 'not ': 1}


class Enc(object):
    """numbering of names and base tags shared by the terms of one case"""

    def __init__(self):
        self.names = {}
        self.tags = dict(BASE_TAGS)

    def name(self, s):
        s = str(s)
        if s not in self.names:
            self.names[s] = len(self.names)
        return self.names[s]

    def ty(self, t):
        if isinstance(t, tuple):
            return 'TTup [%s]' % '; '.join(self.ty(e) for e in t)
        k = L.tname(t)
        if k not in self.tags:
            self.tags[k] = len(self.tags)
        return 'TBase %d' % self.tags[k]

    def tyset(self, s):
        return '[%s]' % '; '.join(self.ty(t) for t in sorted(s, key=L.tname))

    def tymap(self, d):
        return '[%s]' % '; '.join('(%d, %s)' % (self.name(k), self.tyset(v)) for k, v in sorted(d.items(), key=lambda kv: str(kv[0])))


def source_pos(fn):
    return (fn.lineno, fn.col_offset)


def call_sites(prog, an):
    """-> [(calling function H, CFG node, callee def G)]: the statements of every analysed graph that read the
    name of a local function whose def is in their DEFINED_FNS_IN (reaching_fndefs; certified separately by
    fn_case / fndefs_reach_call_sites).  Names are read syntactically from the statement, bodies of nested
    defs excluded (a def statement calls nothing)."""
    anno = an.anno
    out = []
    for az in an.analyzers:
        h = az._c19_fn
        if h is None:
            continue
        for a, n in az.graph.index.items():
            if not anno.hasanno(a, anno.Static.DEFINED_FNS_IN) or isinstance(a, (ast.FunctionDef, ast.Lambda)):
                continue
            reads = set()
            todo = [a]
            while todo:
                x = todo.pop()
                if isinstance(x, (ast.FunctionDef, ast.Lambda)):
                    continue
                if isinstance(x, ast.Name) and isinstance(x.ctx, ast.Load):
                    reads.add(x.id)
                todo.extend(ast.iter_child_nodes(x))
            for d in anno.getanno(a, anno.Static.DEFINED_FNS_IN):
                if isinstance(d, ast.FunctionDef) and d.name in reads and id(d) in prog.num:
                    out.append((h, n, d, az))
    return out


def closure_case(prog, an, idx):
    """The closure data of one analysed program as a `ccase` of coq/Types/Closure.v (None when the program has
    no local function)."""
    enc = Enc()
    by_fn = {}
    for az in an.analyzers:
        if az._c19_fn is not None:
            by_fn[id(az._c19_fn)] = az
    funs = []
    for az in an.analyzers:
        g = az._c19_fn
        if g is None or g is prog.fn:
            continue
        final = an.closure.get(prog.num[id(g)], {})
        entry = {str(k): v for k, v in az.in_[az.graph.entry].types.items()}
        funs.append('mklfun %d [%s] %s %s %s' % (
            prog.num[id(g)], '; '.join(str(enc.name(q)) for q in sorted(str(q) for q in az.scope.bound)),
            enc.tymap(az._c19_seen), enc.tymap(final), enc.tymap(entry)))
    if not funs:
        return None
    sites = []
    for h, n, d, az in call_sites(prog, an):
        if id(d) not in by_fn:
            continue
        late = source_pos(h) >= source_pos(d)
        sites.append('mkcsite %d %s %s' % (prog.num[id(d)], 'true' if late else 'false',
                                           enc.tymap({str(k): v for k, v in az.out[n].types.items()})))
    return '(%d, [%s], [%s])' % (idx, ';\n '.join(funs), ';\n '.join(sites))


class Exporter(Enc):
    def __init__(self, prog, an, log):
        from malt.pyct.static_analysis import type_inference
        self.SI = type_inference.StmtInferrer
        self.prog = prog
        self.an = an
        self.log = log
        self.names = {}
        self.tags = dict(BASE_TAGS)
        self.consts = {('int', '0'): 0}
        self.analyzer = an.analyzers[0]
        self.graph = self.analyzer.graph
        sc = self.analyzer.scope
        self.locals = set(str(q) for q in sc.bound) - set(str(q) for q in sc.nonlocals)
        self.for_of_iter = {}
        for n in prog.nodes:
            if isinstance(n, ast.For):
                self.for_of_iter[id(n.iter)] = n

    # ---- encodings (name / ty / tyset / tymap: Enc)
    def otyset(self, s):
        return 'None' if s is None else 'Some %s' % self.tyset(s)

    def val(self, v):
        tn = type(v).__name__
        if tn not in self.tags:
            self.tags[tn] = len(self.tags)
        key = (tn, repr(v))
        if key not in self.consts:
            self.consts[key] = len(self.consts)
        return self.tags[tn], self.consts[key]

    # ---- expressions
    def has_visitor(self, node):
        return hasattr(self.SI, 'visit_' + type(node).__name__)

    def exprs(self, es):
        out = 'Enil'
        for e in reversed(es):
            out = 'Econs (%s) (%s)' % (self.expr(e), out)
        return out

    def expr(self, e):
        kind = type(e).__name__
        if not isinstance(e, ast.expr):
            raise Unsupported('not an expression: ' + kind)
        if not self.has_visitor(e):
            kids = [c for c in ast.iter_child_nodes(e) if isinstance(c, ast.expr)]
            if any(isinstance(c, (ast.Lambda, ast.ListComp, ast.SetComp, ast.DictComp, ast.GeneratorExp, ast.NamedExpr, ast.Starred))
                   for c in ast.walk(e)):
                raise Unsupported('binding expression ' + kind)
            return 'EOther (%s)' % self.exprs(kids)
        if kind not in MODELLED:
            raise Unsupported('visitor for an expression kind the model does not know: ' + kind)
        if isinstance(e, ast.Constant):
            return 'EConst (VBase %d %d)' % self.val(e.value)
        if isinstance(e, ast.Name):
            if not isinstance(e.ctx, ast.Load):
                raise Unsupported('name in store context inside an expression')
            return 'EName %d' % self.name(e.id)
        if isinstance(e, (ast.Tuple, ast.List)):
            if not isinstance(e.ctx, ast.Load):
                raise Unsupported('store sequence inside an expression')
            return '%s (%s)' % ('ETuple' if isinstance(e, ast.Tuple) else 'EList', self.exprs(e.elts))
        if isinstance(e, ast.BinOp):
            op = L._AST_BIN.get(type(e.op))
            if op is None:
                raise Unsupported('operator')
            return 'EBin %d (%s) (%s)' % (OPS[op], self.expr(e.left), self.expr(e.right))
        if isinstance(e, ast.Compare):
            if len(e.ops) != 1 or type(e.ops[0]) not in L._AST_CMP:
                raise Unsupported('comparison chain')
            return 'ECmp %d (%s) (%s)' % (OPS[L._AST_CMP[type(e.ops[0])]], self.expr(e.left), self.expr(e.comparators[0]))
        if isinstance(e, ast.UnaryOp):
            if type(e.op) not in L._AST_UN:
                raise Unsupported('unary operator')
            return 'EUn %d (%s)' % (UN[L._AST_UN[type(e.op)]], self.expr(e.operand))
        if isinstance(e, ast.Subscript):
            return 'ESub %d (%s) (%s)' % (self.prog.num[id(e)], self.expr(e.value), self.expr(e.slice))
        if isinstance(e, ast.Call):
            if e.keywords or not isinstance(e.func, ast.Name) or e.func.id in self.locals:
                raise Unsupported('call of a local function / keywords / computed callee')
            return 'ECall %d %d (%s)' % (self.prog.num[id(e)], self.name(e.func.id), self.exprs(e.args))
        raise Unsupported(kind)

    def target(self, t):
        if isinstance(t, ast.Name):
            return 'TgName %d' % self.name(t.id)
        if isinstance(t, (ast.Tuple, ast.List)) and all(isinstance(x, ast.Name) for x in t.elts):
            return 'TgTuple [%s]' % '; '.join(str(self.name(x.id)) for x in t.elts)
        raise Unsupported('target')

    def node(self, a):
        if isinstance(a, ast.arguments):
            if a.vararg or a.kwarg or a.kwonlyargs or a.posonlyargs:
                raise Unsupported('arguments')
            return 'NArgs [%s]' % '; '.join(str(self.name(x.arg)) for x in a.args)
        if isinstance(a, ast.Assign):
            # stores into an attribute / item of an EXTERNAL object bind no name and leave new_symbols alone
            ts = [t for t in a.targets
                  if not (isinstance(t, (ast.Attribute, ast.Subscript)) and isinstance(t.value, ast.Name)
                          and t.value.id not in self.locals)]
            return 'NAssign [%s] (%s)' % ('; '.join(self.target(t) for t in ts), self.expr(a.value))
        if isinstance(a, ast.AugAssign):
            if not isinstance(a.target, ast.Name) or self.has_visitor(a):
                raise Unsupported('augmented assignment')
            return 'NHavoc [%d] (%s)' % (self.name(a.target.id), self.expr(a.value))
        if isinstance(a, ast.Expr):
            return 'NExpr (%s)' % self.expr(a.value)
        if isinstance(a, ast.Return):
            if self.has_visitor(a):
                raise Unsupported('return visitor')
            return 'NExpr (%s)' % (self.expr(a.value) if a.value is not None else 'ETuple Enil')
        if isinstance(a, (ast.Pass, ast.Break, ast.Continue)) and not self.has_visitor(a):
            return 'NExpr (ETuple Enil)'
        if isinstance(a, ast.expr):
            f = self.for_of_iter.get(id(a))
            if f is not None:
                names = [n.id for n in ast.walk(f.target) if isinstance(n, ast.Name)]
                return 'NHavoc [%s] (%s)' % ('; '.join(str(self.name(x)) for x in names), self.expr(a))
            return 'NExpr (%s)' % self.expr(a)
        raise Unsupported('statement kind ' + type(a).__name__)

    # ---- clean names: greatest set such that every binding of a clean name is typed from clean reads
    def clean_names(self):
        binds = []     # (typed names, untyped names, local reads)
        for a in self.graph.index:
            reads = set()
            new = self.an.last_new.get(id(a), set())      # typed at the last visit of the node
            if isinstance(a, ast.arguments):
                typed = [x.arg for x in a.args if x.arg in new]
                untyped = [x.arg for x in a.args if x.arg not in new]
            elif isinstance(a, ast.Assign):
                st = [n for t in a.targets for n in ast.walk(t) if isinstance(n, ast.Name)]
                # node_ok wants every clean POSITION of an unpacking target typed, not only the name's final entry
                # (`w, w = w = ...` with an unknown slice types w through its last target only)
                unpos = set(n.id for t in a.targets if isinstance(t, (ast.Tuple, ast.List)) for n in ast.walk(t)
                            if isinstance(n, ast.Name) and self.prog.num[id(n)] not in self.an.types)
                typed = [n.id for n in st if n.id in new and n.id not in unpos]
                untyped = [n.id for n in st if n.id not in new or n.id in unpos]
                reads = set(n.id for n in ast.walk(a.value) if isinstance(n, ast.Name))
            elif isinstance(a, ast.AugAssign):
                typed, untyped = [], [a.target.id]
            elif isinstance(a, ast.expr) and id(a) in self.for_of_iter:
                typed, untyped = [], [n.id for n in ast.walk(self.for_of_iter[id(a)].target) if isinstance(n, ast.Name)]
            else:
                continue
            binds.append((typed, untyped, reads & self.locals))
        clean = set(self.locals)
        changed = True
        while changed:
            changed = False
            for typed, untyped, reads in binds:
                bad = set(untyped)
                if (reads - clean) or untyped:
                    # one untyped position / unclean read spoils every name the node binds
                    # (node_ok asks for all of them as soon as one bound name is clean)
                    bad |= set(typed)
                if bad & clean:
                    clean -= bad
                    changed = True
        return clean

    # ---- tables
    def tables(self):
        tv, tn, ta, tc, tb, tcmp, tu, ts, tup = [], [], [], [], [], [], [], [], []
        tl = 'None'
        seen = set()
        for kind, key, ans in self.log:
            if key is None and kind != 'list':
                continue
            sig = (kind, repr(key))
            if sig in seen:
                continue
            seen.add(sig)
            if kind == 'value':
                if type(key) in (int, float, bool, str):
                    t, p = self.val(key)
                    tv.append('(%d, %d, %s)' % (t, p, self.otyset(ans)))
            elif kind == 'name':
                tn.append('(%d, %s)' % (self.name(key), self.otyset(ans)))
            elif kind == 'arg':
                if key[0] == self.prog.fn.name:
                    ta.append('(%d, %s)' % (self.name(key[1]), self.otyset(ans)))
            elif kind == 'call':
                k, fname, args = key
                tc.append('(%d, [%s], %s)' % (k, '; '.join(self.otyset(a) for a in args), self.otyset(ans)))
            elif kind == 'binop':
                tb.append('(%d, %s, %s, %s)' % (OPS[key[0]], self.tyset(key[1]), self.tyset(key[2]), self.otyset(ans)))
            elif kind == 'compare':
                tcmp.append('(%d, %s, %s, %s)' % (OPS[key[0]], self.tyset(key[1]), self.tyset(key[2]), self.otyset(ans)))
            elif kind == 'unop':
                tu.append('(%d, %s, %s)' % (UN[key[0]], self.tyset(key[1]), self.otyset(ans)))
            elif kind == 'slice':
                (k, idx), vt, st = key
                if k == 'unpack':
                    tup.append('(%d, %s, %s)' % (idx, self.tyset(vt), self.otyset(ans)))
                elif st is not None:
                    ts.append('(%d, %s, %s, %s)' % (k, self.tyset(vt), self.tyset(st), self.otyset(ans)))
            elif kind == 'list':
                tl = self.otyset(ans)
        loc = '[%s]' % '; '.join(str(self.name(x)) for x in sorted(self.locals))
        j = lambda l: '[%s]' % '; '.join(l)   # noqa
        return 'mktables %s %s %s %s %s %s %s %s %s %s (%s)' % (loc, j(tv), j(tn), j(ta), j(tc), j(tb), j(tcmp), j(tu), j(ts), j(tup), tl)

    def case(self, idx):
        if len(self.an.analyzers) != 1:
            raise Unsupported('nested functions')
        g = self.graph
        nid = {n: self.prog.num[id(a)] for a, n in g.index.items()}
        # dead code (no path from the entry, e.g. the statements after a loop whose else clause always jumps) is
        # never visited by the walk and is not part of the exported graph: the theorems speak about executions
        live = set()
        todo = [g.entry]
        while todo:
            n = todo.pop()
            if n not in live:
                live.add(n)
                todo.extend(n.next)
        index = [(a, n) for a, n in g.index.items() if n in live]
        nodes = ['(%d, %s)' % (nid[n], self.node(a)) for a, n in index]
        succ = ['(%d, [%s])' % (nid[n], '; '.join(str(nid[m]) for m in n.next)) for a, n in index]
        prev = ['(%d, [%s])' % (nid[n], '; '.join(str(nid[m]) for m in n.prev if m in live)) for a, n in index]
        sol = ['(%d, (%s, %s))' % (nid[n], self.tymap(self.analyzer.in_[n].types), self.tymap(self.analyzer.out[n].types))
               for a, n in index]
        clean = self.clean_names()
        tabs = self.tables()
        graph = 'mkgraph [%s] [%s] [%s] %d' % ('; '.join(nodes), '; '.join(succ), '; '.join(prev), nid[g.entry])
        self.nclean = len(clean)
        return '(%d, %d, %s, [%s], %s, [%s])' % (idx, 3 * self.an.visits + 40, tabs, '; '.join(str(self.name(x)) for x in sorted(clean)), graph, '; '.join(sol))


def fn_case(prog, an, idx):
    """Reaching function definitions of every graph of the program as an `fcase` of coq/Types/FnDefs.v:
    CFG edges, def nodes, and anno.Static.DEFINED_FNS_IN of every node that has one."""
    anno = an.anno
    succ, sol, defs = [], [], set()
    for g in an.graphs.values():
        for a, n in g.index.items():
            k = prog.num[id(a)]
            if isinstance(a, (ast.FunctionDef, ast.Lambda)):
                defs.add(k)
            if not anno.hasanno(a, anno.Static.DEFINED_FNS_IN):
                continue
            nxt = [prog.num[id(m.ast_node)] for m in n.next if anno.hasanno(m.ast_node, anno.Static.DEFINED_FNS_IN)]
            succ.append('(%d, [%s])' % (k, '; '.join(str(x) for x in nxt)))
            din = anno.getanno(a, anno.Static.DEFINED_FNS_IN)
            sol.append('(%d, [%s])' % (k, '; '.join(str(prog.num[id(d)]) for d in din if id(d) in prog.num)))
    return '(%d, mkfgraph [%s] [%s], [%s])' % (idx, '; '.join(succ), '; '.join(str(d) for d in sorted(defs)), '; '.join(sol))
