"""Fail-closed syntactic translator for C09 (calling interface and environment).

  malt/pyct/transpiler.py   _wrap_into_factory, _PythonFnFactory.__init__/create/instantiate,
                            GenericTranspiler._erase_arg_defaults / transform_function,
                            PyToPy.transform_function (constructor + instantiate call)
  malt/converters/functions.py  FunctionTransformer.visit_FunctionDef / visit_Lambda
      -> coq/Generated/C09_gen.v  (one `config` record, definitions only)

Method: every function body is read as a sequence of single assignments; local
names are *substituted away* (so renaming or introducing locals is harmless) and
the resulting normal forms are matched against the closed set of shapes below.
Anything else raises Untranslatable (tie broken).

 instantiate (parameters self, globals_, closure, defaults, kwdefaults)
   closure map   dict(zip(<K>, closure))          K = self._freevars | <factory code>.co_freevars
   selection     tuple|list(<map>[n] for n in <S>) (generator or list comprehension)
                                                   S = <factory code>.co_freevars | self._freevars
   length check  if len(<A>) != len(<B>): raise ValueError(...)   (optional)   A,B in
                 {selected closure, closure, self._freevars, <factory code>.co_freevars}
   binding       types.FunctionType(code=<factory code>, globals=<G>, name=..., argdefs=(), closure=<C>)
                                                   G = globals_ ; C = selected closure | closure
   call          <bound>(**self._extra_locals)
   re-attachment [if <x> | if <x> is not None:] <new fn>.__defaults__ = defaults      (same for __kwdefaults__)
   return        <new fn>
 _wrap_into_factory: `for v in <closure_vars>: ... templates.replace("<name> = None", <name>=v)` collected in a
   list; final template = optional future-import placeholder + one niladic def whose body is made of the
   placeholders dummy_closure_defs / a def with the factory args holding entity_defs and `return entity_name`
   / `return inner`, in any arrangement (the arrangement is emitted, the Coq side judges it).
 _erase_arg_defaults: `for i in range(len(A.defaults)): A.defaults[i] = parse_expression(<const>)` and
   `for i, d in enumerate(A.kw_defaults): if d is not None: A.kw_defaults[i] = parse_expression(<const>)`
   with A = node.args; either loop may be missing (emitted as EraseNothing); <const> must be the text of a
   Python constant.
 functions.py visit_FunctionDef: `if <scope>.level <= N: node.decorator_list = [] else:
   node.decorator_list.append(parse_expression('ag__.autograph_artifact'))`; no other store into
   node.decorator_list / node.args in visit_FunctionDef or visit_Lambda.
"""
import ast
import copy
import os
import textwrap


class Untranslatable(Exception):
    pass


TP = 'malt/pyct/transpiler.py'
FN = 'malt/converters/functions.py'


def _fail(fname, node, msg):
    raise Untranslatable('untranslatable: %s:%s: %s' % (fname, getattr(node, 'lineno', '?'), msg))


def _nodoc(body):
    if body and isinstance(body[0], ast.Expr) and isinstance(body[0].value, ast.Constant) \
            and isinstance(body[0].value.value, str):
        return body[1:]
    return body


def _find(tree, kind, name, fname):
    for n in tree.body:
        if isinstance(n, kind) and n.name == name:
            return n
    raise Untranslatable('untranslatable: %s: %s %s not found' % (fname, kind.__name__, name))


class _Subst(ast.NodeTransformer):
    def __init__(self, env):
        self.env = env

    def visit_Name(self, node):
        if isinstance(node.ctx, ast.Load) and node.id in self.env:
            return copy.deepcopy(self.env[node.id])
        return node


def _subst(e, env):
    return _Subst(env).visit(copy.deepcopy(e))


def _u(e):
    return ast.unparse(e)


def _is_logging(st):
    return isinstance(st, ast.Expr) and isinstance(st.value, ast.Call) and \
        _u(st.value.func).startswith('logging.')


# ---------------------------------------------------------------------------
# instantiate
# ---------------------------------------------------------------------------

def _translate_instantiate(fn):
    a = fn.args
    names = [x.arg for x in a.args]
    if names != ['self', 'globals_', 'closure', 'defaults', 'kwdefaults'] or a.vararg or a.kwarg \
            or a.kwonlyargs or a.posonlyargs:
        _fail(TP, fn, 'instantiate signature changed: %s' % names)
    if [_u(d) for d in a.defaults] != ['None', 'None']:
        _fail(TP, fn, 'instantiate default values changed')
    env = {}
    out = {'len_check': None, 'defaults': None, 'kwdefaults': None}
    newfn = None            # normal form of the created function
    returned = False
    FCODE = 'self._unbound_factory.__code__'

    def src_of(e):
        s = _u(e)
        if s == 'self._freevars':
            return 'NSelfFreevars'
        if s == FCODE + '.co_freevars':
            return 'NFactoryFreevars'
        return None

    def parse_select(e):
        """tuple(<map>[n] for n in S)"""
        if isinstance(e, ast.Call) and isinstance(e.func, ast.Name) and e.func.id in ('tuple', 'list') \
                and len(e.args) == 1 and not e.keywords:
            e = e.args[0]
        if not isinstance(e, (ast.GeneratorExp, ast.ListComp)) or len(e.generators) != 1:
            return None
        g = e.generators[0]
        if g.ifs or g.is_async or not isinstance(g.target, ast.Name):
            return None
        elt = e.elt
        if not (isinstance(elt, ast.Subscript) and isinstance(elt.slice, ast.Name) and elt.slice.id == g.target.id):
            return None
        m = elt.value
        if not (isinstance(m, ast.Call) and _u(m.func) == 'dict' and len(m.args) == 1 and not m.keywords):
            return None
        z = m.args[0]
        if not (isinstance(z, ast.Call) and _u(z.func) == 'zip' and len(z.args) == 2 and not z.keywords):
            return None
        k = src_of(z.args[0])
        if k is None or _u(z.args[1]) != 'closure':
            return None
        s = src_of(g.iter)
        if s is None:
            return None
        return k, s

    sel_text = [None]

    def len_operand(e):
        if not (isinstance(e, ast.Call) and _u(e.func) == 'len' and len(e.args) == 1):
            return None
        x = e.args[0]
        s = _u(x)
        if s == 'closure':
            return 'LClosureArg'
        if s == 'self._freevars':
            return 'LSelfFreevars'
        if s == FCODE + '.co_freevars':
            return 'LFactoryFreevars'
        if sel_text[0] is not None and s == sel_text[0]:
            return 'LSelected'
        return None

    def attach(st, guard):
        tgt = st.targets[0]
        if not (isinstance(tgt, ast.Attribute) and newfn is not None and _u(_subst(tgt.value, env)) == newfn):
            _fail(TP, st, 'attribute store on something else than the new function')
        val = _u(_subst(st.value, env))
        if tgt.attr == '__defaults__':
            if val != 'defaults':
                _fail(TP, st, '__defaults__ is not taken from the `defaults` argument')
            if out['defaults'] is not None:
                _fail(TP, st, '__defaults__ assigned twice')
            out['defaults'] = guard
        elif tgt.attr == '__kwdefaults__':
            if val != 'kwdefaults':
                _fail(TP, st, '__kwdefaults__ is not taken from the `kwdefaults` argument')
            if out['kwdefaults'] is not None:
                _fail(TP, st, '__kwdefaults__ assigned twice')
            out['kwdefaults'] = guard
        else:
            _fail(TP, st, 'unexpected attribute store .%s on the new function' % tgt.attr)

    for st in _nodoc(fn.body):
        if returned:
            _fail(TP, st, 'statement after return')
        if _is_logging(st):
            continue
        if isinstance(st, ast.Assign) and len(st.targets) == 1 and isinstance(st.targets[0], ast.Name):
            name = st.targets[0].id
            if name in names:
                _fail(TP, st, 'parameter %s rebound' % name)
            val = _subst(st.value, env)
            # the bound factory and its call
            if isinstance(val, ast.Call) and _u(val.func) == 'types.FunctionType':
                kws = dict((k.arg, k.value) for k in val.keywords)
                if val.args or set(kws) - {'name'} != {'code', 'globals', 'argdefs', 'closure'}:
                    _fail(TP, st, 'types.FunctionType(...) argument list')
                if _u(kws['code']) != FCODE:
                    _fail(TP, st, 'FunctionType code= is not the unbound factory code')
                if _u(kws['globals']) != 'globals_':
                    _fail(TP, st, 'FunctionType globals= is not the globals_ argument (%s)' % _u(kws['globals']))
                if _u(kws['argdefs']) not in ('()', 'None'):
                    _fail(TP, st, 'FunctionType argdefs= not empty')
                c = _u(kws['closure'])
                if c == 'closure':
                    out['ft_closure'] = 'ClClosureArg'
                else:
                    ks = parse_select(kws['closure'])
                    if ks is None:
                        _fail(TP, st, 'FunctionType closure= shape: %s' % c)
                    out['map_keys'], out['select_by'] = ks
                    out['ft_closure'] = 'ClSelected'
                    sel_text[0] = c
                env[name] = ast.Name(id='<bound_factory>', ctx=ast.Load())
                out['bound'] = True
                continue
            if isinstance(val, ast.Call) and _u(val.func) == '<bound_factory>':
                if val.args or len(val.keywords) != 1 or val.keywords[0].arg is not None \
                        or _u(val.keywords[0].value) != 'self._extra_locals':
                    _fail(TP, st, 'bound factory not called with **self._extra_locals')
                newfn = '<new_fn>'
                env[name] = ast.Name(id='<new_fn>', ctx=ast.Load())
                continue
            ks = parse_select(val)
            if ks is not None:
                sel_text[0] = _u(val)
            env[name] = val
            continue
        if isinstance(st, ast.Assign) and len(st.targets) == 1 and isinstance(st.targets[0], ast.Attribute):
            attach(st, 'GAlways')
            continue
        if isinstance(st, ast.If) and not st.orelse:
            test = _subst(st.test, env)
            ts = _u(test)
            # not-created guard
            if ts == 'self._unbound_factory is None' and len(st.body) == 1 and isinstance(st.body[0], ast.Raise):
                continue
            # length check
            if isinstance(test, ast.Compare) and len(test.ops) == 1 and isinstance(test.ops[0], ast.NotEq) \
                    and len(st.body) == 1 and isinstance(st.body[0], ast.Raise):
                l, r = len_operand(test.left), len_operand(test.comparators[0])
                if l is None or r is None:
                    _fail(TP, st, 'length check operands: %s' % ts)
                if out['len_check'] is not None:
                    _fail(TP, st, 'two length checks')
                if out.get('bound'):
                    _fail(TP, st, 'length check after the factory was bound')
                exc = st.body[0].exc
                if not (isinstance(exc, ast.Call) and _u(exc.func) == 'ValueError'):
                    _fail(TP, st, 'length check raises something else than ValueError')
                out['len_check'] = (l, r)
                continue
            # guarded re-attachment
            guard = None
            if ts in ('defaults', 'kwdefaults'):
                guard, gv = 'GTruthy', ts
            elif ts in ('defaults is not None', 'kwdefaults is not None'):
                guard, gv = 'GNotNone', ts.split()[0]
            if guard and len(st.body) == 1 and isinstance(st.body[0], ast.Assign) and len(st.body[0].targets) == 1 \
                    and isinstance(st.body[0].targets[0], ast.Attribute):
                attr = st.body[0].targets[0].attr
                if attr != '__%s__' % gv:
                    _fail(TP, st, 'guard on %s protects a store to %s' % (gv, attr))
                attach(st.body[0], guard)
                continue
            _fail(TP, st, 'unrecognised if statement: %s' % ts)
        if isinstance(st, ast.Return):
            if newfn is None or st.value is None or _u(_subst(st.value, env)) != newfn:
                _fail(TP, st, 'instantiate does not return the function created by the bound factory')
            returned = True
            continue
        _fail(TP, st, 'unrecognised statement in instantiate: %s' % _u(st).split('\n')[0])
    if not returned or 'ft_closure' not in out:
        _fail(TP, fn, 'instantiate: no FunctionType binding / return found')
    if 'map_keys' not in out:
        out['map_keys'], out['select_by'] = 'NSelfFreevars', 'NFactoryFreevars'   # unused when ClClosureArg
    return out


# ---------------------------------------------------------------------------
# _PythonFnFactory.__init__ / create
# ---------------------------------------------------------------------------

def _check_init_create(cls):
    init = _find(cls, ast.FunctionDef, '__init__', TP)
    if [x.arg for x in init.args.args] != ['self', 'name', 'freevars', 'extra_locals']:
        _fail(TP, init, '_PythonFnFactory.__init__ signature changed')
    stores = {}
    for st in _nodoc(init.body):
        if isinstance(st, ast.Assign) and len(st.targets) == 1 and isinstance(st.targets[0], ast.Attribute) \
                and _u(st.targets[0].value) == 'self':
            stores[st.targets[0].attr] = _u(st.value)
        else:
            _fail(TP, st, 'unrecognised statement in __init__')
    for attr, val in (('_name', 'name'), ('_freevars', 'freevars'), ('_extra_locals', 'extra_locals'),
                      ('_unbound_factory', 'None')):
        if stores.get(attr) != val:
            _fail(TP, init, 'self.%s is not initialised from %s' % (attr, val))
    # nobody else writes these attributes
    for n in ast.walk(cls):
        if isinstance(n, ast.Attribute) and isinstance(n.ctx, (ast.Store, ast.Del)) and _u(n.value) == 'self' \
                and n.attr in ('_name', '_freevars', '_extra_locals'):
            owner = [f for f in cls.body if isinstance(f, ast.FunctionDef) and n in ast.walk(f)]
            if not owner or owner[0].name != '__init__':
                _fail(TP, n, 'self.%s written outside __init__' % n.attr)
    create = _find(cls, ast.FunctionDef, 'create', TP)
    env = {}
    wrap_call = None
    unbound = None
    for st in _nodoc(create.body):
        if isinstance(st, ast.Assign) and len(st.targets) == 1:
            t = st.targets[0]
            if isinstance(t, ast.Name):
                v = _subst(st.value, env)
                if isinstance(v, ast.Call) and _u(v.func) == '_wrap_into_factory':
                    wrap_call = v
                    env[t.id] = ast.Name(id='<wrapped>', ctx=ast.Load())
                else:
                    env[t.id] = v
                continue
            if isinstance(t, ast.Tuple) and all(isinstance(x, ast.Name) for x in t.elts):
                v = _subst(st.value, env)
                if isinstance(v, ast.Call) and _u(v.func) == 'loader.load_ast':
                    if not (v.args and _u(v.args[0]) == '<wrapped>'):
                        _fail(TP, st, 'loader.load_ast is not given the wrapped nodes')
                    env[t.elts[0].id] = ast.Name(id='<module>', ctx=ast.Load())
                    continue
            if isinstance(t, ast.Attribute) and _u(t.value) == 'self':
                if t.attr == '_unbound_factory':
                    unbound = _u(_subst(st.value, env))
                    continue
                if t.attr in ('module', 'source_map'):
                    continue
        if isinstance(st, ast.If) and _u(st.test) == 'self._unbound_factory is not None' \
                and len(st.body) == 1 and isinstance(st.body[0], ast.Raise):
            continue
        _fail(TP, st, 'unrecognised statement in create: %s' % _u(st).split('\n')[0])
    if wrap_call is None:
        _fail(TP, create, 'create does not call _wrap_into_factory')
    return wrap_call, unbound


# ---------------------------------------------------------------------------
# _wrap_into_factory
# ---------------------------------------------------------------------------

PLACEHOLDERS = ('future_imports', 'outer_factory_name', 'dummy_closure_defs', 'inner_factory_name',
                'factory_args', 'entity_defs', 'entity_name')


def _translate_wrap(fn, wrap_call, unbound):
    params = [x.arg for x in fn.args.args]
    if params != ['nodes', 'entity_name', 'inner_factory_name', 'outer_factory_name', 'closure_vars',
                  'factory_args', 'future_features']:
        _fail(TP, fn, '_wrap_into_factory signature changed: %s' % params)
    # the call in create
    if wrap_call.keywords or len(wrap_call.args) != 7:
        _fail(TP, wrap_call, '_wrap_into_factory call shape in create')
    actual = dict(zip(params, [_u(x) for x in wrap_call.args]))
    if actual['entity_name'] != 'self._name':
        _fail(TP, wrap_call, 'entity_name passed to _wrap_into_factory is not self._name')
    if actual['closure_vars'] != 'self._freevars':
        _fail(TP, wrap_call, 'closure_vars passed to _wrap_into_factory is not self._freevars')
    if actual['factory_args'] not in ('self._extra_locals.keys()', 'self._extra_locals', 'list(self._extra_locals)',
                                      'tuple(self._extra_locals)', 'list(self._extra_locals.keys())'):
        _fail(TP, wrap_call, 'factory_args passed to _wrap_into_factory are not the extra local names')
    for who in ('inner_factory_name', 'outer_factory_name'):
        if not actual[who].startswith('namer.new_symbol('):
            _fail(TP, wrap_call, '%s is not a fresh symbol from the namer' % who)
    outer_actual = actual['outer_factory_name']
    if unbound != 'getattr(<module>, %s)()' % outer_actual:
        _fail(TP, wrap_call, 'self._unbound_factory is not the result of calling the loaded outer factory: %s' % unbound)

    body = _nodoc(fn.body)
    dummy_list = None       # name of the list collecting dummy definitions
    dummy = None            # (source, value-is-None)
    env = {}
    result = None
    for st in body:
        if isinstance(st, ast.Assign) and len(st.targets) == 1 and isinstance(st.targets[0], ast.Name):
            name = st.targets[0].id
            if isinstance(st.value, ast.List) and not st.value.elts and dummy_list is None and name != 'future_imports':
                dummy_list = name
                continue
            if name == 'factory_args':
                v = st.value
                ok = isinstance(v, ast.ListComp) and len(v.generators) == 1 and not v.generators[0].ifs \
                    and _u(v.generators[0].iter) == 'factory_args' and isinstance(v.elt, ast.Call) \
                    and _u(v.elt.func) == 'ast.arg' and isinstance(v.generators[0].target, ast.Name)
                if ok:
                    kws = dict((k.arg, _u(k.value)) for k in v.elt.keywords)
                    ok = kws.get('arg') == v.generators[0].target.id and not v.elt.args
                if not ok:
                    _fail(TP, st, 'factory_args are not turned into plain ast.arg nodes one per name')
                continue
            if name == 'template' and isinstance(st.value, ast.Constant) and isinstance(st.value.value, str):
                env['template'] = st.value
                continue
            _fail(TP, st, 'unrecognised assignment in _wrap_into_factory')
        if isinstance(st, ast.If) and _u(st.test) == 'future_features':
            continue     # builds the `from __future__ import` node or []
        if isinstance(st, ast.For):
            if dummy_list is None or dummy is not None:
                _fail(TP, st, 'unexpected loop')
            it = _u(st.iter)
            if it not in ('closure_vars', 'sorted(closure_vars)', 'list(closure_vars)', 'tuple(closure_vars)',
                          'reversed(closure_vars)', 'set(closure_vars)'):
                _fail(TP, st, 'dummy definitions are not created for every closure variable (loop over %s)' % it)
            if not isinstance(st.target, ast.Name) or st.orelse:
                _fail(TP, st, 'loop target')
            tmpl = None
            emitted = False
            for s2 in st.body:
                if isinstance(s2, ast.Assign) and len(s2.targets) == 1 and isinstance(s2.targets[0], ast.Name) \
                        and isinstance(s2.value, ast.Constant) and isinstance(s2.value.value, str):
                    tmpl = (s2.targets[0].id, s2.value.value)
                    continue
                if isinstance(s2, ast.Expr) and isinstance(s2.value, ast.Call) \
                        and _u(s2.value.func) in (dummy_list + '.extend', dummy_list + '.append'):
                    c = s2.value.args[0] if len(s2.value.args) == 1 else None
                    if not (isinstance(c, ast.Call) and _u(c.func) == 'templates.replace' and len(c.args) == 1
                            and len(c.keywords) == 1):
                        _fail(TP, s2, 'dummy definition is not a templates.replace(...) with one placeholder')
                    if isinstance(c.args[0], ast.Name) and tmpl and c.args[0].id == tmpl[0]:
                        text = tmpl[1]
                    elif isinstance(c.args[0], ast.Constant) and isinstance(c.args[0].value, str):
                        text = c.args[0].value
                    else:
                        _fail(TP, s2, 'dummy template is not a string literal')
                    kw = c.keywords[0]
                    if _u(kw.value) != st.target.id:
                        _fail(TP, s2, 'dummy placeholder is not bound to the loop variable')
                    try:
                        t = ast.parse(textwrap.dedent(text)).body
                    except SyntaxError:
                        _fail(TP, s2, 'dummy template does not parse')
                    if not (len(t) == 1 and isinstance(t[0], ast.Assign) and len(t[0].targets) == 1
                            and isinstance(t[0].targets[0], ast.Name) and t[0].targets[0].id == kw.arg):
                        _fail(TP, s2, 'dummy template is not `<placeholder> = <constant>`')
                    if not isinstance(t[0].value, ast.Constant):
                        _fail(TP, s2, 'dummy template value is not a constant (it would be evaluated at load)')
                    emitted = True
                    continue
                _fail(TP, s2, 'unrecognised statement in the dummy-definition loop')
            if not emitted:
                _fail(TP, st, 'loop does not emit dummy definitions')
            dummy = True
            continue
        if isinstance(st, ast.Return):
            result = st.value
            continue
        _fail(TP, st, 'unrecognised statement in _wrap_into_factory: %s' % _u(st).split('\n')[0])
    if result is None:
        _fail(TP, fn, 'no return')
    if not (isinstance(result, ast.Call) and _u(result.func) == 'templates.replace' and len(result.args) == 1):
        _fail(TP, result, 'result is not templates.replace(template, ...)')
    targ = result.args[0]
    if isinstance(targ, ast.Name) and targ.id == 'template' and 'template' in env:
        text = env['template'].value
    elif isinstance(targ, ast.Constant) and isinstance(targ.value, str):
        text = targ.value
    else:
        _fail(TP, result, 'final template is not a string literal')
    kws = dict((k.arg, _u(k.value)) for k in result.keywords)
    expected = {'dummy_closure_defs': dummy_list if dummy else None, 'entity_defs': 'nodes', 'entity_name': 'entity_name',
                'factory_args': 'factory_args', 'future_imports': 'future_imports',
                'inner_factory_name': 'inner_factory_name', 'outer_factory_name': 'outer_factory_name'}
    for k, v in kws.items():
        if k not in expected:
            _fail(TP, result, 'unknown placeholder %s' % k)
        if expected[k] != v:
            _fail(TP, result, 'placeholder %s is bound to %s (expected %s)' % (k, v, expected[k]))
    try:
        tree = ast.parse(textwrap.dedent(text)).body
    except SyntaxError:
        _fail(TP, result, 'final template does not parse')

    def pname(s):
        return {'outer_factory_name': 'NOuter', 'inner_factory_name': 'NInner', 'entity_name': 'NEntity'}.get(s)

    def tparams(fd):
        a = fd.args
        if a.vararg or a.kwarg or a.kwonlyargs or a.posonlyargs or a.defaults:
            _fail(TP, result, 'factory parameters in template')
        ns = [x.arg for x in a.args]
        if ns == []:
            return 'PNone'
        if ns == ['factory_args']:
            return 'PFactoryArgs'
        _fail(TP, result, 'factory parameters in template: %s' % ns)

    used = set(n.id for n in ast.walk(ast.Module(body=tree, type_ignores=[])) if isinstance(n, ast.Name)) | \
        set(n.name for n in ast.walk(ast.Module(body=tree, type_ignores=[])) if isinstance(n, ast.FunctionDef)) | \
        set(a.arg for n in ast.walk(ast.Module(body=tree, type_ignores=[])) if isinstance(n, ast.FunctionDef)
            for a in n.args.args)
    for k in used:
        if k not in kws:
            _fail(TP, result, 'template name %s is not a bound placeholder' % k)
    # depth 0 items are module items (TFuture | TDef1), depth 1 = outer body, depth 2 = inner body
    mod = []
    for s in tree:
        if isinstance(s, ast.Expr) and isinstance(s.value, ast.Name) and s.value.id == 'future_imports':
            mod.append('MFuture')
        elif isinstance(s, ast.FunctionDef) and pname(s.name) and not s.decorator_list:
            body1 = []
            for s1 in s.body:
                if isinstance(s1, ast.FunctionDef) and pname(s1.name) and not s1.decorator_list:
                    body2 = []
                    for s2 in s1.body:
                        body2.append(_leaf(s2, result, pname, 'I'))
                    body1.append('ODef %s %s [%s]' % (pname(s1.name), tparams(s1), '; '.join(body2)))
                else:
                    body1.append(_leaf(s1, result, pname, 'O'))
            mod.append('MDef %s %s [%s]' % (pname(s.name), tparams(s), '; '.join(body1)))
        else:
            _fail(TP, result, 'unrecognised module-level template statement: %s' % _u(s).split('\n')[0])
    return mod


def _leaf(s, result, pname, pre):
    if isinstance(s, ast.Expr) and isinstance(s.value, ast.Name):
        n = s.value.id
        if n == 'dummy_closure_defs':
            return pre + 'Dummies'
        if n == 'entity_defs':
            return pre + 'Entity'
        _fail(TP, result, 'placeholder statement %s at an unexpected place in the template' % n)
    if isinstance(s, ast.Return) and isinstance(s.value, ast.Name) and pname(s.value.id):
        return pre + 'Ret %s' % pname(s.value.id)
    _fail(TP, result, 'unrecognised template statement: %s' % _u(s).split('\n')[0])


# ---------------------------------------------------------------------------
# _erase_arg_defaults, GenericTranspiler.transform_function, PyToPy.transform_function
# ---------------------------------------------------------------------------

def _const_of_parse_expression(e, where):
    if not (isinstance(e, ast.Call) and _u(e.func) == 'parser.parse_expression' and len(e.args) == 1
            and isinstance(e.args[0], ast.Constant) and isinstance(e.args[0].value, str)):
        _fail(TP, where, 'erased default is not parser.parse_expression(<string literal>)')
    try:
        v = ast.parse(e.args[0].value, mode='eval').body
    except SyntaxError:
        _fail(TP, where, 'erased default does not parse')
    if isinstance(v, ast.Tuple) and not v.elts:
        return 'EConstOther'
    if not isinstance(v, ast.Constant):
        _fail(TP, where, 'erased default %r is not a constant: it would be evaluated when the function is created'
              % e.args[0].value)
    return 'EConstNone' if v.value is None else 'EConstOther'


def _translate_erase(fn):
    if [x.arg for x in fn.args.args] != ['self', 'node']:
        _fail(TP, fn, '_erase_arg_defaults signature')
    env = {}
    out = {'erase_defaults': 'EraseNothing', 'erase_kwdefaults': 'EraseNothing', 'erase_const': 'EConstNone',
           'erase_kwconst': 'EConstNone'}
    returned = False
    for st in _nodoc(fn.body):
        if isinstance(st, ast.Assign) and len(st.targets) == 1 and isinstance(st.targets[0], ast.Name):
            env[st.targets[0].id] = _subst(st.value, env)
            continue
        if isinstance(st, ast.For) and not st.orelse:
            it = _u(_subst(st.iter, env))
            if it == 'range(len(node.args.defaults))' and isinstance(st.target, ast.Name) and len(st.body) == 1:
                s = st.body[0]
                if isinstance(s, ast.Assign) and len(s.targets) == 1 \
                        and _u(_subst(s.targets[0], env)) == 'node.args.defaults[%s]' % st.target.id:
                    out['erase_const'] = _const_of_parse_expression(s.value, s)
                    out['erase_defaults'] = 'EraseAll'
                    continue
            if it == 'enumerate(node.args.kw_defaults)' and isinstance(st.target, ast.Tuple) \
                    and len(st.target.elts) == 2 and all(isinstance(x, ast.Name) for x in st.target.elts) \
                    and len(st.body) == 1 and isinstance(st.body[0], ast.If) and not st.body[0].orelse:
                i, d = [x.id for x in st.target.elts]
                iff = st.body[0]
                if _u(iff.test) == '%s is not None' % d and len(iff.body) == 1:
                    s = iff.body[0]
                    if isinstance(s, ast.Assign) and len(s.targets) == 1 \
                            and _u(_subst(s.targets[0], env)) == 'node.args.kw_defaults[%s]' % i:
                        out['erase_kwconst'] = _const_of_parse_expression(s.value, s)
                        out['erase_kwdefaults'] = 'ErasePresent'
                        continue
            _fail(TP, st, 'unrecognised loop in _erase_arg_defaults')
        if isinstance(st, ast.Return):
            if _u(_subst(st.value, env)) != 'node':
                _fail(TP, st, '_erase_arg_defaults does not return its node')
            returned = True
            continue
        _fail(TP, st, 'unrecognised statement in _erase_arg_defaults')
    if not returned:
        _fail(TP, fn, '_erase_arg_defaults has no return')
    return out


def _translate_generic_tf(fn):
    """erase happens on the node that is then given to transform_ast."""
    erased_at = transformed_at = None
    node_var = None
    for idx, st in enumerate(_nodoc(fn.body)):
        for n in ast.walk(st):
            if isinstance(n, ast.Call) and _u(n.func) == 'self._erase_arg_defaults':
                if not (isinstance(st, ast.Assign) and len(st.targets) == 1 and isinstance(st.targets[0], ast.Name)
                        and st.value is n and len(n.args) == 1 and _u(n.args[0]) == st.targets[0].id):
                    _fail(TP, st, 'erase call shape (expected `node = self._erase_arg_defaults(node)`)')
                erased_at, node_var = idx, st.targets[0].id
            if isinstance(n, ast.Call) and _u(n.func) == 'self.transform_ast':
                if not (n.args and isinstance(n.args[0], ast.Name)):
                    _fail(TP, st, 'transform_ast call shape')
                transformed_at = (idx, n.args[0].id)
    if transformed_at is None:
        _fail(TP, fn, 'GenericTranspiler.transform_function does not call transform_ast')
    if erased_at is None:
        return 'false'
    if not (erased_at < transformed_at[0] and transformed_at[1] == node_var):
        return 'false'
    return 'true'


def _translate_pytopy_tf(fn):
    pfn = fn.args.args[1].arg
    ctor = inst = None
    for n in ast.walk(fn):
        if isinstance(n, ast.Call) and _u(n.func) == '_PythonFnFactory':
            if ctor is not None:
                _fail(TP, n, 'two factory constructions')
            ctor = n
        if isinstance(n, ast.Call) and isinstance(n.func, ast.Attribute) and n.func.attr == 'instantiate':
            if inst is not None:
                _fail(TP, n, 'two instantiate calls')
            inst = n
    if ctor is None or inst is None:
        _fail(TP, fn, 'factory construction / instantiate call not found')
    if ctor.keywords or len(ctor.args) != 3:
        _fail(TP, ctor, '_PythonFnFactory(...) argument list')
    if _u(ctor.args[1]) != '%s.__code__.co_freevars' % pfn:
        _fail(TP, ctor, 'factory freevars are not %s.__code__.co_freevars' % pfn)
    if _u(ctor.args[2]) != 'self.get_extra_locals()':
        _fail(TP, ctor, 'factory extra locals are not self.get_extra_locals()')
    kws = dict((k.arg, _u(k.value)) for k in inst.keywords)
    if inst.args or set(kws) != {'globals_', 'closure', 'defaults', 'kwdefaults'}:
        _fail(TP, inst, 'instantiate(...) argument list')
    want = {'globals_': ['%s.__globals__' % pfn],
            'closure': ['%s.__closure__ or ()' % pfn],
            'defaults': ['%s.__defaults__' % pfn],
            'kwdefaults': ["getattr(%s, '__kwdefaults__', None)" % pfn, '%s.__kwdefaults__' % pfn]}
    for k, alts in want.items():
        if kws[k] not in alts:
            _fail(TP, inst, 'instantiate(%s=%s): expected %s' % (k, kws[k], alts[0]))
    # the entity is named like the factory's name
    name_arg = _u(ctor.args[0])
    renamed = False
    for n in ast.walk(fn):
        if isinstance(n, ast.Assign) and len(n.targets) == 1 and isinstance(n.targets[0], ast.Attribute) \
                and n.targets[0].attr == 'name' and _u(n.value) == name_arg:
            renamed = True
    if not renamed:
        _fail(TP, fn, 'the transformed function is not renamed to the factory name %s' % name_arg)


# ---------------------------------------------------------------------------
# converters/functions.py
# ---------------------------------------------------------------------------

def _translate_functions(tree):
    cls = _find(tree, ast.ClassDef, 'FunctionTransformer', FN)
    vf = _find(cls, ast.FunctionDef, 'visit_FunctionDef', FN)
    vl = _find(cls, ast.FunctionDef, 'visit_Lambda', FN)
    out = {}
    # stores that touch the signature
    for f in (vf, vl):
        for n in ast.walk(f):
            if isinstance(n, ast.Attribute) and n.attr in ('args', 'defaults', 'kw_defaults', 'kwonlyargs',
                                                           'posonlyargs', 'vararg', 'kwarg'):
                _fail(FN, n, '%s touches the parameter list (.%s)' % (f.name, n.attr))
    found = None
    stores = []
    for n in ast.walk(vf):
        if isinstance(n, ast.Attribute) and n.attr == 'decorator_list':
            stores.append(n)
        if isinstance(n, ast.If) and isinstance(n.test, ast.Compare) and len(n.test.ops) == 1 \
                and isinstance(n.test.left, ast.Attribute) and n.test.left.attr == 'level':
            if any(isinstance(m, ast.Attribute) and m.attr == 'decorator_list' for m in ast.walk(n)):
                if found is not None:
                    _fail(FN, n, 'two decorator decisions')
                found = n
    if found is None:
        if stores:
            _fail(FN, vf, 'decorator_list handled in an unrecognised way')
        out.update(deco_top='DecoKeep', deco_nested='DecoKeep', deco_level=2)
        return out
    op, cmp_ = found.test.ops[0], found.test.comparators[0]
    if not (isinstance(cmp_, ast.Constant) and isinstance(cmp_.value, int)):
        _fail(FN, found, 'level compared with a non-literal')
    if isinstance(op, ast.LtE):
        bound = cmp_.value
    elif isinstance(op, ast.Lt):
        bound = cmp_.value - 1
    else:
        _fail(FN, found, 'level comparison operator')

    def action(stmts):
        acts = [s for s in stmts if any(isinstance(m, ast.Attribute) and m.attr == 'decorator_list' for m in ast.walk(s))]
        if not acts:
            return 'DecoKeep'
        if len(acts) != 1:
            _fail(FN, found, 'several decorator_list statements in one branch')
        s = acts[0]
        if isinstance(s, ast.Assign) and len(s.targets) == 1 and _u(s.targets[0]) == 'node.decorator_list' \
                and isinstance(s.value, ast.List) and not s.value.elts:
            return 'DecoClear'
        if isinstance(s, ast.Expr) and isinstance(s.value, ast.Call) and _u(s.value.func) == 'node.decorator_list.append' \
                and len(s.value.args) == 1 and _u(s.value.args[0]) == "parser.parse_expression('ag__.autograph_artifact')":
            return 'DecoAppendArtifact'
        _fail(FN, s, 'unrecognised decorator_list statement: %s' % _u(s))
    out['deco_top'] = action(found.body)
    out['deco_nested'] = action(found.orelse)
    out['deco_level'] = bound
    n_in = sum(1 for n in ast.walk(found) if isinstance(n, ast.Attribute) and n.attr == 'decorator_list')
    if n_in != len(stores):
        _fail(FN, vf, 'decorator_list also touched outside the level test')
    # the test must follow generic_visit?  irrelevant for the top-level function.
    return out


# ---------------------------------------------------------------------------

def translate(repo):
    p1 = os.path.join(repo, TP)
    p2 = os.path.join(repo, FN)
    try:
        t1 = ast.parse(open(p1).read())
        t2 = ast.parse(open(p2).read())
    except (OSError, SyntaxError) as e:
        raise Untranslatable('untranslatable: cannot read/parse source: %s' % e)
    fac = _find(t1, ast.ClassDef, '_PythonFnFactory', TP)
    inst = _translate_instantiate(_find(fac, ast.FunctionDef, 'instantiate', TP))
    wrap_call, unbound = _check_init_create(fac)
    mod = _translate_wrap(_find(t1, ast.FunctionDef, '_wrap_into_factory', TP), wrap_call, unbound)
    gen = _find(t1, ast.ClassDef, 'GenericTranspiler', TP)
    er = _translate_erase(_find(gen, ast.FunctionDef, '_erase_arg_defaults', TP))
    erase_first = _translate_generic_tf(_find(gen, ast.FunctionDef, 'transform_function', TP))
    _translate_pytopy_tf(_find(_find(t1, ast.ClassDef, 'PyToPy', TP), ast.FunctionDef, 'transform_function', TP))
    fx = _translate_functions(t2)
    lc = 'None' if inst['len_check'] is None else 'Some (%s, %s)' % inst['len_check']
    lines = [
        '(* GENERATED by tools/translate/c09_iface.py from %s and %s -- do not edit *)' % (TP, FN),
        'From Coq Require Import List.',
        'Import ListNotations.',
        'Require Import MV.Iface.IfaceSyntax.',
        '',
        'Definition config_gen : config := {|',
        '  map_keys := %s;' % inst['map_keys'],
        '  select_by := %s;' % inst['select_by'],
        '  len_check := %s;' % lc,
        '  ft_closure := %s;' % inst['ft_closure'],
        '  defaults_guard := %s;' % (inst['defaults'] or 'GNever'),
        '  kwdefaults_guard := %s;' % (inst['kwdefaults'] or 'GNever'),
        '  wrap_module := [%s];' % '; '.join(mod),
        '  erase_defaults := %s;' % er['erase_defaults'],
        '  erase_kwdefaults := %s;' % er['erase_kwdefaults'],
        '  erase_const := %s;' % er['erase_const'],
        '  erase_kwconst := %s;' % er['erase_kwconst'],
        '  erase_before_transform := %s;' % erase_first,
        '  deco_top := %s;' % fx['deco_top'],
        '  deco_nested := %s;' % fx['deco_nested'],
        '  deco_level := %d' % fx['deco_level'],
        '|}.',
        '']
    return '\n'.join(lines), dict(inst=inst, erase=er, functions=fx)


if __name__ == '__main__':
    import sys
    print(translate(sys.argv[1] if len(sys.argv) > 1 else '/repo')[0])
