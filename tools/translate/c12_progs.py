"""C12 program generator: modules with ONE failing statement, one statement per line.

A program is a call chain f0 -> f1 -> ... -> f(d-1), d <= 4.  f0 is the entry that the
harness wraps with malt.convert(recursive=R).  Every function of the chain is one of
   'C'  plain top-level def            (converted when reached from converted code)
   'U'  @malt.experimental.do_not_convert top-level def (never converted)
   'N'  def nested in the body of the previous function of the chain (part of its conversion)
   'L'  lambda bound in the body of the previous function (part of its conversion)
   'R'  the previous function again (direct recursion, one more activation)  [finding stream]
The last function of the chain contains the failing statement; every other one contains the
statement that calls the next function.  That "hot" statement sits at a random position and
nesting depth (if/elif/else, for, while, try/finally, try/except, with) and the conditions on
the way to it are forced by the argument p = 10**6 (`p > K` is true, `p < K` is false), so the
original function always reaches it.  The other statements are harmless filler (assignments,
conditionals, loops, comprehensions, cold return/break/continue that trigger the lowering
passes, nested defs, lambdas, del, try, with).

Every statement carries an integer literal 1000+i that occurs nowhere else (its *marker*):
a generated line that contains the marker can only have been generated from that statement.
`except E as name` is never produced (conversion crashes on it: separate port bug).
"""
import random

P_VALUE = 10 ** 6

PRELUDE = '''import malt


class U1(Exception):
  pass


class U2(Exception):

  def __init__(self, a, b):
    super().__init__(a, b)
    self.a = a


class U3(Exception):
  pass


class UB(ValueError):
  pass


class UI(IndexError):
  pass


class CM(object):

  def __init__(self, v=0):
    self.v = v

  def __enter__(self):
    return self.v

  def __exit__(self, *a):
    return False

'''

# failing expressions: kind -> (template with {K}, exception type name)
FAIL_EXPR = {
    'zerodiv': ('{K} // (p - p)', 'ZeroDivisionError'),
    'index': ('[{K}][p]', 'IndexError'),
    'key': ('{{{K}: 0}}[p]', 'KeyError'),
    'type': ('{K} + None', 'TypeError'),
    'attr': ('({K}).nope', 'AttributeError'),
    'builtin_int': ("int('bad{K}')", 'ValueError'),
    'builtin_len': ('len({K})', 'TypeError'),
    'builtin_divmod': ('divmod({K})', 'TypeError'),
}
# failing statements: kind -> (template, exception type name)
FAIL_STMT = {
    'raise_value': ("raise ValueError('v {K}')", 'ValueError'),
    'raise_runtime': ("raise RuntimeError('line one {K}\\nline two')", 'RuntimeError'),
    'raise_key': ("raise KeyError('k{K}')", 'KeyError'),
    'raise_index': ("raise IndexError('i {K}')", 'IndexError'),
    'raise_type': ("raise TypeError('t {K}')", 'TypeError'),
    'raise_assertion': ("raise AssertionError('a {K}')", 'AssertionError'),
    'raise_notimpl': ("raise NotImplementedError('n {K}')", 'NotImplementedError'),
    'raise_u1': ("raise U1('u1 {K}')", 'U1'),
    'raise_u2': ("raise U2('u2', {K})", 'U2'),
    'raise_ub': ("raise UB('ub {K}')", 'UB'),
    'raise_ui': ("raise UI('ui {K}')", 'UI'),
    'raise_os': ("raise OSError({K}, 'os')", 'OSError'),
    'raise_noarg': ('raise (ValueError, {K})[0]', 'ValueError'),
    'assert': ("assert p < {K}, 'as {K}'", 'AssertionError'),
    'del_key': ('del {{}}[{K}]', 'KeyError'),
    'store_index': ('[][{K}] = p', 'IndexError'),
    'unpack_stmt': ('x, y = (p, {K}, z)', 'ValueError'),
}
# contexts in which a hot expression E is embedded ({E}); some need a marker {K}
HOT_CTX = [
    'x = {E}',
    'y = x + {E}',
    'return {E}',
    '{E}',
    'x += {E}',
    'x = ({E}, {K})[0]',
    'x = [{E} for v in range(1)][0]',
    'x = {E} if p > {K} else y',
    'x = y if p < {K} else {E}',
    'x = p > {K} and {E}',
    'x = p < {K} or {E}',
    'x, y = {E}, z',
    'x = abs({E})',
    'x = {{"a": {E}}}',
    'x = (lambda q: q)({E})',
]
# compound statements whose *header* holds the hot expression
HOT_HEADER = ['if {E}:', 'while {E}:', 'for v in {E}:', 'if p < {K} or {E}:', 'with CM({E}):',
              'if not ({E}):']


class Line(object):
    __slots__ = ('text', 'indent', 'marker', 'func', 'hot')

    def __init__(self, text, indent, marker, func, hot=False):
        self.text, self.indent, self.marker, self.func, self.hot = text, indent, marker, func, hot


class Gen(object):
    def __init__(self, rnd, chain, fail_kind, size):
        self.rnd = rnd
        self.chain = chain          # list of kinds, chain[0] == 'C'
        self.fail_kind = fail_kind
        self.size = size
        self.k = 1000
        self.tmp = 0
        self.lines = []             # Line objects of the functions (after the prelude)
        self.loopdepth = 0
        self.infinally = 0

    # -- helpers ------------------------------------------------------------
    def K(self):
        self.k += 1
        return self.k

    def name(self, base):
        self.tmp += 1
        return '%s%d' % (base, self.tmp)

    def emit(self, text, ind, func, marker=None, hot=False):
        self.lines.append(Line(text, ind, marker, func, hot))
        return len(self.lines) - 1

    def stmt(self, tpl, ind, func, hot=False, **kw):
        k = self.K()
        return self.emit(tpl.format(K=k, **kw), ind, func, k, hot)

    def cond(self, truth):
        if truth:
            return self.rnd.choice(['p > {K}', 'p > {K} or x > y', 'not p < {K}', 'p > {K} and p > 0',
                                    '(p if p > {K} else 0)', 'p >= {K}'])
        return self.rnd.choice(['p < {K}', 'p < {K} and x > y', 'not p > {K}', 'p == {K}'])

    # -- filler ---------------------------------------------------------------
    def filler(self, ind, func, depth, n):
        for _ in range(n):
            self.filler_one(ind, func, depth)

    def filler_one(self, ind, func, depth):
        r = self.rnd
        kinds = ['assign'] * 5 + ['aug', 'tuple', 'ifexp', 'bool', 'comp', 'builtin', 'lambda', 'del']
        if depth < 3:
            kinds += ['if', 'if', 'ifelse', 'for', 'while', 'try', 'tryfin', 'with', 'ndef']
            if not self.infinally:
                kinds += ['coldret', 'coldret']
        if self.loopdepth > 0 and not self.infinally:
            kinds += ['coldbreak', 'coldcont', 'coldbreak']
        kind = r.choice(kinds)
        v, w = r.choice('xyz'), r.choice('xyz')
        S = lambda tpl, i=ind, **kw: self.stmt(tpl, i, func, **kw)
        if kind == 'assign':
            S('%s = %s + {K}' % (v, w))
        elif kind == 'aug':
            S('%s += {K}' % v)
        elif kind == 'tuple':
            S('%s, %s = %s, {K}' % (v, w, w) if v != w else '%s = {K}' % v)
        elif kind == 'ifexp':
            S('%s = %s if p > {K} else 0' % (v, w))
        elif kind == 'bool':
            S(r.choice(['%s = p > {K} and %s', '%s = p < {K} or %s', '%s = not (p < {K} and %s)']) % (v, w))
        elif kind == 'comp':
            S('%s = [q + {K} for q in (%s, 1)][0]' % (v, w))
        elif kind == 'builtin':
            S(r.choice(['%s = len([{K}, %s])', '%s = abs(%s - {K})', '%s = max(%s, {K})', '%s = int(%s) + {K}']) % (v, w))
        elif kind == 'lambda':
            g = self.name('g')
            S('%s = lambda q: q + {K}' % g)
            S('%s = %s(%s) + 0 * {K}' % (v, g, w))
        elif kind == 'del':
            t = self.name('t')
            S('%s = {K}' % t)
            S('del %s  # {K}' % t)
        elif kind in ('if', 'ifelse'):
            S('if %s:' % self.cond(r.random() < 0.5))
            self.filler(ind + 1, func, depth + 1, r.randint(1, 2))
            if kind == 'ifelse':
                if r.random() < 0.4:
                    S('elif %s:' % self.cond(r.random() < 0.5))
                    self.filler(ind + 1, func, depth + 1, 1)
                self.emit('else:', ind, func)
                self.filler(ind + 1, func, depth + 1, r.randint(1, 2))
        elif kind == 'for':
            S(r.choice(['for v in range(2 + 0 * {K}):', 'for v, u in [(x, {K}), (y, 1)]:', 'for v in (x, {K}):']))
            self.loopdepth += 1
            self.filler(ind + 1, func, depth + 1, r.randint(1, 2))
            self.loopdepth -= 1
        elif kind == 'while':
            c = self.name('w')
            S('%s = 0 * {K}' % c)
            S('while %s < 2 + 0 * {K}:' % c)
            S('%s += 1 + 0 * {K}' % c, ind + 1)
            self.loopdepth += 1
            self.filler(ind + 1, func, depth + 1, r.randint(1, 2))
            self.loopdepth -= 1
        elif kind in ('try', 'tryfin'):
            self.emit('try:', ind, func)
            self.filler(ind + 1, func, depth + 1, r.randint(1, 2))
            if kind == 'try' or r.random() < 0.5:
                self.emit('except U3:', ind, func)
                self.filler(ind + 1, func, depth + 1, 1)
            if kind == 'tryfin':
                self.emit('finally:', ind, func)
                self.infinally += 1
                ld, self.loopdepth = self.loopdepth, 0
                self.filler(ind + 1, func, depth + 1, 1)
                self.loopdepth = ld
                self.infinally -= 1
        elif kind == 'with':
            S(r.choice(['with CM({K}):', 'with CM({K}) as %s:' % v]))
            self.filler(ind + 1, func, depth + 1, r.randint(1, 2))
        elif kind == 'ndef':
            n = self.name('n')
            if r.random() < 0.5:
                S('def %s(q):  # {K}' % n)
                S('return q + {K}', ind + 1)
                S('%s = %s(%s) + 0 * {K}' % (v, n, w))
            else:
                S('def %s():  # {K}' % n)
                self.emit('nonlocal %s' % v, ind + 1, func)
                S('%s = %s + {K}' % (v, v), ind + 1)
                S('%s()  # {K}' % n)
        elif kind == 'coldret':
            S('if %s:' % self.cond(False))
            S(r.choice(['return x + {K}', 'return {K}', 'return  # {K}']), ind + 1)
        elif kind == 'coldbreak':
            S('if %s:' % self.cond(False))
            S('break  # {K}', ind + 1)
        elif kind == 'coldcont':
            S('if %s:' % self.cond(False))
            S('continue  # {K}', ind + 1)

    # -- the hot path -----------------------------------------------------------
    def hot_block(self, ind, func, depth, ci):
        """Emit a block that contains the hot statement of chain element ci."""
        r = self.rnd
        self.filler(ind, func, depth, r.randint(0, self.size))
        if depth < 4 and r.random() < 0.6:
            kind = r.choice(['if', 'else', 'elif', 'for', 'for2', 'while', 'tryfin', 'tryexc', 'with', 'ifnest'])
            S = lambda tpl, i=ind, **kw: self.stmt(tpl, i, func, **kw)
            if kind in ('if', 'ifnest'):
                S('if %s:' % self.cond(True))
                self.hot_block(ind + 1, func, depth + 1, ci)
                if r.random() < 0.5:
                    self.emit('else:', ind, func)
                    self.filler(ind + 1, func, depth + 1, 1)
            elif kind == 'else':
                S('if %s:' % self.cond(False))
                self.filler(ind + 1, func, depth + 1, 1)
                self.emit('else:', ind, func)
                self.hot_block(ind + 1, func, depth + 1, ci)
            elif kind == 'elif':
                S('if %s:' % self.cond(False))
                self.filler(ind + 1, func, depth + 1, 1)
                S('elif %s:' % self.cond(True))
                self.hot_block(ind + 1, func, depth + 1, ci)
                if r.random() < 0.5:
                    self.emit('else:', ind, func)
                    self.filler(ind + 1, func, depth + 1, 1)
            elif kind == 'for':
                S(r.choice(['for v in range(2 + 0 * {K}):', 'for v in (x, {K}):', 'for v, u in [(x, {K})]:']))
                self.loopdepth += 1
                self.hot_block(ind + 1, func, depth + 1, ci)
                self.loopdepth -= 1
            elif kind == 'for2':     # reached in the second iteration only
                S('for v in range(3 + 0 * {K}):')
                self.loopdepth += 1
                S('if v == 1 + 0 * {K}:', ind + 1)
                self.hot_block(ind + 2, func, depth + 2, ci)
                self.loopdepth -= 1
            elif kind == 'while':
                c = self.name('w')
                S('%s = 0 * {K}' % c)
                S('while %s < 2 + 0 * {K}:' % c)
                S('%s += 1 + 0 * {K}' % c, ind + 1)
                self.loopdepth += 1
                self.hot_block(ind + 1, func, depth + 1, ci)
                self.loopdepth -= 1
            elif kind == 'tryfin':
                self.emit('try:', ind, func)
                self.hot_block(ind + 1, func, depth + 1, ci)
                self.emit('finally:', ind, func)
                self.infinally += 1
                ld, self.loopdepth = self.loopdepth, 0
                self.filler(ind + 1, func, depth + 1, 1)
                self.loopdepth = ld
                self.infinally -= 1
            elif kind == 'tryexc':
                self.emit('try:', ind, func)
                self.hot_block(ind + 1, func, depth + 1, ci)
                self.emit('except U3:', ind, func)
                self.filler(ind + 1, func, depth + 1, 1)
            elif kind == 'with':
                S('with CM({K}):')
                self.hot_block(ind + 1, func, depth + 1, ci)
        else:
            self.hot_stmt(ind, func, depth, ci)
        self.filler(ind, func, depth, r.randint(0, self.size))

    def hot_stmt(self, ind, func, depth, ci):
        r = self.rnd
        last = (ci == len(self.chain) - 1)
        nxt = None if last else self.chain[ci + 1]
        S = lambda tpl, i=ind, **kw: self.stmt(tpl, i, func, **kw)
        if last and self.fail_kind in FAIL_STMT:
            S(FAIL_STMT[self.fail_kind][0], hot=True)
            return
        if last:
            E = FAIL_EXPR[self.fail_kind][0].replace('{K}', str(self.K()))
        elif nxt == 'N':
            # nested def in this body, then the call
            n = 'f%d' % (ci + 1)
            S('def %s(p):  # {K}' % n)
            ld, fi = self.loopdepth, self.infinally
            self.loopdepth = self.infinally = 0
            self.body(ind + 1, n, ci + 1)
            self.loopdepth, self.infinally = ld, fi
            E = '%s(p)' % n
        elif nxt == 'L':
            # lambda whose body is the next chain element: must be last or call the next
            n = 'f%d' % (ci + 1)
            if ci + 1 == len(self.chain) - 1:
                fk = self.fail_kind if self.fail_kind in FAIL_EXPR else 'zerodiv'
                inner = FAIL_EXPR[fk][0].replace('{K}', str(self.K()))
            else:
                inner = 'f%d(p)' % (ci + 2)
            S('%s = lambda p: %s  # {K}' % (n, inner), hot=True)
            E = '%s(p)' % n
        else:
            E = 'f%d(p)' % (ci + 1)
        if r.random() < 0.25 and depth < 4:
            hdr = r.choice(HOT_HEADER)
            if (hdr.startswith('for') or hdr.startswith('with')) and not last:
                hdr = 'if {E}:'       # (calls in a with item are not routed through converted_call: C04/C13 territory)
            S(hdr.replace('{E}', E), hot=True)
            self.filler(ind + 1, func, depth + 1, 1)
        else:
            ctx = r.choice(HOT_CTX)
            S(ctx.replace('{E}', E), hot=True)

    def body(self, ind, func, ci):
        S = lambda tpl, i=ind, **kw: self.stmt(tpl, i, func, **kw)
        S('x = p + 0 * {K}')
        S('y = {K}')
        S('z = x - {K}')
        if ci + 1 < len(self.chain) and self.chain[ci + 1] == 'R':
            # direct recursion: the first activation (r == 1) calls itself, the second one fails below
            self.filler(ind, func, 0, self.rnd.randint(0, self.size))
            S('if r > 0 * {K}:')
            self.filler(ind + 1, func, 1, self.rnd.randint(0, 1))
            ctx = self.rnd.choice(HOT_CTX[:5])
            S(ctx.replace('{E}', '%s(p, r - 1)' % func), ind + 1, hot=True)
            ci += 1
        self.hot_block(ind, func, 0, ci)
        if self.rnd.random() < 0.7:
            S('return x + y + {K}')


def chain_ok(chain):
    if chain[0] != 'C':
        return False
    for i, k in enumerate(chain):
        if k == 'L' and i + 1 < len(chain) and chain[i + 1] in ('N', 'L', 'R'):
            return False       # a lambda body is one expression: it can only call a top-level function
        if k == 'R' and (chain[i - 1] != 'C' or i + 1 < len(chain)):
            return False       # recursion: second activation of a plain def, and it is the failing one
    return True


def make_program(rnd, chain, fail_kind, size=2):
    """Returns dict(text, lines (list of str), hot (chain index -> 1-based line), funcs (chain index -> name),
    markers (marker -> 1-based line), fail_type)."""
    g = Gen(rnd, chain, fail_kind, size)
    # top-level functions are emitted callee-first so that each def precedes its use textually
    tops = [i for i, k in enumerate(chain) if k in ('C', 'U')]
    blocks = []
    for i in tops:
        start = len(g.lines)
        name = 'f%d' % i
        rec = (i + 1 < len(chain) and chain[i + 1] == 'R')
        if chain[i] == 'U':
            g.emit('@malt.experimental.do_not_convert', 0, name)
        g.stmt('def %s(p%s):  # {K}' % (name, ', r=1' if rec else ''), 0, name)
        g.body(1, name, i)
        blocks.append(g.lines[start:])
        del g.lines[start:]
    # reorder: callee first
    order = []
    for b in reversed(blocks):
        order.extend(b)
        order.append(Line('', 0, None, None))
        order.append(Line('', 0, None, None))
    prelude_lines = PRELUDE.split('\n')
    if prelude_lines[-1] == '':
        prelude_lines.pop()
    out = list(prelude_lines)
    markers = {}
    hot_by_func = {}
    lineinfo = {}
    for ln in order:
        out.append('  ' * ln.indent + ln.text)
        no = len(out)
        if ln.marker is not None:
            markers[ln.marker] = no
        if ln.hot:
            hot_by_func.setdefault(ln.func, []).append(no)
        lineinfo[no] = ln.func
    text = '\n'.join(out) + '\n'
    ftype = (FAIL_STMT.get(fail_kind) or FAIL_EXPR.get(fail_kind))[1]
    if 'L' in chain and chain[-1] == 'L' and fail_kind not in FAIL_EXPR:
        ftype = 'ZeroDivisionError'
    return {'text': text, 'markers': markers, 'hot_by_func': hot_by_func, 'fail_type': ftype,
            'chain': ''.join(chain), 'fail_kind': fail_kind}


ALL_FAIL = sorted(FAIL_EXPR) + sorted(FAIL_STMT)


def all_chains(maxdepth=4):
    out = []

    def rec(c):
        if chain_ok(c):
            out.append(list(c))
        if len(c) < maxdepth:
            for k in 'CUNLR':
                rec(c + [k])
    rec(['C'])
    return [c for c in out if chain_ok(c)]
