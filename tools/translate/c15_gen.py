"""C15 -- generator of Python modules whose functions and lambdas are handed to parser.parse_entity.

A module is rendered from a small tree of statements; every `def` and every lambda is registered in the
module-level dict REG under a unique key, so that the harness can fetch the function *objects*:
      REG['f3'] = f3            (after the def, at the def's own nesting level -- nested functions are
                                 registered when their parent is called; the module calls every parent)
      REG['l7'] = lambda a: a + 1007        (every lambda carries a unique constant = 1000 + its number)

Layout dimensions (all seeded): indentation by 1..8 spaces or tabs, a different width per block; mixed
tab/space modules (out-of-guarantee stream: malt refuses them explicitly); nesting in class / def / if / for /
while / with / try; comments at any column, also between blocks and with quotes inside; blank and
blank-with-spaces lines; bracketed continuation lines with arbitrary (also zero) indentation; backslash
continuations (with blanks around); triple-quoted, raw, bytes and f-strings with under-indented lines, `#`
and quotes inside; raw U+2028 / U+2029 / NEL / FS / GS / RS / VT / FF characters inside string literals, f-strings
and comments; a `#` inside a string literal on a line that ends in a backslash continuation; decorators (plain, with multi-line arguments, wrapping with functools.wraps);
multi-line signatures; several simple statements per physical line joined by `;` (at module level, in class
bodies and in function bodies, each creating lambdas with equal / different signatures); several lambdas per line with equal / different signatures, nested lambdas,
lambdas spanning lines, lambdas as default values and decorator arguments; lambdas and defs carrying `__wrapped__` (functools.wraps,
update_wrapper, manual attribute) whose own parameters differ from the target's, next to a lambda with the target's
parameter list.

`layout=<seed>` (a second, independent random stream, so that the modules of the main stream keep their text) adds
the layout of the FILE around and between the definitions: a prologue before the first statement (1..3 blank /
blanks-only / tab-only / form-feed lines, a `#!` / coding / licence comment header, a module docstring, and
combinations), an epilogue (trailing blank and blanks-only lines, or no final newline), and COLUMNS of lambdas:
2..4 lambdas on consecutive lines with equal or different signatures -- as consecutive assignments, as the elements
of a multi-line list / tuple / dict / call, at module level or in the body of a def or class -- some spanning two
lines, optionally separated by a blank or comment line.

`unsafe=True` adds the constructs of the known findings (backslash-newline inside a string literal,
at the end of a comment, between two adjacent tokens; a lambda with a foreign `__signature__` attribute).
"""
import random

HEADER = '''import functools
import contextlib
import inspect
REG = {}
def tgt1(v):
    return v
def tgt2(a, b=1):
    return a
def _setw(f, t):
    f.__wrapped__ = t
    return f
def _setsig(f, t):
    f.__signature__ = inspect.signature(t)
    return f
def _wrapsig(t):
    def d(f):
        f.__wrapped__ = t
        return f
    return d
def deco(f):
    return f
def deco_args(*a, **k):
    def d(f):
        return f
    return d
def wrapping(f):
    @functools.wraps(f)
    def wrapper(*a, **k):
        return f(*a, **k)
    REG['w_' + f.__name__] = wrapper
    return wrapper
@contextlib.contextmanager
def ctx():
    yield 1
'''


class Gen(object):
    def __init__(self, rnd, style='spaces', unsafe=False, size=10, layout=None):
        self.rnd = rnd
        self.rnd2 = random.Random(layout) if layout is not None else None      # file layout stream
        self.style = style
        self.unsafe = unsafe
        self.n = 0
        self.lines = []
        self.parents = []     # names of module-level callables to call at the end
        self.unsafe_kinds = set()
        self.size = size
        self.budget = size

    # ---- helpers
    def fresh(self):
        self.n += 1
        return self.n

    def indent_more(self, cur):
        r = self.rnd
        if self.style == 'tabs':
            return cur + '\t' * r.choice([1, 1, 1, 2])
        if self.style == 'mixed':
            return cur + (r.choice(['\t', '    ', '  ', '\t']) if cur else r.choice(['\t', '    ']))
        return cur + ' ' * r.choice([1, 2, 2, 3, 4, 4, 4, 5, 8])

    def ws(self):
        """arbitrary indentation for lines whose indentation does not matter"""
        r = self.rnd
        if self.style == 'tabs':
            return '\t' * r.choice([0, 1, 2, 3])
        return ' ' * r.choice([0, 0, 1, 2, 3, 4, 6, 8, 11])

    def emit(self, ind, text):
        self.lines.append(ind + text)

    def raw(self, text):
        self.lines.append(text)

    def comment(self, ind):
        r = self.rnd
        k = r.random()
        if k < 0.5:
            self.raw(self.ws() + r.choice(['# note', '# it\'s "quoted', "# '''not a string", '#', '# a \\ b', '#\tx = 1',
                                           '# sep \u2028 in comment', '# nel \x85 fs \x1c ff \x0c']))
        elif k < 0.7:
            self.raw('')
        elif k < 0.85:
            self.raw(self.ws())
        else:
            self.emit(ind, '# aligned comment')

    # ---- expressions
    def string(self):
        r = self.rnd
        w = self.ws
        opts = [
            "'abc'", '"a#b"', "r'\\d+'", "b'x\\n'", "f'{1}a'", "'it' \"s\"", 'rb"\\x"', "u'x'", "''", '""',
            "'\\''", '"\\\\"', "r'\\''", "f'{1!r:>4}'", "F\"{'a'}\"",
            "'''one\n" + w() + "two # not a comment\n" + w() + "'''",
            '"""x\n' + w() + 'it\'s "y"\n\n' + w() + '"""',
            "r'''a\\n\n" + w() + "b'''",
            "f'''{1}\n" + w() + "z'''",
            "'''a''' '''b'''",
            '"""""" \'\'',
            "'''x\\'''y'''",
            '"""a""b"""',
            "('p'\n" + w() + "'q')",
        ]
        if r.random() < 0.12:
            # characters str.splitlines() treats as line ends but Python source does not: raw inside literals
            z = r.choice(['\u2028', '\u2029', '\x85', '\x1c', '\x1d', '\x1e', '\x0b', '\x0c'])
            z2 = r.choice(['\u2028', '\x85', '\x1c', '\x0c', ''])
            return r.choice([
                "'a%sb'" % z, '"%s"' % z, "r'%s\\d%s'" % (z, z2), "f'{1}%sq%s'" % (z, z2),
                "'''one%stwo\n" % z + w() + "three%s'''" % z2,
                '"""%s\n' % z + w() + '%s x %s"""' % (z2, z),
                "f'''{1}%s\n" % z + w() + "z%s'''" % z2,
                "'''%s'''" % z, "r'''a%sb%s'''" % (z, z2),
            ])
        if self.unsafe:
            k = r.random()
            if k < 0.25:
                self.unsafe_kinds.add('string')
                return r.choice(["r'''a\\\nb'''", 'r"a\\\nb"', "'''a\\\\\nb'''", 'rb"""x\\\n"""', "Rf'''\\\n'''"])
            if k < 0.4:
                return r.choice(["'''a\\\nb'''", '"a\\\n' + w() + 'b"', "f'''\\\nq'''"])     # harmless for the value
        return r.choice(opts)

    def expr(self, depth=0):
        r = self.rnd
        k = r.random()
        if k < 0.3:
            return str(r.randint(0, 9))
        if k < 0.55:
            return self.string()
        if k < 0.7 and depth < 2:
            return '(%s,\n%s%s)' % (self.expr(depth + 1), self.ws(), self.expr(depth + 1))
        if k < 0.8 and depth < 2:
            return '[%s,  # c\n%s%s\n%s]' % (self.expr(depth + 1), self.ws(), self.expr(depth + 1), self.ws())
        if k < 0.9 and depth < 2:
            return '%s %s\\\n%s%s' % (self.expr(depth + 1), r.choice([', ', ',', 'if 1 else ', 'or ', 'and ']), ' ' + self.ws(), self.expr(depth + 1))
        return 'len({%s: %s})' % (r.randint(0, 9), r.randint(0, 9))

    def lam(self, params=None):
        """-> (text, [ids]) a lambda expression with unique constants"""
        r = self.rnd
        i = self.fresh()
        if params is None:
            params = r.choice(['a', 'a', 'b', 'a, b', '*a', 'a, *b, c=1, **d', '', 'a=1', '*, k', 'a, /'])
        k = r.random()
        c = 1000 + i
        if k < 0.55:
            return 'lambda %s: %d' % (params, c), [i]
        if k < 0.7:
            return 'lambda %s: (%d,\n%s%s)' % (params, c, self.ws(), self.string()), [i]
        if k < 0.85:
            inner, ids = self.lam()
            return 'lambda %s: (%d, %s)' % (params, c, inner), [i] + ids
        return 'lambda %s: %d + \\\n %s2' % (params, c, self.ws()), [i]

    # ---- statements
    def simple(self, ind):
        r = self.rnd
        k = r.random()
        if k < 0.3:
            self.emit(ind, 'x = %s' % self.expr())
        elif k < 0.33:
            self.emit(ind, 'x = %s %% 1 %s \\\n%s%s' % (r.choice(["'item #%d'", '"#%s"', "'''a # b %s'''", "f'#{1}%d'"]),
                                                     r.choice(['+', ',', 'or']), ' ' + self.ws(),
                                                     r.choice(["'.'", "'#' \\\n" + self.ws() + " '!'", '"z"  # c'])))
        elif k < 0.4:
            self.emit(ind, 'x = %s  # trailing %s' % (self.expr(), r.choice(['', "'", '"""', '\\ z'])))
        elif k < 0.5:
            self.emit(ind, 'x = 1; y = %s%s' % (self.string(), r.choice(['', '; x = 3', ';'])))
        elif k < 0.6:
            self.emit(ind, self.string())
        elif k < 0.75:
            self.lambdas(ind)
        elif k < 0.8 and self.unsafe:
            kk = r.random()
            if kk < 0.5:
                self.unsafe_kinds.add('comment')
                self.emit(ind, 'x = 1  # ends with backslash \\')
                self.emit(ind, 'x = 2')
            else:
                self.unsafe_kinds.add('glue')
                self.emit(ind, 'x = 3')
                self.emit(ind, r.choice(['x = not\\\nx', 'x = 1 if x else\\\n2', 'y = x or\\\nx', 'x = x is not\\\nNone']))
        else:
            self.emit(ind, 'pass')

    def semi_lambdas(self, ind):
        """several simple statements on one physical line, each (or some) creating a lambda"""
        r = self.rnd
        parts = []
        regs = []
        sigs = r.choice([['a', 'a'], ['a', 'a, b'], ['a', 'b', 'a'], [None, None], ['', 'a=1'], ['a', None, 'a']])
        for p in sigs:
            if r.random() < 0.25:
                parts.append(r.choice(['x = 1', 'pass', 'y = %s' % r.choice(["'s;t'", '"#;"', '(1, 2)'])]))
            t, ids = self.lam(p)
            if '\n' in t or r.random() < 0.3:
                t = '(%s)' % t
            parts.append('REG[%r] = %s' % ('l%d' % ids[0], t))
            regs.append(ids)
        if r.random() < 0.3:
            parts.append(r.choice(['x = 2', 'pass']))
        sep = r.choice(['; ', ';', ' ; ', ';  '])
        self.emit(ind, sep.join(parts) + r.choice(['', '', ';', '  # c; d']))
        for ids in regs:
            self.nested_lams(ind, ids)

    def wrapped_lambdas(self, ind):
        """a lambda carrying __wrapped__ (functools.wraps / update_wrapper / manual attribute) whose own parameters
        differ from the wrapped target's, next to a lambda that has the target's parameter list; with
        sig_override (known-finding stream) a __signature__ attribute instead"""
        r = self.rnd
        tgt, tsig = r.choice([('tgt1', 'v'), ('tgt2', 'a, b=1')])
        own = r.choice(['*a, **k', 'x, y', '', 'v, w', '*args'])
        t1, i1 = self.lam(own)
        t2, i2 = self.lam(tsig)
        forms = ['functools.wraps(%s)(%%s)' % tgt, 'functools.update_wrapper(%%s, %s)' % tgt, '_setw(%%s, %s)' % tgt]
        if self.unsafe and r.random() < 0.5:
            forms = ['_setsig(%%s, %s)' % tgt]
            self.unsafe_kinds.add('sigoverride')
        w = r.choice(forms) % t1
        parts = [('l%d' % i1[0], w), ('l%d' % i2[0], '(%s)' % t2)]
        if r.random() < 0.3:
            t3, i3 = self.lam(r.choice([own, 'q']))
            parts.append(('l%d' % i3[0], '(%s)' % t3))
        r.shuffle(parts)
        if r.random() < 0.7:
            self.emit(ind, '%s = %s' % (', '.join('REG[%r]' % k for k, _ in parts), ', '.join(v for _, v in parts)))
        else:
            self.emit(ind, '; '.join('REG[%r] = %s' % kv for kv in parts))
        for ids in (i1, i2):
            self.nested_lams(ind, ids)

    def lambdas(self, ind):
        r = self.rnd
        k = r.random()
        if r.random() < 0.3:
            self.semi_lambdas(ind)
            return
        if r.random() < 0.2:
            self.wrapped_lambdas(ind)
            return
        if k < 0.35:
            t, ids = self.lam()
            self.reg_lams(ind, [(t, ids)])
        elif k < 0.6:
            a, ia = self.lam('a')
            b, ib = self.lam(r.choice(['a', 'b', 'a', 'c, d']))
            self.reg_lams(ind, [(a, ia), (b, ib)])
        elif k < 0.8:
            a, ia = self.lam()
            b, ib = self.lam()
            c, ic = self.lam()
            self.reg_lams(ind, [(a, ia), (b, ib), (c, ic)])
        else:
            # lambda as argument of a call spanning lines
            t, ids = self.lam()
            self.emit(ind, 'REG[%r] = deco(\n%s%s\n%s)' % ('l%d' % ids[0], self.ws(), t, self.ws()))
            self.nested_lams(ind, ids)

    def reg_lams(self, ind, lams):
        keys = ', '.join('REG[%r]' % ('l%d' % ids[0]) for _, ids in lams)
        vals = ', '.join('(%s)' % t for t, _ in lams)
        if len(lams) == 1:
            vals = lams[0][0]
        self.emit(ind, '%s = %s' % (keys, vals))
        for _, ids in lams:
            self.nested_lams(ind, ids)

    def nested_lams(self, ind, ids):
        # inner lambdas are obtained by calling the outer one: lambda p: (c, <inner>)
        cur = 'REG[%r]' % ('l%d' % ids[0])
        for j in ids[1:]:
            self.emit(ind, 'REG[%r] = _call(%s)[1]' % ('l%d' % j, cur))
            cur = 'REG[%r]' % ('l%d' % j)

    def block(self, ind, depth, allow_def=True):
        r = self.rnd
        n = r.randint(1, 3)
        for _ in range(n):
            if r.random() < 0.25:
                self.comment(ind)
            self.stmt(ind, depth, allow_def)
        if r.random() < 0.15:
            self.comment(ind)

    def stmt(self, ind, depth, allow_def=True):
        r = self.rnd
        k = r.random()
        if depth >= 4 or self.budget <= 0 or k < 0.45:
            self.simple(ind)
            return
        self.budget -= 1
        sub = self.indent_more(ind)
        if k < 0.6 and allow_def:
            self.funcdef(ind, depth)
        elif k < 0.68:
            self.emit(ind, 'if %s:%s' % (r.choice(['x is None', 'x == 1']), r.choice(['', '  # c', ' # \\ z'])))
            self.block(sub, depth + 1, allow_def)
            if r.random() < 0.4:
                if r.random() < 0.3:
                    self.comment(ind)
                self.emit(ind, 'else:')
                self.block(self.indent_more(ind), depth + 1, allow_def)
        elif k < 0.76:
            self.emit(ind, 'for i in range(%d):' % r.randint(0, 2))
            self.block(sub, depth + 1, allow_def)
        elif k < 0.82:
            self.emit(ind, 'while x == 55:')
            self.block(sub, depth + 1, allow_def)
        elif k < 0.9:
            self.emit(ind, 'with ctx() as c, \\\n%sctx():' % (' ' + self.ws()))
            self.block(sub, depth + 1, allow_def)
        else:
            self.emit(ind, 'try:')
            self.block(sub, depth + 1, allow_def)
            self.emit(ind, 'except (ValueError,\n%sKeyError):' % self.ws())
            self.block(self.indent_more(ind), depth + 1, allow_def)
            if r.random() < 0.5:
                self.emit(ind, 'finally:')
                self.block(self.indent_more(ind), depth + 1, allow_def)

    def funcdef(self, ind, depth, method=False):
        r = self.rnd
        i = self.fresh()
        name = 'f%d' % i
        k = r.random()
        wrapped = False
        if k < 0.15:
            self.emit(ind, '@deco')
        elif k < 0.3:
            self.emit(ind, '@deco_args(1,\n%s2,  # c\n%sk=%s)' % (self.ws(), self.ws(), self.string()))
        elif k < 0.34:
            self.emit(ind, '@wrapping')
            wrapped = True
        elif k < 0.38:
            self.emit(ind, '@_wrapsig(%s)' % r.choice(['tgt1', 'tgt2']))
        elif k < 0.45:
            t, ids = self.lam()
            self.emit(ind, '@deco_args(_reg(%r, %s))' % ('l%d' % ids[0], t))
            if len(ids) > 1:
                ids = ids[:1]
        elif k < 0.5:
            self.emit(ind, '@deco')
            self.comment(ind)
            self.emit(ind, '@deco')
        first = 'self, ' if method else ''
        k = r.random()
        is_async = 0.8 <= k < 0.9
        if k < 0.5:
            self.emit(ind, 'def %s(%sx=None):%s' % (name, first, r.choice(['', '', '  # c', ' # \\ z'])))
        elif k < 0.7:
            self.emit(ind, 'def %s(%sx=None,\n%sy=%s,\n%s*a, **k):' % (name, first, self.ws(), self.string(), self.ws()))
        elif k < 0.8:
            self.emit(ind, 'def %s \\\n%s(%sx=None) \\\n%s-> None:' % (name, ' ' + self.ws(), first, ' ' + self.ws()))
        elif k < 0.9:
            self.emit(ind, 'async def %s(%sx=None):' % (name, first))
        else:
            t, ids = self.lam()
            self.emit(ind, 'def %s(%sx=None, k=_reg(%r, %s)):' % (name, first, 'l%d' % ids[0], t))
        sub = self.indent_more(ind)
        if r.random() < 0.3:
            self.emit(sub, r.choice(['"""doc"""', "'''doc\n%smore\n'''" % self.ws(), 'r"""d\\d"""']))
        self.block(sub, depth + 1, allow_def=not is_async)
        if r.random() < 0.5:
            self.emit(sub, 'return x')
        self.emit(ind, 'REG[%r] = %s' % (name, name))
        if not is_async:
            self.emit(ind, '_call(%s%s)' % (name, ', None' if method else ''))
        return name

    def classdef(self, ind, depth):
        r = self.rnd
        i = self.fresh()
        self.emit(ind, 'class C%d(object):' % i)
        sub = self.indent_more(ind)
        if r.random() < 0.3:
            self.emit(sub, '"""class doc"""')
        self.emit(sub, 'x = None')
        for _ in range(r.randint(1, 3)):
            if r.random() < 0.3:
                self.comment(sub)
            self.funcdef(sub, depth + 1, method=True)
        if r.random() < 0.4:
            self.lambdas(sub)

    # ---- file layout (second stream only: nothing here may draw from self.rnd)
    def prologue(self):
        r = self.rnd2
        blank = lambda: r.choice(['', '', '', '   ', '\t', ' \t ', '\x0c', ' '])       # noqa: E731
        header = lambda: r.choice([['#!/usr/bin/env python'], ['# -*- coding: utf-8 -*-'],      # noqa: E731
                                   ['#!/usr/bin/env python', '# -*- coding: utf-8 -*-'],
                                   ['# Copyright', '#', '# Licensed'], ['# c \\']])
        doc = lambda: r.choice(['"""Module doc."""', "'''doc\n\n  more\n'''", 'r"""d\\d\n"""'])   # noqa: E731
        k = r.random()
        if k < 0.2:
            return []
        if k < 0.55:
            return [blank() for _ in range(r.randint(1, 3))]
        if k < 0.65:
            return header()
        if k < 0.75:
            return header() + [blank() for _ in range(r.randint(1, 2))]
        if k < 0.85:
            return [blank() for _ in range(r.randint(1, 2))] + header() + [blank() for _ in range(r.randint(0, 2))]
        if k < 0.92:
            return [doc()] + [blank() for _ in range(r.randint(0, 1))]
        return [blank() for _ in range(r.randint(1, 3))] + [doc()]

    def lam2(self, params):
        """a lambda (text, id) drawn from the layout stream; one or two lines"""
        r = self.rnd2
        i = self.fresh()
        c = 1000 + i
        k = r.random()
        if k < 0.75:
            return 'lambda %s: %d' % (params, c), i
        if k < 0.9:
            return 'lambda %s: (%d,\n%s%d)' % (params, c, ' ' * r.choice([0, 2, 9]), r.randint(0, 9)), i
        return 'lambda %s: %d + \\\n %s2' % (params, c, ' ' * r.choice([0, 3])), i

    def lambda_column(self):
        """2..4 lambdas on consecutive lines"""
        r = self.rnd2
        n = r.randint(2, 4)
        same = r.choice(['a', 'x', 'a, b', '', '*a'])
        pool = ['a', 'b', 'a, b', '*a', 'a=1', '', 'x, y']
        params = [same if r.random() < 0.6 else r.choice(pool) for _ in range(n)]
        lams = [self.lam2(p) for p in params]
        keys = ['l%d' % i for _, i in lams]
        form = r.choice(['assign', 'assign', 'list', 'tuple', 'dict', 'call', 'def', 'class'])
        gap = (lambda: [r.choice(['', '# c', '   '])] if r.random() < 0.15 else [])      # noqa: E731
        out = []
        if form in ('assign', 'def', 'class'):
            ind = ''
            if form == 'def':
                fi = self.fresh()
                ind = self.style == 'tabs' and '\t' or ' ' * r.choice([2, 4])
                out.append('def f%d(x=None):' % fi)
            elif form == 'class':
                fi = self.fresh()
                ind = self.style == 'tabs' and '\t' or ' ' * r.choice([2, 4])
                out.append('class C%d(object):' % fi)
            for (t, i), k in zip(lams, keys):
                out.append('%sREG[%r] = %s' % (ind, k, t))
                out += gap()
            if form == 'def':
                out += ['%sreturn x' % ind, 'REG[\'f%d\'] = f%d' % (fi, fi), '_call(f%d)' % fi]
        else:
            op, cl = {'list': ('[', ']'), 'tuple': ('(', ')'), 'dict': ('{', '}'), 'call': ('deco_args(', ')')}[form]
            ind = ' ' * r.choice([0, 2, 4, 4, 7])
            out.append('_col = %s' % op)
            for j, ((t, i), k) in enumerate(zip(lams, keys)):
                out.append('%s%s_reg(%r, %s),' % (ind, '%d: ' % j if form == 'dict' else '', k, t))
                out += gap()
            out.append(cl)
        self.lines.extend(out)

    def module(self):
        r = self.rnd
        self.lines = (self.prologue() if self.rnd2 else []) + HEADER.split('\n')[:-1]
        self.lines += ['def _call(f, *a):',
                       '    for b, k in (((), {}), ((1,), {}), ((1, 2), {}), ((), {"k": 2})):',
                       '        try:', '            return f(*a, *b, **k)', '        except TypeError:',
                       '            pass', '    raise TypeError("cannot call")',
                       'def _reg(key, f):', '    REG[key] = f', '    return f', 'x = None']
        columns = 0
        while self.budget > 0:
            self.budget -= 1
            if self.rnd2 and self.rnd2.random() < 0.3:
                self.lambda_column()
                columns += 1
            if r.random() < 0.2:
                self.comment('')
            k = r.random()
            if k < 0.55:
                self.funcdef('', 0)
            elif k < 0.75:
                self.classdef('', 0)
            elif k < 0.9:
                self.lambdas('')
            else:
                self.stmt('', 0)
        if self.rnd2:
            if not columns or self.rnd2.random() < 0.3:
                self.lambda_column()
            tail = self.rnd2.choice(['\n', '\n', '\n\n', '\n   \n', '\n\n\t\n\n', '', '\n# end', '\n\x0c\n'])
            return '\n'.join(self.lines) + tail
        return '\n'.join(self.lines) + '\n'


def gen_module(seed, style='spaces', unsafe=False, size=10, layout=None):
    g = Gen(random.Random(seed), style=style, unsafe=unsafe, size=size, layout=layout)
    src = g.module()
    return src, g
