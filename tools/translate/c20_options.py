"""Fail-closed syntactic translator: malt/core/converter.py -> coq/Generated/C20_gen.v

Recognised shapes (anything else raises Untranslatable -> tie broken):
  class Feature(enum.Enum):        NAME = 'NAME' members (other defs ignored)
  ConversionOptions.__init__       parameter names + defaults in
                                   {True, False, None, Feature.X}; body assigns
                                   self.<p> = <p> for the bool parameters (checked),
                                   optional_features normalisation is validated by the
                                   exhaustive correspondence, not translated
  as_tuple                         return (self.a, self.b, ...)
  __hash__                         return hash(self.as_tuple())
  __eq__                           [assert ...;] return self.as_tuple() == other.as_tuple()
  uses(self, feature)              return <or-combination of `X in self.optional_features`>
                                   with X in {Feature.NAME, feature}
  call_options                     return ConversionOptions(kw=<self.f | True | False>, ...)
  to_ast                           if self == STANDARD_OPTIONS: return parse_expression('ag__.STD')
                                   template string with kw=placeholder pairs;
                                   templates.replace(template, placeholder=parse_expression(str(self.f)) |
                                                     list_of_features(self.optional_features))
  STANDARD_OPTIONS = ConversionOptions(kw=<const>, ...)

malt/operators/function_wrappers.py (scope_tables; the objects through which converted code hands options on):
  class FunctionScope(object)      no decorator / metaclass / __new__ / attribute hooks / descriptors named like the
                                   option-carrying attributes; nothing but __init__ stores self.options / self.callopts
  FunctionScope.__init__(self, function_name, scope_name, options)
                                   top-level statements `self.options = options`, `self.callopts = options.call_options()`
                                   (any other value, a conditional store or a rebinding of `options` is rejected)
  FunctionScope.__enter__          every return is `return self`
  with_function_scope(thunk, scope_name, options)
                                   with FunctionScope(<str>, scope_name, options) as S: return thunk(S)
  malt/operators/__init__.py       imports FunctionScope and with_function_scope from function_wrappers, unaliased
  malt/impl/api.py converted_call  `if options is None: ... options = caller_fn_scope.<options|callopts>` is the only
                                   assignment to `options`
"""
import ast
import os
import textwrap


class Untranslatable(Exception):
    pass


def _fail(node, msg):
    raise Untranslatable('untranslatable: converter.py:%s: %s' % (getattr(node, 'lineno', '?'), msg))


FIELD = {'recursive': 'FRecursive', 'user_requested': 'FUserRequested',
         'internal_convert_user_code': 'FInternal', 'optional_features': 'FFeatures'}


def _self_field(node):
    if isinstance(node, ast.Attribute) and isinstance(node.value, ast.Name) and node.value.id == 'self' \
            and node.attr in FIELD:
        return node.attr
    return None


def _const_src(node, members):
    """-> Gallina `src` term for a keyword value of a ConversionOptions(...) call."""
    f = _self_field(node)
    if f:
        return 'SField %s' % FIELD[f]
    if isinstance(node, ast.Constant) and node.value is True:
        return 'SBool true'
    if isinstance(node, ast.Constant) and node.value is False:
        return 'SBool false'
    if isinstance(node, ast.Constant) and node.value is None:
        return 'SSpell SpNone'
    if isinstance(node, ast.Attribute) and isinstance(node.value, ast.Name) and node.value.id == 'Feature' \
            and node.attr in members:
        return 'SSpell (SpSingle %s)' % node.attr
    _fail(node, 'keyword value shape ' + ast.dump(node))


def _find_method(cls, name):
    for n in cls.body:
        if isinstance(n, ast.FunctionDef) and n.name == name:
            return n
    _fail(cls, 'method %s missing' % name)


def _body_nodoc(fn):
    body = fn.body
    if body and isinstance(body[0], ast.Expr) and isinstance(body[0].value, ast.Constant) \
            and isinstance(body[0].value.value, str):
        body = body[1:]
    return body


def translate(repo):
    path = os.path.join(repo, 'malt', 'core', 'converter.py')
    with open(path) as f:
        tree = ast.parse(f.read())
    feat = opts = std = None
    for n in tree.body:
        if isinstance(n, ast.ClassDef) and n.name == 'Feature':
            feat = n
        elif isinstance(n, ast.ClassDef) and n.name == 'ConversionOptions':
            opts = n
        elif isinstance(n, ast.Assign) and len(n.targets) == 1 and isinstance(n.targets[0], ast.Name) \
                and n.targets[0].id == 'STANDARD_OPTIONS' and isinstance(n.value, ast.Call):
            std = n.value
    if not (feat and opts and std):
        raise Untranslatable('untranslatable: converter.py: Feature / ConversionOptions / STANDARD_OPTIONS not found')

    # --- Feature members
    members = []
    for n in feat.body:
        if isinstance(n, ast.Assign):
            if not (len(n.targets) == 1 and isinstance(n.targets[0], ast.Name)
                    and isinstance(n.value, ast.Constant) and n.value.value == n.targets[0].id):
                _fail(n, 'Feature member shape')
            members.append(n.targets[0].id)
    if 'ALL' not in members:
        _fail(feat, 'Feature.ALL missing')

    # --- __init__
    init = _find_method(opts, '__init__')
    params = [a.arg for a in init.args.args][1:]
    if sorted(params) != sorted(FIELD):
        _fail(init, '__init__ parameters %r' % params)
    if init.args.vararg or init.args.kwarg or init.args.kwonlyargs or len(init.args.defaults) != len(params):
        _fail(init, '__init__ signature')
    defaults = [_const_src(d, members) for d in init.args.defaults]
    assigned = {}
    for n in ast.walk(init):
        if isinstance(n, ast.Assign) and len(n.targets) == 1:
            f = _self_field(n.targets[0])
            if f:
                if not (isinstance(n.value, ast.Name)):
                    _fail(n, 'self.%s assigned a non-name' % f)
                assigned[f] = n.value.id
    for p in params:
        if assigned.get(p) != p:
            _fail(init, 'self.%s is not assigned from parameter %s' % (p, p))

    # --- as_tuple
    at = _body_nodoc(_find_method(opts, 'as_tuple'))
    if not (len(at) == 1 and isinstance(at[0], ast.Return) and isinstance(at[0].value, ast.Tuple)):
        _fail(at[0] if at else opts, 'as_tuple shape')
    as_tuple = []
    for e in at[0].value.elts:
        f = _self_field(e)
        if not f:
            _fail(e, 'as_tuple element')
        as_tuple.append(FIELD[f])

    def is_as_tuple_call(node, who):
        return (isinstance(node, ast.Call) and not node.args and not node.keywords
                and isinstance(node.func, ast.Attribute) and node.func.attr == 'as_tuple'
                and isinstance(node.func.value, ast.Name) and node.func.value.id == who)

    # --- __hash__
    hb = _body_nodoc(_find_method(opts, '__hash__'))
    hash_ok = (len(hb) == 1 and isinstance(hb[0], ast.Return) and isinstance(hb[0].value, ast.Call)
               and isinstance(hb[0].value.func, ast.Name) and hb[0].value.func.id == 'hash'
               and len(hb[0].value.args) == 1 and is_as_tuple_call(hb[0].value.args[0], 'self'))
    if not hash_ok:
        _fail(hb[0] if hb else opts, '__hash__ shape')

    # --- __eq__
    eqm = _find_method(opts, '__eq__')
    other = eqm.args.args[1].arg
    eb = [s for s in _body_nodoc(eqm) if not isinstance(s, ast.Assert)]
    eq_ok = (len(eb) == 1 and isinstance(eb[0], ast.Return) and isinstance(eb[0].value, ast.Compare)
             and len(eb[0].value.ops) == 1 and isinstance(eb[0].value.ops[0], ast.Eq)
             and is_as_tuple_call(eb[0].value.left, 'self')
             and is_as_tuple_call(eb[0].value.comparators[0], other))
    if not eq_ok:
        _fail(eb[0] if eb else opts, '__eq__ shape')

    # --- uses
    um = _find_method(opts, 'uses')
    uarg = um.args.args[1].arg
    ub = _body_nodoc(um)
    if not (len(ub) == 1 and isinstance(ub[0], ast.Return)):
        _fail(um, 'uses shape')

    def uexpr(node):
        if isinstance(node, ast.BoolOp) and isinstance(node.op, ast.Or):
            parts = [uexpr(v) for v in node.values]
            out = parts[-1]
            for p in reversed(parts[:-1]):
                out = '(UOr %s %s)' % (p, out)
            return out
        if isinstance(node, ast.BoolOp) and isinstance(node.op, ast.And):
            parts = [uexpr(v) for v in node.values]
            out = parts[-1]
            for p in reversed(parts[:-1]):
                out = '(UAnd %s %s)' % (p, out)
            return out
        if isinstance(node, ast.Compare) and len(node.ops) == 1 and isinstance(node.ops[0], ast.In) \
                and _self_field(node.comparators[0]) == 'optional_features':
            l = node.left
            if isinstance(l, ast.Name) and l.id == uarg:
                return 'UInArg'
            if isinstance(l, ast.Attribute) and isinstance(l.value, ast.Name) and l.value.id == 'Feature' \
                    and l.attr in members:
                return '(UInConst %s)' % l.attr
        _fail(node, 'uses expression shape')
    uses = uexpr(ub[0].value)

    # --- call_options
    def ctor_kws(call, what):
        if not (isinstance(call, ast.Call) and isinstance(call.func, ast.Name)
                and call.func.id == 'ConversionOptions' and not call.args):
            _fail(call, what + ' is not a keyword-only ConversionOptions(...) call')
        out = []
        for kw in call.keywords:
            if kw.arg not in FIELD:
                _fail(kw, what + ' keyword')
            out.append('(%s, %s)' % (FIELD[kw.arg], _const_src(kw.value, members)))
        return out
    cb = _body_nodoc(_find_method(opts, 'call_options'))
    if not (len(cb) == 1 and isinstance(cb[0], ast.Return)):
        _fail(opts, 'call_options shape')
    call_options = ctor_kws(cb[0].value, 'call_options')
    standard = ctor_kws(std, 'STANDARD_OPTIONS')

    # --- to_ast
    ta = _find_method(opts, 'to_ast')
    tb = _body_nodoc(ta)
    first = tb[0]
    std_ok = (isinstance(first, ast.If) and isinstance(first.test, ast.Compare)
              and isinstance(first.test.left, ast.Name) and first.test.left.id == 'self'
              and len(first.test.ops) == 1 and isinstance(first.test.ops[0], ast.Eq)
              and isinstance(first.test.comparators[0], ast.Name)
              and first.test.comparators[0].id == 'STANDARD_OPTIONS'
              and len(first.body) == 1 and isinstance(first.body[0], ast.Return)
              and isinstance(first.body[0].value, ast.Call)
              and first.body[0].value.args and isinstance(first.body[0].value.args[0], ast.Constant)
              and first.body[0].value.args[0].value == 'ag__.STD' and not first.orelse)
    if not std_ok:
        _fail(first, 'to_ast STANDARD_OPTIONS shortcut shape')
    template = None
    replace_call = None
    lof_name = None
    for n in tb[1:]:
        if isinstance(n, ast.Assign) and isinstance(n.value, ast.Constant) and isinstance(n.value.value, str):
            template = n.value.value
        elif isinstance(n, ast.FunctionDef):
            lof_name = n.name
            # body: return parser.parse_expression('({})'.format(', '.join('ag__.{}'.format(str(v)) for v in values)))
            src = ast.unparse(n)
            if "'({})'.format(', '.join(" not in src or "'ag__.{}'.format(str(v))" not in src:
                _fail(n, 'list_of_features shape')
        elif isinstance(n, ast.Assign) and isinstance(n.value, ast.Call) \
                and ast.unparse(n.value.func) == 'templates.replace':
            replace_call = n.value
        elif isinstance(n, ast.Return):
            if ast.unparse(n.value) != 'expr_ast[0].value':
                _fail(n, 'to_ast return shape')
        else:
            _fail(n, 'to_ast statement')
    if template is None or replace_call is None or lof_name is None:
        _fail(ta, 'to_ast parts missing')
    tcall = ast.parse(textwrap.dedent(template).strip(), mode='eval').body
    if not (isinstance(tcall, ast.Call) and ast.unparse(tcall.func) == 'ag__.ConversionOptions' and not tcall.args):
        _fail(ta, 'to_ast template shape')
    placeholder_of_kw = []
    for kw in tcall.keywords:
        if kw.arg not in FIELD or not isinstance(kw.value, ast.Name):
            _fail(ta, 'to_ast template keyword')
        placeholder_of_kw.append((kw.arg, kw.value.id))
    repl = {}
    for kw in replace_call.keywords:
        v = kw.value
        if isinstance(v, ast.Call) and ast.unparse(v.func) == 'parser.parse_expression' and len(v.args) == 1 \
                and isinstance(v.args[0], ast.Call) and isinstance(v.args[0].func, ast.Name) \
                and v.args[0].func.id == 'str' and _self_field(v.args[0].args[0]) in (
                    'recursive', 'user_requested', 'internal_convert_user_code'):
            repl[kw.arg] = ('bool', _self_field(v.args[0].args[0]))
        elif isinstance(v, ast.Call) and isinstance(v.func, ast.Name) and v.func.id == lof_name \
                and len(v.args) == 1 and _self_field(v.args[0]) == 'optional_features':
            repl[kw.arg] = ('feats', 'optional_features')
        else:
            _fail(kw, 'to_ast replacement shape')
    to_ast = []
    for kwname, ph in placeholder_of_kw:
        if ph not in repl:
            _fail(ta, 'to_ast placeholder %s has no replacement' % ph)
        kind, fld = repl[ph]
        to_ast.append('(%s, %s, %s)' % (FIELD[kwname], 'TBool' if kind == 'bool' else 'TFeats', FIELD[fld]))

    dflt = dict(zip(params, defaults))
    out = []
    out.append('(* GENERATED on every run by tools/translate/c20_options.py from malt/core/converter.py -- do not edit *)')
    out.append('From Coq Require Import List String Bool.')
    out.append('Import ListNotations.')
    out.append('Local Open Scope string_scope.')
    out.append('Inductive feature : Set := %s.' % ' | '.join(members))
    out.append('Scheme Equality for feature.')
    out.append('Definition all_features : list feature := [%s].' % '; '.join(members))
    out.append('Definition feature_name (f : feature) : string := match f with %s end.' % ' '.join(
        '| %s => "%s"' % (m, m) for m in members))
    out.append('Require Import MV.Opts.OptionsSyntax.')
    out.append('Definition src := src_ feature.')
    out.append('Definition default_of (f : field) : src_ feature := match f with')
    for p in params:
        out.append('  | %s => %s' % (FIELD[p], dflt[p]))
    out.append('  end.')
    out.append('Definition as_tuple_gen : list field := [%s].' % '; '.join(as_tuple))
    out.append('Definition uses_gen : uexpr_ feature := %s.' % uses)
    out.append('Definition call_options_gen : list (field * src_ feature) := [%s].' % '; '.join(call_options))
    out.append('Definition standard_gen : list (field * src_ feature) := [%s].' % '; '.join(standard))
    out.append('Definition to_ast_gen : list (field * tkind * field) := [%s].' % '; '.join(to_ast))
    out.append('Definition cache_key_gen : list field := [%s].' % '; '.join(cache_key_fields(repo, as_tuple)))
    out.append('Definition converted_call_reentries_keep_options : nat := %d.' % reentries_keep_options(repo))
    out.append('Definition allowlist_key_gen : list field := [%s].' % '; '.join(allowlist_key_fields(repo, as_tuple)))
    out.extend(scope_tables(repo))
    return '\n'.join(out) + '\n'


def cache_key_fields(repo, as_tuple):
    """malt/impl/api.py PyToPy.get_caching_key: the sub-key under which converted code is cached per code object.
    Recognised: `return ctx.options` (the whole value: compared through __eq__, i.e. the fields of as_tuple), or a
    tuple of attributes of ctx.options (directly or through one local alias)."""
    path = os.path.join(repo, 'malt', 'impl', 'api.py')
    with open(path) as f:
        tree = ast.parse(f.read())
    fn = None
    for n in tree.body:
        if isinstance(n, ast.ClassDef) and n.name == 'PyToPy':
            for m in n.body:
                if isinstance(m, ast.FunctionDef) and m.name == 'get_caching_key':
                    fn = m
    if fn is None:
        raise Untranslatable('untranslatable: api.py: PyToPy.get_caching_key not found')
    if [a.arg for a in fn.args.args] != ['self', 'ctx']:
        _fail(fn, 'get_caching_key parameters')
    body = [st for st in fn.body if not (isinstance(st, ast.Expr) and isinstance(st.value, ast.Constant))]
    alias = None

    def is_options(e):
        if isinstance(e, ast.Attribute) and e.attr == 'options' and isinstance(e.value, ast.Name) and e.value.id == 'ctx':
            return True
        return alias is not None and isinstance(e, ast.Name) and e.id == alias
    if len(body) == 2 and isinstance(body[0], ast.Assign) and len(body[0].targets) == 1 and isinstance(body[0].targets[0], ast.Name) \
            and is_options(body[0].value):
        alias = body[0].targets[0].id
        body = body[1:]
    if len(body) != 1 or not isinstance(body[0], ast.Return) or body[0].value is None:
        _fail(fn, 'get_caching_key body shape')
    v = body[0].value
    if is_options(v):
        return list(as_tuple)
    if isinstance(v, ast.Tuple):
        out = []
        for e in v.elts:
            if isinstance(e, ast.Attribute) and is_options(e.value) and e.attr in FIELD:
                out.append(FIELD[e.attr])
            else:
                _fail(e, 'get_caching_key tuple element ' + ast.dump(e))
        return out
    _fail(v, 'get_caching_key return value ' + ast.dump(v))


def allowlist_key_fields(repo, as_tuple):
    """malt/impl/conversion.py: the sub-key of the cache of "call as-is" verdicts that converted_call consults first.
    Recognised: is_in_allowlist_cache(entity, options) asks `_ALLOWLIST_CACHE.has(entity, K)` and cache_allowlisted
    stores `_ALLOWLIST_CACHE[entity][K] = True` with the same K, where K is `options` itself, a tuple of its
    attributes, or a call of a module-level helper whose body returns one of these."""
    path = os.path.join(repo, 'malt', 'impl', 'conversion.py')
    with open(path) as f:
        tree = ast.parse(f.read())
    fns = {n.name: n for n in tree.body if isinstance(n, ast.FunctionDef)}

    def fields_of(e, depth=0):
        if isinstance(e, ast.Name) and e.id == 'options':
            return list(as_tuple)
        if isinstance(e, ast.Tuple):
            out = []
            for x in e.elts:
                if isinstance(x, ast.Attribute) and isinstance(x.value, ast.Name) and x.value.id == 'options' and x.attr in FIELD:
                    out.append(FIELD[x.attr])
                else:
                    raise Untranslatable('untranslatable: conversion.py:%s: allowlist sub-key element %s' % (x.lineno, ast.unparse(x)))
            return out
        if isinstance(e, ast.Call) and isinstance(e.func, ast.Name) and e.func.id in fns and depth == 0 and not e.keywords \
                and len(e.args) == 1 and isinstance(e.args[0], ast.Name) and e.args[0].id == 'options':
            h = fns[e.func.id]
            body = [st for st in h.body if not (isinstance(st, ast.Expr) and isinstance(st.value, ast.Constant))]
            if [a.arg for a in h.args.args] == ['options'] and len(body) == 1 and isinstance(body[0], ast.Return):
                return fields_of(body[0].value, 1)
        raise Untranslatable('untranslatable: conversion.py:%s: allowlist sub-key %s' % (getattr(e, 'lineno', '?'), ast.unparse(e)))
    keys = []
    for name in ('is_in_allowlist_cache', 'cache_allowlisted'):
        if name not in fns or [a.arg for a in fns[name].args.args] != ['entity', 'options']:
            raise Untranslatable('untranslatable: conversion.py: %s(entity, options) not found' % name)
        found = None
        for n in ast.walk(fns[name]):
            if name == 'is_in_allowlist_cache' and isinstance(n, ast.Call) and ast.unparse(n.func) == '_ALLOWLIST_CACHE.has' \
                    and len(n.args) == 2 and ast.unparse(n.args[0]) == 'entity':
                found = n.args[1]
            if name == 'cache_allowlisted' and isinstance(n, ast.Subscript) and isinstance(n.ctx, ast.Store) \
                    and ast.unparse(n.value) == '_ALLOWLIST_CACHE[entity]':
                found = n.slice
        if found is None:
            raise Untranslatable('untranslatable: conversion.py: %s does not use _ALLOWLIST_CACHE as expected' % name)
        keys.append(fields_of(found))
    if keys[0] != keys[1]:
        raise Untranslatable('untranslatable: conversion.py: the allowlist cache is read and written under different sub-keys')
    return keys[0]


SATTR = {'options': 'SAOptions', 'callopts': 'SACallopts'}


def scope_tables(repo):
    """malt/operators/function_wrappers.py (+ the two places that bind and read it) -> scope_init_gen,
    function_entry_gen, lambda_entry_gen, callee_reads_gen (shapes: module docstring).  Only the shape that creates
    the scope from the entry's own options is recognised (EnFresh); the model's EnMemo exists for the theorems."""
    path = os.path.join(repo, 'malt', 'operators', 'function_wrappers.py')
    with open(path) as f:
        tree = ast.parse(f.read())

    def bad(node, msg):
        raise Untranslatable('untranslatable: function_wrappers.py:%s: %s' % (getattr(node, 'lineno', '?'), msg))
    cls = fun = None
    for n in tree.body:
        if isinstance(n, ast.ClassDef) and n.name == 'FunctionScope':
            if cls is not None:
                bad(n, 'FunctionScope defined twice')
            cls = n
        elif isinstance(n, ast.FunctionDef) and n.name == 'with_function_scope':
            if fun is not None:
                bad(n, 'with_function_scope defined twice')
            fun = n
        else:
            for t in ast.walk(n):
                if isinstance(t, ast.Name) and isinstance(t.ctx, (ast.Store, ast.Del)) and t.id in ('FunctionScope', 'with_function_scope'):
                    bad(t, '%s is rebound at module level' % t.id)
    if cls is None or fun is None:
        raise Untranslatable('untranslatable: function_wrappers.py: FunctionScope / with_function_scope not found')
    if cls.decorator_list or cls.keywords or [ast.unparse(b) for b in cls.bases] not in ([], ['object']):
        bad(cls, 'FunctionScope has a decorator, a metaclass or a base class')
    if fun.decorator_list:
        bad(fun, 'with_function_scope is decorated')
    init = enter = None
    for m in cls.body:
        if isinstance(m, ast.FunctionDef):
            if m.name in ('__new__', '__init_subclass__', '__getattr__', '__getattribute__', '__setattr__', '__class_getitem__') \
                    or m.name in SATTR:
                bad(m, 'FunctionScope defines %s' % m.name)
            if m.decorator_list:
                bad(m, 'decorated method %s' % m.name)
            if m.name == '__init__':
                init = m
            if m.name == '__enter__':
                enter = m
        elif isinstance(m, (ast.Assign, ast.AnnAssign, ast.AugAssign)):
            for t in ast.walk(m):
                if isinstance(t, ast.Name) and t.id in SATTR:
                    bad(m, 'class-level attribute %s' % t.id)
    if init is None or enter is None:
        bad(cls, 'FunctionScope.__init__ / __enter__ missing')
    if [a.arg for a in init.args.args] != ['self', 'function_name', 'scope_name', 'options'] or init.args.vararg \
            or init.args.kwarg or init.args.kwonlyargs or init.args.defaults:
        bad(init, 'FunctionScope.__init__ signature')

    def scope_attr(t):
        if isinstance(t, ast.Attribute) and isinstance(t.value, ast.Name) and t.value.id == 'self' and t.attr in SATTR:
            return t.attr
        return None
    for m in cls.body:
        for t in ast.walk(m):
            if isinstance(t, ast.Call) and isinstance(t.func, ast.Name) and t.func.id in ('setattr', 'delattr', 'vars'):
                bad(t, 'FunctionScope uses %s' % t.func.id)
            if isinstance(t, ast.Attribute) and t.attr == '__dict__':
                bad(t, 'FunctionScope touches __dict__')
            if isinstance(t, ast.Attribute) and isinstance(t.ctx, (ast.Store, ast.Del)) and t.attr in SATTR and m is not init:
                bad(t, '%s stores .%s outside __init__' % (getattr(m, 'name', 'class body'), t.attr))
    init_table = []
    for st in init.body:
        stores = [t for t in ast.walk(st) if isinstance(t, ast.Attribute) and isinstance(t.ctx, (ast.Store, ast.Del)) and t.attr in SATTR]
        rebinds = [t for t in ast.walk(st) if isinstance(t, ast.Name) and isinstance(t.ctx, (ast.Store, ast.Del)) and t.id in ('options', 'self')]
        if rebinds:
            bad(st, '__init__ rebinds %s' % rebinds[0].id)
        if not stores:
            continue
        if not (isinstance(st, ast.Assign) and len(st.targets) == 1 and scope_attr(st.targets[0]) and len(stores) == 1):
            bad(st, 'store to an option-carrying attribute that is not a plain top-level `self.<attr> = ...`')
        v = st.value
        if isinstance(v, ast.Name) and v.id == 'options':
            src = 'ScArg'
        elif isinstance(v, ast.Call) and not v.args and not v.keywords and ast.unparse(v.func) == 'options.call_options':
            src = 'ScCallOptions'
        else:
            bad(st, 'self.%s is assigned %s (recognised: options, options.call_options())' % (st.targets[0].attr, ast.unparse(v)))
        init_table.append('(%s, %s)' % (SATTR[st.targets[0].attr], src))
    rets = [t for t in ast.walk(enter) if isinstance(t, ast.Return)]
    if not rets or any(not (isinstance(r.value, ast.Name) and r.value.id == 'self') for r in rets) \
            or [a.arg for a in enter.args.args] != ['self']:
        bad(enter, '__enter__ does not return self')
    # with_function_scope
    if [a.arg for a in fun.args.args] != ['thunk', 'scope_name', 'options'] or fun.args.vararg or fun.args.kwarg \
            or fun.args.kwonlyargs or fun.args.defaults:
        bad(fun, 'with_function_scope signature')
    body = _body_nodoc(fun)
    ok = len(body) == 1 and isinstance(body[0], ast.With) and len(body[0].items) == 1
    if ok:
        item = body[0].items[0]
        c = item.context_expr
        ok = (isinstance(c, ast.Call) and isinstance(c.func, ast.Name) and c.func.id == 'FunctionScope' and not c.keywords
              and len(c.args) == 3 and isinstance(c.args[0], ast.Constant) and isinstance(c.args[0].value, str)
              and isinstance(c.args[1], ast.Name) and c.args[1].id == 'scope_name'
              and isinstance(c.args[2], ast.Name) and c.args[2].id == 'options'
              and isinstance(item.optional_vars, ast.Name))
    if ok:
        wb = body[0].body
        sv = body[0].items[0].optional_vars.id
        ok = (len(wb) == 1 and isinstance(wb[0], ast.Return) and isinstance(wb[0].value, ast.Call)
              and isinstance(wb[0].value.func, ast.Name) and wb[0].value.func.id == 'thunk' and not wb[0].value.keywords
              and len(wb[0].value.args) == 1 and isinstance(wb[0].value.args[0], ast.Name) and wb[0].value.args[0].id == sv)
    if not ok:
        bad(fun, 'with_function_scope is not `with FunctionScope(<str>, scope_name, options) as S: return thunk(S)`: '
                 'the scope handed to a lambda body is not (recognisably) created from the options of this entry')
    # what generated code reaches under ag__
    with open(os.path.join(repo, 'malt', 'operators', '__init__.py')) as f:
        otree = ast.parse(f.read())
    bound = {}
    for n in ast.walk(otree):
        if isinstance(n, ast.ImportFrom):
            for a in n.names:
                if (a.asname or a.name) in ('FunctionScope', 'with_function_scope'):
                    bound.setdefault(a.asname or a.name, []).append((n.module, a.name))
        elif isinstance(n, ast.Name) and isinstance(n.ctx, ast.Store) and n.id in ('FunctionScope', 'with_function_scope'):
            bound.setdefault(n.id, []).append(('<assignment>', n.id))
    for name in ('FunctionScope', 'with_function_scope'):
        if bound.get(name) != [('malt.operators.function_wrappers', name)]:
            raise Untranslatable('untranslatable: operators/__init__.py: ag__.%s is not function_wrappers.%s (%r)' % (name, name, bound.get(name)))
    # what converted_call reads from the caller's scope
    with open(os.path.join(repo, 'malt', 'impl', 'api.py')) as f:
        atree = ast.parse(f.read())
    cc = [n for n in atree.body if isinstance(n, ast.FunctionDef) and n.name == 'converted_call']
    if len(cc) != 1:
        raise Untranslatable('untranslatable: api.py: converted_call not found')
    cc = cc[0]
    assigns = [t for t in ast.walk(cc) if isinstance(t, ast.Name) and isinstance(t.ctx, (ast.Store, ast.Del)) and t.id == 'options']
    reads = None
    for st in cc.body:
        if isinstance(st, ast.If) and ast.unparse(st.test) == 'options is None' and not st.orelse:
            for x in st.body:
                if isinstance(x, ast.Assign) and len(x.targets) == 1 and isinstance(x.targets[0], ast.Name) and x.targets[0].id == 'options':
                    v = x.value
                    if isinstance(v, ast.Attribute) and isinstance(v.value, ast.Name) and v.value.id == 'caller_fn_scope' and v.attr in SATTR:
                        reads = SATTR[v.attr]
                    else:
                        raise Untranslatable('untranslatable: api.py:%s: converted_call takes its options from %s' % (x.lineno, ast.unparse(v)))
    if reads is None or len(assigns) != 1:
        raise Untranslatable('untranslatable: api.py: converted_call: `if options is None: options = caller_fn_scope.<attr>` '
                             'is not the one assignment to options (%d assignments)' % len(assigns))
    return ['(* malt/operators/function_wrappers.py, malt/operators/__init__.py, malt/impl/api.py converted_call *)',
            'Definition scope_init_gen : list (sattr * ssrc) := [%s].' % '; '.join(init_table),
            'Definition function_entry_gen : sentry := EnFresh.',
            'Definition lambda_entry_gen : sentry := EnFresh.',
            'Definition callee_reads_gen : sattr := %s.' % reads]


def reentries_keep_options(repo):
    """malt/impl/api.py: every call of converted_call made from inside api.py that passes options passes the very
    value it was given (`options=options`): unwrapping a functools.partial or entering through the convert wrapper does
    not change the options the conversion runs under.  -> number of such call sites"""
    path = os.path.join(repo, 'malt', 'impl', 'api.py')
    with open(path) as f:
        tree = ast.parse(f.read())
    n = 0
    for fn in ast.walk(tree):
        if not isinstance(fn, ast.FunctionDef):
            continue
        for c in ast.walk(fn):
            if isinstance(c, ast.Call) and isinstance(c.func, ast.Name) and c.func.id == 'converted_call':
                kw = {k.arg: k.value for k in c.keywords}
                if 'options' not in kw:
                    _fail(c, 'converted_call re-entry without options')
                v = kw['options']
                if not (isinstance(v, ast.Name) and v.id == 'options'):
                    raise Untranslatable('untranslatable: api.py:%s: converted_call is re-entered with options=%s, not with the options it was given'
                                         % (c.lineno, ast.unparse(v)))
                n += 1
    if n < 2:
        raise Untranslatable('untranslatable: api.py: expected the partial and the wrapper re-entries of converted_call, found %d' % n)
    return n


if __name__ == '__main__':
    import sys
    print(translate(sys.argv[1] if len(sys.argv) > 1 else '/repo'))
