"""C18: exporter Python `ast` -> terms of the Coq model coq/Anf/Anf.v (fail closed), the
mirror of the model's order guard used as classifier of the known order findings, and the
(reflective) translation of an ANF configuration into the model's `config`.

Recognised program fragment (anything else raises Untranslatable; such programs are still
judged by the property-level oracle, they are only not part of the model/implementation tie):
  expressions  Name, Constant, Call (positional, *starred, keyword, **kw), BinOp, UnaryOp,
               Compare (one operator; more -> EBad KMultiCompare), Attribute, Subscript
               (index not a slice), Tuple/List/Set (Load), Dict (no ** entries), NamedExpr, BoolOp, IfExp,
               Lambda without parameters defaults, comprehensions (-> EBad KComp)
  statements   Expr, Assign (targets Name / Attribute / Subscript), AugAssign, Return, Raise,
               Pass, Break, Continue, If, While, For, With (one item, `as` a plain name or absent),
               Try (except clauses with any type expression of the fragment / none, `as` name or absent;
               else; finally)
"""
import ast
import re


class Untranslatable(Exception):
    pass


TMP_RE = re.compile(r'^tmp_(\d+)$')

# model tag -> Python classes it stands for (isinstance expansion of pattern classes)
TAG_CLASSES = [
    ('KCall', (ast.Call,)), ('KBinOp', (ast.BinOp,)), ('KUnaryOp', (ast.UnaryOp,)), ('KCompare', (ast.Compare,)),
    ('KAttribute', (ast.Attribute,)), ('KSubscript', (ast.Subscript,)), ('KTuple', (ast.Tuple,)),
    ('KList', (ast.List,)), ('KSet', (ast.Set,)), ('KDict', (ast.Dict,)), ('KNamedExpr', (ast.NamedExpr,)),
    ('KBoolOp', (ast.BoolOp,)),
    ('KIfExp', (ast.IfExp,)), ('KLambda', (ast.Lambda,)),
    ('KComp', (ast.ListComp, ast.SetComp, ast.DictComp, ast.GeneratorExp)), ('KMultiCompare', (ast.Compare,)),
    ('KName', (ast.Name,)), ('KConstant', (ast.Constant,)),
    ('KReturn', (ast.Return,)), ('KRaise', (ast.Raise,)), ('KIf', (ast.If,)), ('KFor', (ast.For,)),
    ('KWhile', (ast.While,)), ('KWith', (ast.With,)), ('KExpr', (ast.Expr,)), ('KAssign', (ast.Assign,)),
    ('KAugAssign', (ast.AugAssign,)),
]


def coq_str(s):
    if any(ord(ch) > 126 or ord(ch) < 32 for ch in s):
        raise Untranslatable('non-printable text in string %r' % s)
    return '"' + s.replace('"', '""') + '"'


def coq_list(items):
    return '[' + '; '.join(items) + ']'


def tags_of_classes(cls):
    """isinstance(x, cls) for cls a class or tuple of classes -> list of model tags."""
    if not isinstance(cls, tuple):
        cls = (cls,)
    out = []
    for tag, pys in TAG_CLASSES:
        if all(any(issubclass(p, c) for c in cls) for p in pys):
            out.append(tag)
        elif any(any(issubclass(p, c) for c in cls) for p in pys):
            raise Untranslatable('pattern class %r splits model tag %s' % (cls, tag))
    return out


def export_config(config, anf):
    """A list of (ASTEdgePattern | ANY, REPLACE | LEAVE) -> Coq term of type config.
    None (default configuration) -> 'default_config'."""
    if config is None:
        return 'default_config'
    rules = []
    for pat, act in config:
        if act is anf.REPLACE:
            a = 'true'
        elif act is anf.LEAVE:
            a = 'false'
        else:
            raise Untranslatable('callable directive')
        if pat is anf.ANY:
            rules.append('(None, %s)' % a)
            continue
        pp = 'None' if pat.parent is anf.ANY else 'Some %s' % coq_list(tags_of_classes(pat.parent))
        pf = 'None' if pat.field is anf.ANY else 'Some %s' % coq_str(pat.field)
        pc = 'None' if pat.child is anf.ANY else 'Some %s' % coq_list(tags_of_classes(pat.child))
        rules.append('(Some (%s, %s, %s), %s)' % (pp, pf, pc, a))
    return coq_list(rules)


class Exporter(object):
    """tmps=True: names of gensym shape become ETmp (used for the implementation's output;
    the input programs of the tie never contain such names)."""

    def __init__(self, tmps=False):
        self.tmps = tmps

    def child(self, field, node):
        if isinstance(node, ast.Starred):
            return '(%s, WStar, %s)' % (coq_str(field), self.expr(node.value))
        if isinstance(node, ast.keyword):
            w = 'WDStar' if node.arg is None else 'WKw %s' % coq_str(node.arg)
            return '(%s, %s, %s)' % (coq_str(field), w, self.expr(node.value))
        return '(%s, WPlain, %s)' % (coq_str(field), self.expr(node))

    def op(self, tag, lab, children):
        return '(EOp %s %s %s)' % (tag, coq_str(lab), coq_list(children))

    def expr(self, n):
        c = self.child
        if isinstance(n, ast.Name):
            m = TMP_RE.match(n.id)
            if m:
                if not self.tmps:
                    raise Untranslatable('user name of gensym shape: ' + n.id)
                k = int(m.group(1)) - 1000
                if k < 1 or k > 3000:
                    raise Untranslatable('temporary out of range: ' + n.id)
                return '(ETmp %d)' % k
            return '(EName %s)' % coq_str(n.id)
        if isinstance(n, ast.Constant):
            if n.value is Ellipsis:
                return '(EConst "Ellipsis")'
            if n.kind is not None:
                raise Untranslatable('constant kind')
            return '(EConst %s)' % coq_str(repr(n.value))
        if isinstance(n, ast.Call):
            return self.op('KCall', '', [c('func', n.func)] + [c('args', a) for a in n.args] +
                           [c('keywords', k) for k in n.keywords])
        if isinstance(n, ast.BinOp):
            return self.op('KBinOp', type(n.op).__name__, [c('left', n.left), c('right', n.right)])
        if isinstance(n, ast.UnaryOp):
            return self.op('KUnaryOp', type(n.op).__name__, [c('operand', n.operand)])
        if isinstance(n, ast.Compare):
            if len(n.ops) > 1:
                return '(EBad KMultiCompare)'
            return self.op('KCompare', type(n.ops[0]).__name__, [c('left', n.left), c('comparators', n.comparators[0])])
        if isinstance(n, ast.Attribute):
            return self.op('KAttribute', n.attr, [c('value', n.value)])
        if isinstance(n, ast.Subscript):
            for x in ast.walk(n.slice):
                if isinstance(x, ast.Slice):
                    raise Untranslatable('slice')
            return self.op('KSubscript', '', [c('value', n.value), c('slice', n.slice)])
        if isinstance(n, (ast.Tuple, ast.List)):
            if not isinstance(n.ctx, ast.Load):
                raise Untranslatable('tuple/list target')
            return self.op('KTuple' if isinstance(n, ast.Tuple) else 'KList', '', [c('elts', e) for e in n.elts])
        if isinstance(n, ast.Set):
            return self.op('KSet', '', [c('elts', e) for e in n.elts])
        if isinstance(n, ast.Dict):
            if any(k is None for k in n.keys):
                raise Untranslatable('** in dict display')
            return self.op('KDict', '', [c('keys', k) for k in n.keys] + [c('values', v) for v in n.values])
        if isinstance(n, ast.NamedExpr):
            if TMP_RE.match(n.target.id):
                raise Untranslatable('walrus on a gensym-shaped name')
            return self.op('KNamedExpr', n.target.id, [c('value', n.value)])
        if isinstance(n, ast.BoolOp):
            return self.op('KBoolOp', type(n.op).__name__, [c('values', v) for v in n.values])
        if isinstance(n, ast.IfExp):
            return self.op('KIfExp', '', [c('test', n.test), c('body', n.body), c('orelse', n.orelse)])
        if isinstance(n, ast.Lambda):
            a = n.args
            if a.defaults or a.kw_defaults and any(d is not None for d in a.kw_defaults):
                raise Untranslatable('lambda with defaults')
            return self.op('KLambda', ast.unparse(a), [c('body', n.body)])
        if isinstance(n, (ast.ListComp, ast.SetComp, ast.DictComp, ast.GeneratorExp)):
            return '(EBad KComp)'
        raise Untranslatable('expression ' + type(n).__name__)

    def target(self, n):
        if isinstance(n, (ast.Name, ast.Attribute, ast.Subscript)):
            return self.expr(n)
        raise Untranslatable('target ' + type(n).__name__)

    def opt(self, n):
        return 'None' if n is None else '(Some %s)' % self.expr(n)

    def block(self, b):
        return coq_list([self.stmt(s) for s in b])

    def stmt(self, s):
        if isinstance(s, ast.Expr):
            return '(SExpr %s)' % self.expr(s.value)
        if isinstance(s, ast.Assign):
            return '(SAssign %s %s)' % (coq_list([self.target(t) for t in s.targets]), self.expr(s.value))
        if isinstance(s, ast.AugAssign):
            return '(SAug %s %s %s)' % (self.target(s.target), coq_str(type(s.op).__name__), self.expr(s.value))
        if isinstance(s, ast.Return):
            return '(SReturn %s)' % self.opt(s.value)
        if isinstance(s, ast.Raise):
            if s.exc is None and s.cause is not None:
                raise Untranslatable('raise from without exc')
            return '(SRaise %s %s)' % (self.opt(s.exc), self.opt(s.cause))
        if isinstance(s, ast.Pass):
            return 'SPass'
        if isinstance(s, ast.Break):
            return 'SBreak'
        if isinstance(s, ast.Continue):
            return 'SContinue'
        if isinstance(s, ast.If):
            return '(SIf %s %s %s)' % (self.expr(s.test), self.block(s.body), self.block(s.orelse))
        if isinstance(s, ast.While):
            return '(SWhile %s %s %s)' % (self.expr(s.test), self.block(s.body), self.block(s.orelse))
        if isinstance(s, ast.For):
            return '(SFor %s %s %s %s)' % (self.target(s.target), self.expr(s.iter), self.block(s.body), self.block(s.orelse))
        if isinstance(s, ast.With):
            if len(s.items) != 1:
                raise Untranslatable('with: several items')
            it = s.items[0]
            if it.optional_vars is None:
                v = 'None'
            elif isinstance(it.optional_vars, ast.Name) and not TMP_RE.match(it.optional_vars.id):
                v = '(Some %s)' % coq_str(it.optional_vars.id)
            else:
                raise Untranslatable('with: target not a plain name')
            return '(SWith %s %s %s)' % (self.expr(it.context_expr), v, self.block(s.body))
        if isinstance(s, ast.Try):
            hs = []
            for h in s.handlers:
                if type(h) is not ast.ExceptHandler:
                    raise Untranslatable('except clause ' + type(h).__name__)
                if h.name is not None and TMP_RE.match(h.name):
                    raise Untranslatable('except: `as` name of gensym shape')
                hs.append('(%s, %s, %s)' % (self.opt(h.type), 'None' if h.name is None else '(Some %s)' % coq_str(h.name),
                                            self.block(h.body)))
            return '(STry %s %s %s %s)' % (self.block(s.body), coq_list(hs), self.block(s.orelse), self.block(s.finalbody))
        raise Untranslatable('statement ' + type(s).__name__)


def export_block(stmts, tmps=False):
    return Exporter(tmps).block(stmts)
