"""Fail-closed syntactic translator: malt/pyct/common_transformers/anf.py -> coq/Generated/C18_gen.v

Recognised shapes of AnfTransformer.visit_<Node> (anything else raises Untranslatable):
  return self._visit_strict_statement(node[, children_ok_to_transform=<bool>])   -> VStrictStmt b
  msg = <str>; return self._visit_trivial_only_statement(node, msg)               -> VTrivStmt
  return self._visit_strict_expression(node)                                       -> VStrictExpr
  msg = <str>; return self._visit_trivial_only_expression(node, msg)              -> VTrivExpr
  msg = <str>; raise ValueError(msg)                                               -> VReject
  if len(node.ops) > 1: msg = <str>; raise ValueError(msg)
  return self._visit_strict_expression(node)                                       -> VCompare
  node = self.generic_visit(node)
  if not isinstance(node.ctx, ast.Store): self._ensure_fields_in_anf(node)
  return node                                                                      -> VDisplay
  visit_If / visit_For / visit_With / visit_While                                  -> VCustom
      (their bodies are the hand model; tied by the correspondence, not by this table)
  _is_trivial(node):  trivial_node_types = (<classes / bool / str>, ...)
                      if isinstance(node, trivial_node_types) and not _is_py2_name_constant(node): return True
                      if isinstance(node, ast.Constant) and node.value == Ellipsis: return True
                      return False                                                  -> trivial_types_gen
  transform(node, ctx, config=None):   return AnfTransformer(ctx, config).visit(node)       (nothing else)
  no state carried between calls: no use of `anno` anywhere in the module (annotations written on / read from
  the tree), no global/nonlocal/globals(), module-level assignments only of lambdas, constants and object()
  _do_transform_node(node):  temp_name = self._gensym.new_name()
                             temp_assign = templates.replace('<T> = <E>', <T>=temp_name, <E>=node)[0]
                             self._add_pending_statement(temp_assign)
                             answer = templates.replace('<T>', <T>=temp_name)[0]
                             return answer                                           -> hoist_template_gen
      (the template text and its two placeholder names: identifiers the transformer itself puts into play next to
      the user's; the generator of the check renames program variables to them)
Also translated: the default configuration built in __init__ when config is None, the classes
_ensure_node_in_anf treats as transparent wrappers, and DummyGensym.new_name (stem, base).
"""
import ast
import os


class Untranslatable(Exception):
    pass


def _fail(node, msg):
    raise Untranslatable('untranslatable: anf.py:%s: %s' % (getattr(node, 'lineno', '?'), msg))


def _strip(body):
    """drop docstrings / bare string statements"""
    return [s for s in body if not (isinstance(s, ast.Expr) and isinstance(s.value, ast.Constant) and isinstance(s.value.value, str))]


def _is_self_call(node, name):
    return isinstance(node, ast.Call) and isinstance(node.func, ast.Attribute) and \
        isinstance(node.func.value, ast.Name) and node.func.value.id == 'self' and node.func.attr == name


def _is_msg_assign(s):
    return isinstance(s, ast.Assign) and len(s.targets) == 1 and isinstance(s.targets[0], ast.Name) and \
        s.targets[0].id == 'msg' and isinstance(s.value, (ast.Constant, ast.JoinedStr, ast.BinOp))


def _is_raise_msg(s):
    return isinstance(s, ast.Raise) and isinstance(s.exc, ast.Call) and isinstance(s.exc.func, ast.Name) and \
        s.exc.func.id == 'ValueError' and len(s.exc.args) == 1 and isinstance(s.exc.args[0], ast.Name) and s.exc.args[0].id == 'msg'


def _classify(fn):
    body = _strip(fn.body)
    name = fn.name[len('visit_'):]
    if name in ('If', 'For', 'With', 'While'):
        return 'VCustom'
    if len(body) == 1 and isinstance(body[0], ast.Return):
        c = body[0].value
        if _is_self_call(c, '_visit_strict_statement'):
            if len(c.args) != 1:
                _fail(fn, 'strict statement arguments')
            ok = True
            for kw in c.keywords:
                if kw.arg != 'children_ok_to_transform' or not isinstance(kw.value, ast.Constant) or not isinstance(kw.value.value, bool):
                    _fail(fn, 'strict statement keyword')
                ok = kw.value.value
            return 'VStrictStmt %s' % ('true' if ok else 'false')
        if _is_self_call(c, '_visit_strict_expression') and len(c.args) == 1 and not c.keywords:
            return 'VStrictExpr'
        _fail(fn, 'unrecognised single return')
    if len(body) == 2 and _is_msg_assign(body[0]):
        if isinstance(body[1], ast.Return):
            c = body[1].value
            if _is_self_call(c, '_visit_trivial_only_statement') and len(c.args) == 2:
                return 'VTrivStmt'
            if _is_self_call(c, '_visit_trivial_only_expression') and len(c.args) == 2:
                return 'VTrivExpr'
        if _is_raise_msg(body[1]):
            return 'VReject'
        _fail(fn, 'unrecognised msg shape')
    if len(body) == 2 and isinstance(body[0], ast.If) and isinstance(body[1], ast.Return):
        t = body[0].test
        if ast.unparse(t) == 'len(node.ops) > 1' and len(body[0].body) == 2 and _is_msg_assign(body[0].body[0]) \
                and _is_raise_msg(body[0].body[1]) and not body[0].orelse \
                and _is_self_call(body[1].value, '_visit_strict_expression'):
            return 'VCompare'
        _fail(fn, 'unrecognised guarded shape')
    if len(body) == 3 and ast.unparse(body[0]) == 'node = self.generic_visit(node)' and isinstance(body[1], ast.If) \
            and ast.unparse(body[1].test) == 'not isinstance(node.ctx, ast.Store)' \
            and [ast.unparse(x) for x in body[1].body] == ['self._ensure_fields_in_anf(node)'] and not body[1].orelse \
            and ast.unparse(body[2]) == 'return node':
        return 'VDisplay'
    _fail(fn, 'unrecognised shape of ' + fn.name)


def _cls_names(node):
    """ast.X | (ast.X, ast.Y) | local name bound to such a tuple -> list of class names"""
    if isinstance(node, ast.Attribute) and isinstance(node.value, ast.Name) and node.value.id == 'ast':
        return [node.attr]
    if isinstance(node, ast.Tuple):
        out = []
        for e in node.elts:
            out += _cls_names(e)
        return out
    _fail(node, 'class expression ' + ast.unparse(node))


def _replace_call(node):
    """templates.replace(<str>, k=v, ...)[0] -> (template text, {k: unparse(v)}) or None"""
    if isinstance(node, ast.Subscript) and isinstance(node.slice, ast.Constant) and node.slice.value == 0:
        c = node.value
        if isinstance(c, ast.Call) and ast.unparse(c.func) == 'templates.replace' and len(c.args) == 1 \
                and isinstance(c.args[0], ast.Constant) and isinstance(c.args[0].value, str) \
                and all(k.arg is not None for k in c.keywords):
            return c.args[0].value, dict((k.arg, ast.unparse(k.value)) for k in c.keywords)
    return None


def hoist_template(cls):
    """shape of AnfTransformer._do_transform_node -> (template text, target placeholder, value placeholder)"""
    fn = [n for n in cls.body if isinstance(n, ast.FunctionDef) and n.name == '_do_transform_node']
    if len(fn) != 1:
        raise Untranslatable('untranslatable: anf.py: _do_transform_node not found')
    fn = fn[0]
    b = _strip(fn.body)
    if not (len(b) == 5 and [a.arg for a in fn.args.args] == ['self', 'node']
            and ast.unparse(b[0]) == 'temp_name = self._gensym.new_name()'
            and isinstance(b[1], ast.Assign) and ast.unparse(b[1].targets[0]) == 'temp_assign'
            and ast.unparse(b[2]) == 'self._add_pending_statement(temp_assign)'
            and isinstance(b[3], ast.Assign) and ast.unparse(b[3].targets[0]) == 'answer'
            and ast.unparse(b[4]) == 'return answer'):
        _fail(fn, 'shape of _do_transform_node')
    r1, r2 = _replace_call(b[1].value), _replace_call(b[3].value)
    if r1 is None or r2 is None:
        _fail(fn, 'shape of the templates.replace calls of _do_transform_node')
    (t1, k1), (t2, k2) = r1, r2
    tgt = [k for k, v in k1.items() if v == 'temp_name']
    val = [k for k, v in k1.items() if v == 'node']
    if not (len(k1) == 2 and len(tgt) == 1 and len(val) == 1 and k2 == {t2: 'temp_name'} and t2.isidentifier()
            and tgt[0].isidentifier() and val[0].isidentifier()):
        _fail(fn, 'placeholders of the templates of _do_transform_node')
    if '"' in t1 or any(ord(ch) < 32 or ord(ch) > 126 for ch in t1):
        _fail(fn, 'template text not printable')
    return t1, tgt[0], val[0]


def parse_anf(repo):
    path = os.path.join(repo, 'malt', 'pyct', 'common_transformers', 'anf.py')
    with open(path) as f:
        return ast.parse(f.read())


def translate(repo):
    tree = parse_anf(repo)
    # state that transform() could carry from one call to the next
    for n in ast.walk(tree):
        if isinstance(n, ast.Name) and n.id in ('anno', 'globals') or isinstance(n, (ast.Global, ast.Nonlocal)):
            _fail(n, 'state carried between calls of transform (annotation on the tree / global): ' + ast.unparse(n))
        if isinstance(n, ast.ImportFrom) and any(a.name == 'anno' for a in n.names):
            _fail(n, 'state carried between calls of transform: the module imports anno')
    for n in tree.body:
        if isinstance(n, ast.Assign):
            v = n.value
            if not (isinstance(v, (ast.Lambda, ast.Constant)) or ast.unparse(v) == 'object()'):
                _fail(n, 'module-level mutable state: ' + ast.unparse(n)[:80])
    tr = [n for n in tree.body if isinstance(n, ast.FunctionDef) and n.name == 'transform']
    if len(tr) != 1 or [ast.unparse(x) for x in _strip(tr[0].body)] != ['return AnfTransformer(ctx, config).visit(node)']:
        raise Untranslatable('untranslatable: anf.py: transform() is not `return AnfTransformer(ctx, config).visit(node)`')
    cls = [n for n in tree.body if isinstance(n, ast.ClassDef) and n.name == 'AnfTransformer']
    if len(cls) != 1:
        raise Untranslatable('untranslatable: anf.py: class AnfTransformer not found')
    cls = cls[0]
    table = []
    init = None
    ensure = None
    for n in cls.body:
        if isinstance(n, ast.FunctionDef) and n.name.startswith('visit_'):
            table.append((n.name[len('visit_'):], _classify(n)))
        if isinstance(n, ast.FunctionDef) and n.name == '__init__':
            init = n
        if isinstance(n, ast.FunctionDef) and n.name == '_ensure_node_in_anf':
            ensure = n
    if init is None or ensure is None:
        raise Untranslatable('untranslatable: anf.py: __init__/_ensure_node_in_anf not found')
    hoist = hoist_template(cls)
    # default configuration: if config is None: <name> = (classes); self._overrides = [(ASTEdgePattern(ANY, ANY, X), LEAVE|REPLACE), ...]
    rules = None
    for s in ast.walk(init):
        if isinstance(s, ast.If) and ast.unparse(s.test) == 'config is None':
            env = {}
            for t in _strip(s.body):
                if isinstance(t, ast.Assign) and isinstance(t.targets[0], ast.Name):
                    env[t.targets[0].id] = _cls_names(t.value)
                elif isinstance(t, ast.Assign) and ast.unparse(t.targets[0]) == 'self._overrides' and isinstance(t.value, ast.List):
                    rules = []
                    for el in t.value.elts:
                        if not (isinstance(el, ast.Tuple) and len(el.elts) == 2 and isinstance(el.elts[0], ast.Call)
                                and ast.unparse(el.elts[0].func) == 'ASTEdgePattern' and len(el.elts[0].args) == 3
                                and isinstance(el.elts[1], ast.Name) and el.elts[1].id in ('LEAVE', 'REPLACE')):
                            _fail(el, 'default rule shape')
                        parts = []
                        for a in el.elts[0].args:
                            if isinstance(a, ast.Name) and a.id == 'ANY':
                                parts.append(None)
                            elif isinstance(a, ast.Name) and a.id in env:
                                parts.append(env[a.id])
                            elif isinstance(a, ast.Constant) and isinstance(a.value, str):
                                parts.append(a.value)
                            else:
                                parts.append(_cls_names(a))
                        rules.append((parts, el.elts[1].id == 'REPLACE'))
                else:
                    _fail(t, 'statement in default configuration')
    if rules is None:
        raise Untranslatable('untranslatable: anf.py: default configuration not found')
    # transparent wrappers in _ensure_node_in_anf: isinstance(node, ast.keyword) / isinstance(node, (ast.Starred, ...))
    wrappers = []
    for s in ast.walk(ensure):
        if isinstance(s, ast.Call) and ast.unparse(s.func) == 'isinstance' and len(s.args) == 2 \
                and ast.unparse(s.args[0]) == 'node' and ast.unparse(s.args[1]) != 'list':
            wrappers += _cls_names(s.args[1])
    # gensym
    gs = [n for n in tree.body if isinstance(n, ast.ClassDef) and n.name == 'DummyGensym']
    if len(gs) != 1:
        raise Untranslatable('untranslatable: anf.py: DummyGensym not found')
    nn = [n for n in gs[0].body if isinstance(n, ast.FunctionDef) and n.name == 'new_name']
    ini = [n for n in gs[0].body if isinstance(n, ast.FunctionDef) and n.name == '__init__']
    if len(nn) != 1 or len(ini) != 1:
        raise Untranslatable('untranslatable: anf.py: DummyGensym.new_name/__init__ not found')
    nb = _strip(nn[0].body)
    if not (len(nb) == 2 and ast.unparse(nb[0]) == 'self._idx += 1'
            and isinstance(nb[1], ast.Return) and isinstance(nb[1].value, ast.BinOp)):
        _fail(nn[0], 'new_name shape')
    import re
    m = re.match(r"^stem \+ '(\w*)' \+ str\((\d+) \+ self\._idx\)$", ast.unparse(nb[1].value))
    if not m:
        _fail(nn[0], 'new_name expression ' + ast.unparse(nb[1].value))
    sep, base = m.group(1), int(m.group(2))
    d = nn[0].args.defaults
    if not (len(d) == 1 and isinstance(d[0], ast.Constant) and isinstance(d[0].value, str)):
        _fail(nn[0], 'stem default')
    stem = d[0].value
    if [ast.unparse(x) for x in _strip(ini[0].body)] != ['self._idx = 0']:
        _fail(ini[0], 'gensym start')
    if base > 5000:
        _fail(nn[0], 'gensym base too large for a nat literal')

    # _is_trivial
    tf = [n for n in tree.body if isinstance(n, ast.FunctionDef) and n.name == '_is_trivial']
    if len(tf) != 1:
        raise Untranslatable('untranslatable: anf.py: _is_trivial not found')
    tb = _strip(tf[0].body)
    if not (len(tb) == 4 and isinstance(tb[0], ast.Assign) and ast.unparse(tb[0].targets[0]) == 'trivial_node_types'
            and isinstance(tb[0].value, ast.Tuple)
            and isinstance(tb[1], ast.If) and ast.unparse(tb[1].test) ==
            'isinstance(node, trivial_node_types) and (not _is_py2_name_constant(node))'
            and [ast.unparse(x) for x in tb[1].body] == ['return True'] and not tb[1].orelse
            and isinstance(tb[2], ast.If) and ast.unparse(tb[2].test) == 'isinstance(node, ast.Constant) and node.value == Ellipsis'
            and [ast.unparse(x) for x in tb[2].body] == ['return True'] and not tb[2].orelse
            and ast.unparse(tb[3]) == 'return False'):
        _fail(tf[0], 'shape of _is_trivial')
    trivial = []
    for el in tb[0].value.elts:
        if isinstance(el, ast.Name) and el.id in ('bool', 'str'):
            trivial.append(el.id)
        else:
            trivial += _cls_names(el)

    def q(s):
        return '"' + s + '"'

    def opt_classes(p):
        if p is None:
            return 'None'
        if isinstance(p, str):
            return 'Some %s' % q(p)
        return 'Some [%s]' % '; '.join(q(c) for c in p)
    out = ['(* GENERATED by tools/translate/c18_table.py from malt/pyct/common_transformers/anf.py -- do not edit *)',
           'From Coq Require Import List String Bool.', 'Import ListNotations.', 'Require Import MV.Anf.Anf.',
           'Local Open Scope string_scope.', '',
           'Definition visit_table : list (string * vmode) := [',
           ';\n'.join('  (%s, %s)' % (q(n), m_) for n, m_ in table), '].', '',
           '(* (parent classes, field, child classes), REPLACE? *)',
           'Definition default_rules_gen : list (option (list string) * option string * option (list string) * bool) := [',
           ';\n'.join('  (%s, %s, %s, %s)' % (opt_classes(p[0]), opt_classes(p[1]), opt_classes(p[2]), 'true' if r else 'false')
                      for p, r in rules), '].', '',
           'Definition wrappers_gen : list string := [%s].' % '; '.join(q(w) for w in wrappers), '',
           'Definition trivial_types_gen : list string := [%s].' % '; '.join(q(t) for t in trivial), '',
           'Definition gensym_stem_gen : string := %s.' % q(stem + sep),
           'Definition gensym_base_gen : nat := %d.' % base, '',
           '(* template instantiated for every hoisted operand, placeholder of the temporary, placeholder of the operand *)',
           'Definition hoist_template_gen : string * string * string := (%s, %s, %s).' % tuple(q(x) for x in hoist), '']
    return '\n'.join(out)
