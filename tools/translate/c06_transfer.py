"""Translator (G) of the dataflow transfer functions to Gallina set-algebra expressions (coq/Flow/SetExpr.v).

Shared engine for C06 (reaching_definitions.Analyzer.visit_node) and C07 (liveness.Analyzer.visit_node, see
c07_transfer.py): a symbolic execution of the method body over a closed set of statement shapes; anything
else raises Untranslatable (fail closed).  Recognised shapes (v = local variable):
    v = self.in_[node] | self.out[node]                       remembered as the "previous" value
    v = set() | _NodeState()                                  XEmpty
    for n in node.next|node.prev:  v |= self.in_[n]|self.out[n]      v := v U XState (the join)
    if anno.hasanno(node.ast_node, anno.Static.SCOPE): ... else: ...  two variants: scoped / ignored node
    node_scope = anno.getanno(node.ast_node, anno.Static.SCOPE)
    v = E ; v |= E ; v -= E     with E ::= v | node_scope.F | fn_scope.F | set() | E '|' E | E - E | E & E | (E)
                                          | self.gen_map[node]
    if not self.include_annotations: v -= E                   XIfAnn
    reaching_functions = anno.getanno(node.ast_node, anno.Static.DEFINED_FNS_IN)
    for fn_ast_node in reaching_functions:
        [if self.lamba_check(fn_ast_node): continue]
        fn_scope = anno.getanno(fn_ast_node, annos.NodeAnno.ARGS_AND_BODY_SCOPE)
        v |= E                                                 XClosure
    if node not in self.gen_map: <builds node_symbols from set expressions and node_scope.params>
    assert self.can_ignore(node), ...
    self.in_[node] = v ; self.out[node] = v ; return prev != v [or prev2 != v2]
  edge-sensitive for header (fixes/C07-for-header-edge-sensitive.diff), both optional:
    if node_scope.iterate_targets:
      for n in node.next:
        if not node_scope.enters_loop_body(n.ast_node):  v |= self.in_[n] & node_scope.iterate_targets
                                                               (XInter XStateExit XLoopTargets)
    for n in node.prev:  v |= self._edge_out(n, node)         join through the helper, whose body must be
                                                               exactly the pinned one (EDGE_OUT_PINNED)
Note (quirk kept out of the model, stated here): `gen = node_scope.read` followed by `gen -= ...` would mutate the
scope's own set; it only happens with include_annotations=False, which no caller uses.
"""
import ast
import os

FIELDS = {'read': 'FRead', 'modified': 'FModified', 'bound': 'FBound', 'deleted': 'FDeleted', 'globals': 'FGlobals',
          'nonlocals': 'FNonlocals', 'annotations': 'FAnnotations', 'params': 'FParams', 'isolated_names': 'FIsolated'}


class Untranslatable(Exception):
    pass


def U(a, b):
    if a == 'XEmpty':
        return b
    if b == 'XEmpty':
        return a
    return '(XUnion %s %s)' % (a, b)


class Engine(object):
    def __init__(self, path, cls='Analyzer', meth='visit_node'):
        self.path = path
        with open(path) as f:
            self.tree = ast.parse(f.read())
        self.cls = None
        for n in self.tree.body:
            if isinstance(n, ast.ClassDef) and n.name == cls:
                self.cls = n
        if self.cls is None:
            self.fail(self.tree, 'class %s not found' % cls)
        self.fn = self.method(meth)
        self.join = None         # ('next'|'prev', 'in_'|'out')
        self.prev = None         # (var, map) of the first previous-state read
        self.prevs = {}          # var -> map
        self.compared_maps = set()
        self.edge = False        # the join goes through _edge_out
        self.result = {}         # variant -> {'in_': sx, 'out': sx}
        self.compared = None
        self.gen_names = None
        self.skip_lambda = None

    def method(self, name):
        for n in self.cls.body:
            if isinstance(n, ast.FunctionDef) and n.name == name:
                return n
        self.fail(self.cls, 'method %s not found' % name)

    def fail(self, node, why):
        raise Untranslatable('untranslatable: %s:%s: %s' % (self.path, getattr(node, 'lineno', '?'), why))

    # -- expression shapes ---------------------------------------------------------------------
    @staticmethod
    def is_attr(e, base, attr=None):
        return isinstance(e, ast.Attribute) and isinstance(e.value, ast.Name) and e.value.id == base and \
            (attr is None or e.attr == attr)

    def is_self_map(self, e, index):
        """self.in_[<index>] / self.out[<index>] -> map name"""
        if isinstance(e, ast.Subscript) and self.is_attr(e.value, 'self') and e.value.attr in ('in_', 'out') and \
                isinstance(e.slice, ast.Name) and e.slice.id == index:
            return e.value.attr
        return None

    def expr(self, e, env):
        if isinstance(e, ast.Name):
            if e.id not in env:
                self.fail(e, 'unknown variable %s' % e.id)
            return env[e.id]
        if isinstance(e, ast.Call) and isinstance(e.func, ast.Name) and e.func.id in ('set', '_NodeState') and \
                not e.args and not e.keywords:
            return 'XEmpty'
        if isinstance(e, ast.Attribute) and isinstance(e.value, ast.Name) and e.value.id in ('node_scope', 'fn_scope'):
            if env.get(e.value.id) != '<scope>':
                self.fail(e, '%s is not bound to a scope here' % e.value.id)
            if e.attr == 'iterate_targets' and e.value.id == 'node_scope':
                return 'XLoopTargets'
            if e.attr not in FIELDS:
                self.fail(e, 'unknown scope field %s' % e.attr)
            return '(%s %s)' % ('XScope' if e.value.id == 'node_scope' else 'XFnScope', FIELDS[e.attr])
        if isinstance(e, ast.BinOp) and isinstance(e.op, (ast.BitOr, ast.Sub, ast.BitAnd)):
            a = self.expr(e.left, env)
            b = self.expr(e.right, env)
            if isinstance(e.op, ast.BitOr):
                return U(a, b)
            return '(%s %s %s)' % ('XDiff' if isinstance(e.op, ast.Sub) else 'XInter', a, b)
        if isinstance(e, ast.Subscript) and self.is_attr(e.value, 'self', 'gen_map') and isinstance(e.slice, ast.Name) \
                and e.slice.id == 'node':
            if self.gen_names is None:
                self.fail(e, 'gen_map read before it is built')
            return 'XGenMap'
        self.fail(e, 'expression shape %s' % ast.dump(e)[:80])

    def is_getanno(self, e, obj, *path):
        """anno.getanno(<obj>, a.b.c)"""
        if not (isinstance(e, ast.Call) and isinstance(e.func, ast.Attribute) and e.func.attr == 'getanno' and
                len(e.args) == 2 and not e.keywords):
            return False
        return ast.unparse(e.args[0]) == obj and ast.unparse(e.args[1]) == '.'.join(path)

    # -- statements ----------------------------------------------------------------------------
    def block(self, stmts, env, variant):
        for s in stmts:
            self.stmt(s, env, variant)

    def stmt(self, s, env, variant):
        if isinstance(s, ast.Expr) and isinstance(s.value, ast.Constant):
            return
        if isinstance(s, ast.Assert):
            if ast.unparse(s.test) != 'self.can_ignore(node)':
                self.fail(s, 'assert shape')
            return
        if isinstance(s, ast.Assign) and len(s.targets) == 1:
            t = s.targets[0]
            m = self.is_self_map(t, 'node')
            if m and isinstance(s.value, ast.Name):
                self.result.setdefault(variant, {})[m] = self.expr(s.value, env)
                self.result[variant][m + '_var'] = s.value.id
                return
            if isinstance(t, ast.Name):
                m = self.is_self_map(s.value, 'node')
                if m:
                    if m in self.prevs.values():
                        self.fail(s, 'second read of the previous state')
                    if self.prev is None:
                        self.prev = (t.id, m)
                    self.prevs[t.id] = m
                    env[t.id] = '<prev>'
                    return
                if self.is_getanno(s.value, 'node.ast_node', 'anno', 'Static', 'SCOPE'):
                    if t.id != 'node_scope' or variant != 'scoped':
                        self.fail(s, 'scope bound outside the scoped branch')
                    env['node_scope'] = '<scope>'
                    return
                if self.is_getanno(s.value, 'node.ast_node', 'anno', 'Static', 'DEFINED_FNS_IN'):
                    env[t.id] = '<fns>'
                    return
                env[t.id] = self.expr(s.value, env)
                return
        if isinstance(s, ast.AugAssign) and isinstance(s.target, ast.Name) and isinstance(s.op, (ast.BitOr, ast.Sub)):
            v = s.target.id
            if v not in env:
                self.fail(s, 'unknown variable %s' % v)
            e = self.expr(s.value, env)
            env[v] = U(env[v], e) if isinstance(s.op, ast.BitOr) else '(XDiff %s %s)' % (env[v], e)
            return
        if isinstance(s, ast.For):
            return self.for_(s, env, variant)
        if isinstance(s, ast.If):
            return self.if_(s, env, variant)
        if isinstance(s, ast.Return):
            parts = s.value.values if isinstance(s.value, ast.BoolOp) and isinstance(s.value.op, ast.Or) else [s.value]
            for c in parts:
                if not (isinstance(c, ast.Compare) and len(c.ops) == 1 and isinstance(c.ops[0], ast.NotEq)
                        and isinstance(c.left, ast.Name) and isinstance(c.comparators[0], ast.Name)
                        and c.left.id in self.prevs):
                    self.fail(s, 'return shape')
                m = self.prevs[c.left.id]
                # the current value compared must be the one stored into the same map
                if self.result.get(variant, {}).get(m + '_var') != c.comparators[0].id:
                    self.fail(s, 'the change test does not compare what is stored')
                self.compared_maps.add(m)
                if c.left.id == self.prev[0]:
                    self.compared = c.comparators[0].id
            return
        self.fail(s, 'statement shape %s' % type(s).__name__)

    def for_(self, s, env, variant):
        if s.orelse:
            self.fail(s, 'for-else')
        # the join over neighbours
        if isinstance(s.target, ast.Name) and self.is_attr(s.iter, 'node') and s.iter.attr in ('next', 'prev'):
            if len(s.body) == 1 and isinstance(s.body[0], ast.AugAssign) and isinstance(s.body[0].op, ast.BitOr) and \
                    isinstance(s.body[0].target, ast.Name):
                m = self.is_self_map(s.body[0].value, s.target.id)
                if m is None and ast.unparse(s.body[0].value) == 'self._edge_out(%s, node)' % s.target.id and s.iter.attr == 'prev':
                    self.check_edge_out()
                    self.edge = True
                    m = 'out'
                v = s.body[0].target.id
                if m and v in env:
                    j = (s.iter.attr, m)
                    if self.join not in (None, j):
                        self.fail(s, 'two different joins')
                    self.join = j
                    env[v] = U(env[v], 'XState')
                    return
            self.fail(s, 'join loop shape')
        # the closure rule
        if isinstance(s.target, ast.Name) and isinstance(s.iter, ast.Name) and env.get(s.iter.id) == '<fns>':
            fv = s.target.id
            body = list(s.body)
            skip = False
            if body and isinstance(body[0], ast.If):
                c = body[0]
                if ast.unparse(c.test) == 'self.lamba_check(%s)' % fv and len(c.body) == 1 and \
                        isinstance(c.body[0], ast.Continue) and not c.orelse:
                    self.check_lambda_check()
                    skip = True
                    body = body[1:]
                else:
                    self.fail(c, 'condition in the closure loop')
            if len(body) != 2:
                self.fail(s, 'closure loop shape')
            a, b = body
            if not (isinstance(a, ast.Assign) and isinstance(a.targets[0], ast.Name) and a.targets[0].id == 'fn_scope' and
                    self.is_getanno(a.value, fv, 'annos', 'NodeAnno', 'ARGS_AND_BODY_SCOPE')):
                self.fail(a, 'fn_scope binding')
            if not (isinstance(b, ast.AugAssign) and isinstance(b.op, ast.BitOr) and isinstance(b.target, ast.Name)
                    and b.target.id in env):
                self.fail(b, 'closure accumulation')
            env2 = dict(env)
            env2['fn_scope'] = '<scope>'
            env2.pop('node_scope', None)
            e = self.expr(b.value, env2)
            env[b.target.id] = U(env[b.target.id], '(XClosure %s %s)' % ('true' if skip else 'false', e))
            self.skip_lambda = skip
            return
        self.fail(s, 'for loop shape')

    def check_edge_out(self):
        m = self.method('_edge_out')
        body = [x for x in m.body if not (isinstance(x, ast.Expr) and isinstance(x.value, ast.Constant))]
        got = ' ; '.join(ast.unparse(x).replace('\n', ' ') for x in body)
        got = ' '.join(got.split())
        if [a.arg for a in m.args.args] != ['self', 'pred', 'node'] or got != EDGE_OUT_PINNED:
            self.fail(m, '_edge_out differs from the pinned helper: %s' % got[:200])

    def check_lambda_check(self):
        m = self.method('lamba_check')
        src = [x for x in m.body if not (isinstance(x, ast.Expr) and isinstance(x.value, ast.Constant))]
        ok = (len(src) == 2 and isinstance(src[0], ast.If) and
              ast.unparse(src[0].test) == 'isinstance(%s, ast.Lambda)' % m.args.args[1].arg and
              len(src[0].body) == 1 and ast.unparse(src[0].body[-1]) == 'return True' and not src[0].orelse and
              ast.unparse(src[1]) == 'return False')
        if not ok:
            self.fail(m, 'lamba_check is not `isinstance(x, ast.Lambda)`')

    def if_(self, s, env, variant):
        t = ast.unparse(s.test)
        if t == 'anno.hasanno(node.ast_node, anno.Static.SCOPE)':
            if variant is not None:
                self.fail(s, 'nested scope test')
            e1 = dict(env)
            self.block(s.body, e1, 'scoped')
            e2 = dict(env)
            self.block(s.orelse, e2, 'ignored')
            # variables after the branches: only those set to the same thing survive; the stores to
            # self.in_/self.out after the if are resolved per variant
            self.after = {'scoped': e1, 'ignored': e2}
            env.clear()
            env['<split>'] = True
            return
        if t == 'not self.include_annotations':
            if s.orelse or len(s.body) != 1 or not (isinstance(s.body[0], ast.AugAssign) and
                                                     isinstance(s.body[0].op, ast.Sub) and
                                                     isinstance(s.body[0].target, ast.Name)):
                self.fail(s, 'include_annotations branch shape')
            v = s.body[0].target.id
            e = self.expr(s.body[0].value, env)
            env[v] = '(XIfAnn %s (XDiff %s %s))' % (env[v], env[v], e)
            return
        if t == 'node_scope.iterate_targets':
            # for header: on the edges that leave the loop the targets are not assigned
            ok = (not s.orelse and len(s.body) == 1 and isinstance(s.body[0], ast.For) and not s.body[0].orelse and
                  isinstance(s.body[0].target, ast.Name) and self.is_attr(s.body[0].iter, 'node') and
                  self.join is not None and s.body[0].iter.attr == self.join[0] and len(s.body[0].body) == 1)
            if ok:
                lv = s.body[0].target.id
                c = s.body[0].body[0]
                ok = (isinstance(c, ast.If) and not c.orelse and len(c.body) == 1 and
                      ast.unparse(c.test) == 'not node_scope.enters_loop_body(%s.ast_node)' % lv and
                      isinstance(c.body[0], ast.AugAssign) and isinstance(c.body[0].op, ast.BitOr) and
                      isinstance(c.body[0].target, ast.Name) and c.body[0].target.id in env)
            if not ok:
                self.fail(s, 'for-header exit-edge block shape')
            a = c.body[0]
            v = a.value
            if not (isinstance(v, ast.BinOp) and isinstance(v.op, ast.BitAnd) and
                    self.is_self_map(v.left, lv) == self.join[1] and ast.unparse(v.right) == 'node_scope.iterate_targets'):
                self.fail(a, 'exit-edge accumulation shape')
            env[a.target.id] = U(env[a.target.id], '(XInter XStateExit XLoopTargets)')
            return
        if t == 'node not in self.gen_map':
            return self.gen_map_block(s, env)
        self.fail(s, 'condition %s' % t[:60])

    def gen_map_block(self, s, env):
        if s.orelse:
            self.fail(s, 'gen_map else')
        parts = []
        env2 = dict(env)
        stored = False
        for x in s.body:
            if isinstance(x, ast.Expr) and isinstance(x.value, ast.Constant):
                continue
            if isinstance(x, ast.Assign) and isinstance(x.targets[0], ast.Name) and isinstance(x.value, ast.Dict) \
                    and not x.value.keys:
                if x.targets[0].id != 'node_symbols':
                    self.fail(x, 'gen_map dict')
                continue
            if isinstance(x, ast.Assign) and isinstance(x.targets[0], ast.Name):
                env2[x.targets[0].id] = self.expr(x.value, env2)
                continue
            if isinstance(x, ast.For):
                last = x.body[-1]
                if not (isinstance(last, ast.Assign) and ast.unparse(last.targets[0]).startswith('node_symbols[') and
                        isinstance(last.value, ast.Name)):
                    self.fail(x, 'gen_map loop body')
                if isinstance(x.target, ast.Name) and isinstance(x.iter, ast.Name):
                    if ast.unparse(last.targets[0]) != 'node_symbols[%s]' % x.target.id:
                        self.fail(x, 'gen_map key')
                    parts.append(self.expr(x.iter, env2))
                    continue
                if isinstance(x.target, ast.Tuple) and ast.unparse(x.iter) == 'node_scope.params.items()':
                    if ast.unparse(last.targets[0]) != 'node_symbols[%s]' % ast.unparse(x.target.elts[0]):
                        self.fail(x, 'gen_map key')
                    parts.append('(XScope FParams)')
                    continue
                self.fail(x, 'gen_map loop')
            if isinstance(x, ast.Assign) and ast.unparse(x.targets[0]) == 'self.gen_map[node]' and \
                    ast.unparse(x.value) == '_NodeState(node_symbols)':
                stored = True
                continue
            self.fail(x, 'gen_map statement')
        if not stored or not parts:
            self.fail(s, 'gen_map never stored')
        g = 'XEmpty'
        for p in parts:
            g = U(g, p)
        self.gen_names = g

    def run(self):
        env = {}
        args = [a.arg for a in self.fn.args.args]
        if args != ['self', 'node']:
            self.fail(self.fn, 'signature')
        body = list(self.fn.body)
        i = 0
        while i < len(body):
            s = body[i]
            i += 1
            if env.get('<split>'):
                for variant, e in self.after.items():
                    self.stmt(s, e, variant)
            else:
                self.stmt(s, env, None)
        if not env.get('<split>'):
            self.fail(self.fn, 'no scoped / ignored split')
        for v in ('scoped', 'ignored'):
            r = self.result.get(v, {})
            if 'in_' not in r or 'out' not in r:
                self.fail(self.fn, 'in_/out not stored for %s nodes' % v)
        if self.prev is None or self.compared is None or self.join is None:
            self.fail(self.fn, 'previous value / comparison / join not found')
        for v in ('scoped', 'ignored'):
            if self.result[v][self.prev[1] + '_var'] != self.compared:
                self.fail(self.fn, 'the change test does not compare what is stored')
        return self


def resolve_default(path, param):
    with open(path) as f:
        tree = ast.parse(f.read())
    for n in tree.body:
        if isinstance(n, ast.FunctionDef) and n.name == 'resolve':
            names = [a.arg for a in n.args.args]
            if param not in names:
                return None
            k = names.index(param) - (len(names) - len(n.args.defaults))
            if k < 0:
                return None
            d = n.args.defaults[k]
            if isinstance(d, ast.Constant):
                return d.value
    raise Untranslatable('untranslatable: %s: resolve() not found' % path)


def annotator_maps(path, cls, spec):
    """spec: {method name: expected count}; returns {method: sorted list of 'in_' / 'out' / 'stmt_next' / 'stmt_prev'
    attribute names read through self.current_analyzer / analyzer in that method} (fail closed if missing)."""
    with open(path) as f:
        tree = ast.parse(f.read())
    out = {}
    for n in tree.body:
        if isinstance(n, ast.ClassDef) and n.name == cls:
            for m in n.body:
                if isinstance(m, ast.FunctionDef) and m.name in spec:
                    names = []
                    for x in ast.walk(m):
                        if isinstance(x, ast.Attribute) and x.attr in ('in_', 'out', 'stmt_next', 'stmt_prev'):
                            names.append((x.lineno, x.col_offset, x.attr))
                    out[m.name] = [a for _, _, a in sorted(names)]
    for k in spec:
        if k not in out:
            raise Untranslatable('untranslatable: %s: %s.%s not found' % (path, cls, k))
    return out


# body of reaching_definitions.Analyzer._edge_out as proposed in fixes/C07-for-header-edge-sensitive.diff (docstring
# and comments dropped, whitespace normalised); modelled by Dataflow.rd_edge_out
EDGE_OUT_PINNED = ("defs_out = self.out[pred] ; pred_scope = anno.getanno(pred.ast_node, anno.Static.SCOPE, default=None) ; "
                   "if pred_scope is None or not pred_scope.iterate_targets or pred_scope.enters_loop_body(node.ast_node): return defs_out ; "
                   "targets = pred_scope.iterate_targets ; surviving = _NodeState() ; "
                   "surviving.value = {s: set(defs) for s, defs in self.in_[pred].value.items() if s in targets} ; "
                   "return defs_out - set(targets) | surviving")


HEADER = '(* GENERATED by tools/translate/%s from %s -- do not edit *)\nRequire Import MV.Flow.SetExpr.\n'


def translate_reachdef(repo):
    path = os.path.join(repo, 'malt/pyct/static_analysis/reaching_definitions.py')
    e = Engine(path).run()
    if e.gen_names is None:
        raise Untranslatable('untranslatable: %s: gen_map construction not found' % path)
    maps = annotator_maps(path, 'TreeAnnotator', {'visit_Name': 2, '_aggregate_predecessors_defined_in': 2, 'visit_arg': 1})
    if maps['visit_Name'] != ['in_', 'out'] or maps['_aggregate_predecessors_defined_in'] != ['stmt_prev', 'out'] or \
            maps['visit_arg'] != ['out']:
        raise Untranslatable('untranslatable: %s: TreeAnnotator reads %r' % (path, maps))
    # visit_Name: the Load branch must be the one that reads in_
    txt = HEADER % ('c06_transfer.py', 'malt/pyct/static_analysis/reaching_definitions.py')
    txt += 'Definition rd_gen_names : sx := %s.\n' % e.gen_names
    for v in ('scoped', 'ignored'):
        txt += 'Definition rd_%s_in : sx := %s.\n' % (v, e.result[v]['in_'])
        txt += 'Definition rd_%s_out : sx := %s.\n' % (v, e.result[v]['out'])
    txt += 'Definition rd_join_over_prev : bool := %s.\n' % ('true' if e.join[0] == 'prev' else 'false')
    txt += 'Definition rd_join_reads_out : bool := %s.\n' % ('true' if e.join[1] == 'out' else 'false')
    txt += 'Definition rd_changed_compares_out : bool := %s.\n' % ('true' if 'out' in e.compared_maps else 'false')
    txt += 'Definition rd_changed_compares_in : bool := %s.\n' % ('true' if 'in_' in e.compared_maps else 'false')
    txt += 'Definition rd_edge_sensitive : bool := %s.\n' % ('true' if e.edge else 'false')
    load_in = name_load_uses(path)
    txt += 'Definition rd_name_load_reads_in : bool := %s.\n' % ('true' if load_in else 'false')
    return txt


def name_load_uses(path):
    """TreeAnnotator.visit_Name: `if isinstance(node.ctx, ast.Load): ... analyzer.in_ ... else: ... analyzer.out ...`"""
    with open(path) as f:
        tree = ast.parse(f.read())
    for n in ast.walk(tree):
        if isinstance(n, ast.FunctionDef) and n.name == 'visit_Name':
            for s in n.body:
                if isinstance(s, ast.If) and ast.unparse(s.test) == 'isinstance(node.ctx, ast.Load)':
                    a = [x.attr for b in s.body for x in ast.walk(b) if isinstance(x, ast.Attribute) and x.attr in ('in_', 'out')]
                    b = [x.attr for b2 in s.orelse for x in ast.walk(b2) if isinstance(x, ast.Attribute) and x.attr in ('in_', 'out')]
                    if a == ['in_'] and b == ['out']:
                        return True
                    if a == ['out'] and b == ['in_']:
                        return False
    raise Untranslatable('untranslatable: %s: visit_Name shape' % path)


if __name__ == '__main__':
    import sys
    print(translate_reachdef(sys.argv[1] if len(sys.argv) > 1 else '/repo'))
