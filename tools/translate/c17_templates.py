"""Fail-closed translator for C17 -> coq/Generated/C17_gen.v

 1. malt/pyct/templates.py, class ContextAdjuster -> `adj_table : table`
    Recognised shapes (anything else raises Untranslatable -> tie broken):
      class ContextAdjuster(ast.NodeTransformer)
      __init__ / visit / _apply_override     exactly the pinned text below (they define what
                                             "override", "apply" and "save/restore around a
                                             visit" mean in the model)
      def visit_<Class>(self, node):         <Class> one of the modelled AST classes
        self._apply_override(node)           optional, only as first statement
        self._ctx_override = None | ast.Load | ast.Store | ast.Del
        node.<f> = self.visit(node.<f>)      f in value/slice/elts/target/targets/optional_vars
        node = self.generic_visit(node)  |  return self.generic_visit(node)  |  return node
      A field visited under two different overrides is refused.
 2. every `templates.replace(...)` / `templates.replace_as_expression(...)` call in
    malt/**/*.py (tests excluded): the template is a string literal or a local name bound
    only to string literals in the enclosing function; placeholders are the keyword names.
    Each template is parsed like templates.replace does (textwrap.dedent + ast.parse) and
    exported as a model tree -> `templates : list (nat * tree)`.

Also the exporter Python ast -> model tree used by the driver (to_coq / Ids).
"""
import ast
import os
import textwrap


class Untranslatable(Exception):
    pass


def _fail(fn, node, msg):
    raise Untranslatable('untranslatable: %s:%s: %s' % (fn, getattr(node, 'lineno', '?'), msg))


# ----------------------------------------------------------------------------- exporter
CTX_KINDS = ('Name', 'Attribute', 'Subscript', 'Tuple', 'List', 'Starred')
KINDS = {
    'Name', 'Attribute', 'Subscript', 'Tuple', 'List', 'Starred',
    'Call', 'Dict', 'Lambda', 'NamedExpr', 'BoolOp', 'BinOp', 'UnaryOp', 'IfExp', 'Set',
    'ListComp', 'SetComp', 'DictComp', 'GeneratorExp', 'Await', 'Yield', 'YieldFrom',
    'Compare', 'FormattedValue', 'JoinedStr', 'Constant', 'Slice',
    'Expr', 'FunctionDef', 'Assign', 'AugAssign', 'AnnAssign', 'For', 'AsyncFor', 'Delete',
}
LOWER = {'comprehension': 'Comprehension', 'keyword': 'Keyword', 'arg': 'Arg', 'withitem': 'Withitem'}
REJECT = {'TypeAlias', 'MatchStar', 'MatchAs', 'MatchMapping', 'MatchClass', 'MatchSequence', 'MatchOr',
          'MatchValue', 'MatchSingleton', 'TypeVar', 'ParamSpec', 'TypeVarTuple'}
FIELDS = {'value': 'FValue', 'slice': 'FSlice', 'elts': 'FElts', 'target': 'FTarget',
          'targets': 'FTargets', 'optional_vars': 'FOptVars'}
EXEMPT = (ast.expr_context, ast.operator, ast.unaryop, ast.boolop, ast.cmpop)
CTXNAME = {ast.Load: 'Load', ast.Store: 'Store', ast.Del: 'Del'}


def kind_of(node):
    n = type(node).__name__
    if n in KINDS:
        return 'K' + n
    if n in LOWER:
        return 'K' + LOWER[n]
    if n in REJECT or isinstance(node, ast.expr):
        raise Untranslatable('untranslatable: AST class %s is outside the model' % n)
    return 'KOther'


def label_of(node):
    if isinstance(node, ast.Name):
        return node.id
    if isinstance(node, ast.Attribute):
        return node.attr
    if isinstance(node, (ast.keyword, ast.arg)):
        return node.arg or ''
    if isinstance(node, ast.FunctionDef):
        return node.name
    return ''


def ctx_of(node):
    c = getattr(node, 'ctx', None)
    if c is None:
        return None
    if getattr(c, '__name__', '') == 'CallerMustSetThis':
        # qual_names.QN.ast() marks "not decided yet" with this class; like None it is not a context
        return None
    if type(c) not in CTXNAME:
        raise Untranslatable('untranslatable: ctx %r' % (c,))
    return CTXNAME[type(c)]


def children_of(node):
    """[(field name, child node)] in _fields order, lists flattened, operator/context
    singletons and non-node values skipped."""
    out = []
    for f in node._fields:
        v = getattr(node, f, None)
        if isinstance(v, ast.AST):
            if not isinstance(v, EXEMPT):
                out.append((f, v))
        elif isinstance(v, (list, tuple)):
            for e in v:
                if isinstance(e, ast.AST) and not isinstance(e, EXEMPT):
                    out.append((f, e))
    return out


class Ids(object):
    """Python object identity -> small nat (first come, first numbered)."""

    def __init__(self, start=1):
        self.m = {}
        self.keep = []
        self.next = start

    def get(self, obj):
        k = id(obj)
        if k not in self.m:
            self.m[k] = self.next
            self.keep.append(obj)     # keep alive so that id() is not reused
            self.next += 1
        return self.m[k]

    def known(self, obj):
        return id(obj) in self.m


def coq_str(s):
    if not all(32 <= ord(ch) < 127 for ch in s):
        s = s.encode('ascii', 'backslashreplace').decode('ascii')
    return '"' + s.replace('"', '""') + '"'


def to_coq(node, ids, idfun=None):
    """model term of a Python ast tree; ids: Ids (identity numbering)."""
    parts = []

    def go(n):
        i = ids.get(n) if idfun is None else idfun(n)
        c = ctx_of(n)
        parts.append('(Node %d %s %s %s [' % (i, kind_of(n), 'None' if c is None else '(Some %s)' % c, coq_str(label_of(n))))
        first = True
        for f, ch in children_of(n):
            if not first:
                parts.append('; ')
            first = False
            parts.append('(%s, ' % FIELDS.get(f, 'FOther'))
            go(ch)
            parts.append(')')
        parts.append('])')
    go(node)
    return ''.join(parts)


def module_of(nodes):
    """a list of statements as one tree (root = Module, a KOther node)."""
    return ast.Module(body=list(nodes), type_ignores=[])


# ----------------------------------------------------------------------------- ContextAdjuster
PINNED = {
    '__init__': "def __init__(self, override_value):\n    self._ctx_override = override_value",
    'visit': ("def visit(self, node):\n    original_override = self._ctx_override\n"
              "    node = super(ContextAdjuster, self).visit(node)\n"
              "    if hasattr(node, 'ctx'):\n        assert node.ctx is not None, 'node {} has ctx unset'.format(node)\n"
              "    self._ctx_override = original_override\n    return node"),
    '_apply_override': ("def _apply_override(self, node):\n    if self._ctx_override is not None:\n"
                        "        node.ctx = self._ctx_override()"),
}


def _norm_locals(src):
    """source of one function with its local variables (assigned plain names) renamed v0, v1, ..
    in order of first assignment, and string constants dropped from assert messages."""
    t = ast.parse(src)
    fn = t.body[0]
    params = {a.arg for a in fn.args.args}
    names = []
    for n in ast.walk(fn):
        if isinstance(n, ast.Name) and isinstance(n.ctx, ast.Store) and n.id not in params and n.id not in names:
            names.append(n.id)
    ren = {nm: 'v%d' % i for i, nm in enumerate(names)}
    for n in ast.walk(fn):
        if isinstance(n, ast.Name) and n.id in ren:
            n.id = ren[n.id]
        if isinstance(n, ast.Assert):
            n.msg = None
    return ast.unparse(t)


def _strip_doc(fn):
    body = fn.body
    if body and isinstance(body[0], ast.Expr) and isinstance(body[0].value, ast.Constant) and isinstance(body[0].value.value, str):
        body = body[1:]
    return body


def _is_self_attr(n, name):
    return isinstance(n, ast.Attribute) and isinstance(n.value, ast.Name) and n.value.id == 'self' and n.attr == name


def _call_self(n, meth):
    """self.<meth>(node) -> True"""
    return (isinstance(n, ast.Call) and _is_self_attr(n.func, meth) and len(n.args) == 1 and not n.keywords
            and isinstance(n.args[0], ast.Name) and n.args[0].id == 'node')


def translate_adjuster(repo):
    fn = os.path.join(repo, 'malt', 'pyct', 'templates.py')
    rel = 'malt/pyct/templates.py'
    tree = ast.parse(open(fn).read())
    cls = [n for n in tree.body if isinstance(n, ast.ClassDef) and n.name == 'ContextAdjuster']
    if len(cls) != 1:
        _fail(rel, tree, 'class ContextAdjuster not found exactly once')
    cls = cls[0]
    if [ast.unparse(b) for b in cls.bases] != ['ast.NodeTransformer']:
        _fail(rel, cls, 'ContextAdjuster must derive from ast.NodeTransformer only')
    table = []
    seen = set()
    for item in cls.body:
        if isinstance(item, ast.Expr) and isinstance(item.value, ast.Constant):
            continue
        if not isinstance(item, ast.FunctionDef):
            _fail(rel, item, 'unexpected class member')
        if item.decorator_list:
            _fail(rel, item, 'decorated method')
        if item.name in PINNED:
            cp = ast.FunctionDef(name=item.name, args=item.args, body=_strip_doc(item), decorator_list=[],
                                 returns=None, type_comment=None, type_params=[])
            if _norm_locals(ast.unparse(ast.fix_missing_locations(cp))) != _norm_locals(PINNED[item.name]):
                _fail(rel, item, '%s differs from the modelled text' % item.name)
            seen.add(item.name)
            continue
        if not item.name.startswith('visit_'):
            _fail(rel, item, 'unexpected method %s' % item.name)
        cname = item.name[len('visit_'):]
        if cname in KINDS:
            kind = 'K' + cname
        elif cname in LOWER:
            kind = 'K' + LOWER[cname]
        else:
            _fail(rel, item, 'handler for unmodelled class %s' % cname)
        if [a.arg for a in item.args.args] != ['self', 'node'] or item.args.vararg or item.args.kwarg or item.args.kwonlyargs:
            _fail(rel, item, 'unexpected signature')
        body = _strip_doc(item)
        apply_ = False
        cur = 'OKeep'
        steps = []
        done = False
        for idx, st in enumerate(body):
            if done:
                _fail(rel, st, 'statement after return')
            if isinstance(st, ast.Expr) and _call_self(st.value, '_apply_override'):
                if idx != 0:
                    _fail(rel, st, '_apply_override not first')
                apply_ = True
            elif (isinstance(st, ast.Assign) and len(st.targets) == 1 and _is_self_attr(st.targets[0], '_ctx_override')):
                v = ast.unparse(st.value)
                if v == 'None':
                    cur = 'ONone'
                elif v in ('ast.Load', 'ast.Store', 'ast.Del'):
                    cur = 'OSet %s' % v[4:]
                else:
                    _fail(rel, st, 'unrecognised override value %s' % v)
            elif (isinstance(st, ast.Assign) and len(st.targets) == 1 and isinstance(st.targets[0], ast.Attribute)
                  and isinstance(st.targets[0].value, ast.Name) and st.targets[0].value.id == 'node'
                  and isinstance(st.value, ast.Call) and _is_self_attr(st.value.func, 'visit')
                  and len(st.value.args) == 1 and ast.unparse(st.value.args[0]) == 'node.' + st.targets[0].attr):
                f = st.targets[0].attr
                if f not in FIELDS:
                    _fail(rel, st, 'explicit visit of unmodelled field %s' % f)
                steps.append(('SField %s' % FIELDS[f], cur))
            elif (isinstance(st, ast.Assign) and len(st.targets) == 1 and isinstance(st.targets[0], ast.Name)
                  and st.targets[0].id == 'node' and _call_self(st.value, 'generic_visit')):
                steps.append(('SAll', cur))
            elif isinstance(st, ast.Return) and st.value is not None and _call_self(st.value, 'generic_visit'):
                steps.append(('SAll', cur))
                done = True
            elif isinstance(st, ast.Return) and isinstance(st.value, ast.Name) and st.value.id == 'node':
                done = True
            else:
                _fail(rel, st, 'unrecognised statement in %s' % item.name)
        if not done:
            _fail(rel, item, '%s does not return the node' % item.name)
        # a field visited under two different overrides is outside the model
        for fcoq in list(FIELDS.values()) + ['FOther']:
            ovs = set(o for s, o in steps if s == 'SAll' or s == 'SField ' + fcoq)
            if len(ovs) > 1:
                _fail(rel, item, 'field visited under different overrides in %s' % item.name)
        if kind in [k for k, _, _ in table]:
            _fail(rel, item, 'duplicate handler')
        table.append((kind, apply_, steps))
    if seen != set(PINNED):
        _fail(rel, cls, 'missing %s' % sorted(set(PINNED) - seen))
    return table


def adjuster_coq(table):
    rows = []
    for kind, apply_, steps in table:
        rows.append('  (%s, mkHandler %s [%s])' % (kind, 'true' if apply_ else 'false',
                                                 '; '.join('(%s, %s)' % (s, o) for s, o in steps)))
    return 'Definition adj_table : table := [\n%s\n].' % ';\n'.join(rows)


# ----------------------------------------------------------------------------- templates
def _source_files(repo):
    out = []
    for d, _, files in os.walk(os.path.join(repo, 'malt')):
        for f in sorted(files):
            if f.endswith('.py') and not f.endswith('_test.py'):
                out.append(os.path.join(d, f))
    return sorted(out)


def extract_templates(repo):
    """[(relfile, line, kind, placeholders, template string)]"""
    res = []
    for path in _source_files(repo):
        rel = os.path.relpath(path, repo)
        src = open(path).read()
        if 'templates' not in src:
            continue
        tree = ast.parse(src)
        if rel == os.path.join('malt', 'pyct', 'templates.py'):
            continue
        # enclosing function of every node
        parents = {}
        for n in ast.walk(tree):
            for c in ast.iter_child_nodes(n):
                parents[c] = n
        for n in ast.walk(tree):
            if not (isinstance(n, ast.Call) and isinstance(n.func, ast.Attribute)
                    and isinstance(n.func.value, ast.Name) and n.func.value.id == 'templates'):
                continue
            if n.func.attr not in ('replace', 'replace_as_expression'):
                _fail(rel, n, 'unknown templates function %s' % n.func.attr)
            if len(n.args) != 1:
                _fail(rel, n, 'template call must have exactly one positional argument')
            names = []
            for kw in n.keywords:
                if kw.arg is None:
                    _fail(rel, n, '** replacements')
                names.append(kw.arg)
            a = n.args[0]
            strings = []
            dynamic = False
            if isinstance(a, ast.Constant) and isinstance(a.value, str):
                strings = [a.value]
            elif isinstance(a, ast.Name):
                p = n
                while p in parents and not isinstance(p, (ast.FunctionDef, ast.AsyncFunctionDef, ast.Lambda)):
                    p = parents[p]
                if not isinstance(p, (ast.FunctionDef, ast.AsyncFunctionDef)):
                    _fail(rel, n, 'template name outside a function')
                for m in ast.walk(p):
                    tg = []
                    if isinstance(m, ast.Assign):
                        tg = m.targets
                    elif isinstance(m, (ast.AugAssign, ast.AnnAssign, ast.NamedExpr)):
                        tg = [m.target]
                    elif isinstance(m, (ast.For, ast.comprehension)):
                        tg = [m.target]
                    for t in tg:
                        for nm in ast.walk(t):
                            if isinstance(nm, ast.Name) and nm.id == a.id:
                                if (isinstance(m, ast.Assign) and len(m.targets) == 1 and isinstance(m.targets[0], ast.Name)
                                        and isinstance(m.value, ast.Constant) and isinstance(m.value.value, str)):
                                    strings.append(m.value.value)
                                elif (isinstance(m, ast.Assign) and len(m.targets) == 1 and isinstance(m.targets[0], ast.Name)
                                      and (isinstance(m.value, ast.JoinedStr)
                                           or (isinstance(m.value, ast.Call) and isinstance(m.value.func, ast.Attribute)
                                               and m.value.func.attr == 'replace' and isinstance(m.value.func.value, ast.Name)
                                               and m.value.func.value.id == a.id))):
                                    # computed template (f-string / str.replace of the same variable): not in
                                    # the static table; every template string met at run time is checked by
                                    # the driver with the same discipline
                                    dynamic = True
                                else:
                                    _fail(rel, m, 'template variable %s bound to a non-literal' % a.id)
                if a.id in [x.arg for x in p.args.args + p.args.kwonlyargs]:
                    _fail(rel, n, 'template is a parameter')
                if not strings and not dynamic:
                    _fail(rel, n, 'no literal binding of template variable %s' % a.id)
            else:
                _fail(rel, n, 'template is not a literal')
            for s in dict.fromkeys(strings):
                res.append((rel, n.lineno, n.func.attr, tuple(names), s))
    return res


def parse_template(s):
    """what templates.replace parses (parser.STANDARD_PREAMBLE is empty)."""
    return ast.parse(textwrap.dedent(s)).body


def templates_coq(tpls):
    rows = []
    for rel, line, kind, names, s in tpls:
        try:
            body = parse_template(s)
        except SyntaxError as e:
            raise Untranslatable('untranslatable: %s:%s: template does not parse: %s' % (rel, line, e))
        ids = Ids()
        term = to_coq(module_of(body), ids)
        rows.append('  (* %s:%d %s(%s) *)\n  (%d, %s)' % (rel, line, kind, ', '.join(names), ids.next, term))
    return 'Definition templates : list (nat * tree) := [\n%s\n].' % ';\n'.join(rows)


def translate(repo):
    table = translate_adjuster(repo)
    tpls = extract_templates(repo)
    if len(tpls) < 20:
        raise Untranslatable('untranslatable: only %d templates found' % len(tpls))
    text = ['(* GENERATED by tools/translate/c17_templates.py from malt/pyct/templates.py and every',
            '   templates.replace call site -- do not edit *)',
            'From Coq Require Import List String.', 'Import ListNotations.',
            'Require Import MV.Tmpl.Tree MV.Tmpl.Replace.', 'Local Open Scope string_scope.', '',
            adjuster_coq(table), '', templates_coq(tpls), '']
    return '\n'.join(text), table, tpls
