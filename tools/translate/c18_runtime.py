"""C18 oracle runtime: values whose every operation is a logged, deterministic event.

A World holds the ordered event log.  Every operand of the generated programs is a V; each
operation (call, attribute load/store, subscript load/store/delete, arithmetic, comparison,
truth test, iteration, context manager entry/exit, ** unpacking) appends its description to
the log and returns a new V whose description says how it was computed, so that equal logs +
equal result descriptions = same side effects in the same order and same result.  Selected
events raise (chosen by a hash of the description); the attribute load `v.Error` is an event whose
result is a real exception class (Boom, TypeError, KeyError, ...; chosen by the world) for `raise`
statements and `except` clauses; truth values and iteration lengths are
hashes of the description too: the original and the transformed function see the same world.
"""
import zlib


class Abort(BaseException):
    pass


class Boom(Exception):
    pass


EXC_CLASSES = (Boom, Boom, TypeError, KeyError, LookupError, Exception)


def D(x):
    """canonical description of any value that can show up"""
    if isinstance(x, V):
        return object.__getattribute__(x, 'd')
    if isinstance(x, tuple):
        return '(' + ','.join(D(i) for i in x) + ',)'
    if isinstance(x, list):
        return '[' + ','.join(D(i) for i in x) + ']'
    if isinstance(x, (set, frozenset)):
        return '{' + ','.join(sorted(D(i) for i in x)) + '}'
    if isinstance(x, dict):
        return '{' + ','.join('%s:%s' % (D(k), D(v)) for k, v in x.items()) + '}'
    if isinstance(x, slice):
        return 'slice(%s:%s:%s)' % (D(x.start), D(x.stop), D(x.step))
    if callable(x) and not isinstance(x, type):
        return '<fn>'
    if isinstance(x, BaseException):
        return '%s(%s)' % (type(x).__name__, ','.join(D(a) for a in x.args))
    return repr(x)


class World(object):
    def __init__(self, seed, raising, budget=600):
        self.seed = str(seed)
        self.raising = raising
        self.log = []
        self.budget = budget
        self.bools = {}

    def h(self, s):
        return zlib.crc32((self.seed + '|' + s).encode())

    def ev(self, desc):
        self.log.append(desc)
        if len(self.log) > self.budget:
            raise Abort()
        if self.raising and self.h(desc) % 19 == 0:
            raise Boom(desc)
        return V(self, desc)


def _w(x):
    return object.__getattribute__(x, 'w')


def _bin(name):
    def f(self, other):
        return _w(self).ev('%s(%s,%s)' % (name, D(self), D(other)))
    return f


def _rbin(name):
    def f(self, other):
        return _w(self).ev('%s(%s,%s)' % (name, D(other), D(self)))
    return f


def _un(name):
    def f(self):
        return _w(self).ev('%s(%s)' % (name, D(self)))
    return f


class V(object):
    __slots__ = ('d', 'w')

    def __init__(self, w, d):
        object.__setattr__(self, 'w', w)
        object.__setattr__(self, 'd', d)

    def __call__(self, *a, **k):
        return _w(self).ev('%s(%s)' % (D(self), ','.join([D(x) for x in a] + ['%s=%s' % (n, D(x)) for n, x in k.items()])))

    def __getattr__(self, name):
        if name.startswith('__') and name.endswith('__'):
            raise AttributeError(name)
        if name == 'keys':
            w = _w(self)
            d = D(self)

            def keys():
                w.ev('keys(%s)' % d)
                return ['k%d' % (w.h(d) % 7)]
            return keys
        if name == 'Error':
            # the load is an event like any other; its result is a real exception class (chosen by the world), so
            # that `raise v.Error(x)` raises it and `except v.Error:` matches / does not match it
            w = _w(self)
            d = '%s.Error' % D(self)
            w.ev(d)
            return EXC_CLASSES[w.h('x' + d) % len(EXC_CLASSES)]
        return _w(self).ev('%s.%s' % (D(self), name))

    def __setattr__(self, name, v):
        _w(self).ev('set %s.%s=%s' % (D(self), name, D(v)))

    def __delattr__(self, name):
        _w(self).ev('del %s.%s' % (D(self), name))

    def __getitem__(self, i):
        return _w(self).ev('%s[%s]' % (D(self), D(i)))

    def __setitem__(self, i, v):
        _w(self).ev('set %s[%s]=%s' % (D(self), D(i), D(v)))

    def __delitem__(self, i):
        _w(self).ev('del %s[%s]' % (D(self), D(i)))

    def __bool__(self):
        w = _w(self)
        d = D(self)
        w.ev('bool(%s)' % d)
        n = w.bools.get(d, 0)
        w.bools[d] = n + 1
        return n < w.h('b' + d) % 3

    def __iter__(self):
        w = _w(self)
        d = D(self)
        w.ev('iter(%s)' % d)
        k = w.h('i' + d) % 3
        return iter([V(w, '%s<%d>' % (d, i)) for i in range(k)])

    def __contains__(self, x):
        w = _w(self)
        w.ev('contains(%s,%s)' % (D(self), D(x)))
        return w.h('c' + D(self) + D(x)) % 2 == 0

    def __enter__(self):
        return _w(self).ev('enter(%s)' % D(self))

    def __exit__(self, t, v, tb):
        _w(self).ev('exit(%s,%s)' % (D(self), 'None' if t is None else t.__name__))
        return False

    def __hash__(self):
        return _w(self).h('h' + D(self)) & 0xfffffff

    def __repr__(self):
        return '<V %s>' % D(self)


for _n in ['add', 'sub', 'mul', 'truediv', 'floordiv', 'mod', 'pow', 'lshift', 'rshift', 'and', 'or', 'xor', 'matmul']:
    setattr(V, '__%s__' % _n, _bin(_n))
    setattr(V, '__r%s__' % _n, _rbin(_n))
for _n in ['lt', 'le', 'gt', 'ge', 'eq', 'ne']:
    setattr(V, '__%s__' % _n, _bin(_n))
for _n in ['neg', 'pos', 'invert']:
    setattr(V, '__%s__' % _n, _un(_n))


def run(code, fname, params, seed, raising):
    """Execute the compiled module `code`, call fname with one V per parameter.
    -> (outcome, log)"""
    w = World(seed, raising)
    g = {'__builtins__': __builtins__}
    import signal
    import threading
    timed = threading.current_thread() is threading.main_thread()
    if timed:
        def _alarm(signum, frame):
            raise Abort()
        old_handler = signal.signal(signal.SIGALRM, _alarm)
        signal.setitimer(signal.ITIMER_REAL, 2.0)
    try:
        return _run(code, fname, params, w, g)
    finally:
        if timed:
            signal.setitimer(signal.ITIMER_REAL, 0)
            signal.signal(signal.SIGALRM, old_handler)


def _run(code, fname, params, w, g):
    try:
        exec(code, g)
        fn = g[fname]
        args = [V(w, p) for p in params]
        try:
            r = fn(*args)
            out = ('ret', D(r))
        except Abort:
            out = ('abort', '')
        except Boom as e:
            out = ('exc', 'Boom', str(e))
        except Exception as e:   # noqa
            out = ('exc', type(e).__name__, str(e)[:200])
    except Abort:
        out = ('abort', '')
    except Exception as e:   # noqa
        out = ('load-error', type(e).__name__, str(e)[:200])
    return out, w.log
