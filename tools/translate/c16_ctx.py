"""Fail-closed syntactic translator for C16:
   malt/core/ag_ctx.py, malt/operators/function_wrappers.py, malt/converters/functions.py,
   malt/impl/api.py  ->  coq/Generated/C16_gen.v   (tables of MV.Ctx.CtxSyntax)

Recognised shapes (anything else raises Untranslatable -> tie broken):

 ag_ctx.py
   stacks = threading.local()            -> gen_thread_local := true (any other value: false)
   _control_ctx()                        if not hasattr(stacks, 'control_status'):
                                             stacks.control_status = [_default_control_status_ctx()]
                                         return stacks.control_status
   control_status_ctx()                  [ret = _control_ctx()[-1]; return ret] | return _control_ctx()[-1]
   _default_control_status_ctx()         return ControlStatusCtx(status=Status.X)
   class Status                          members UNSPECIFIED, ENABLED, DISABLED
   ControlStatusCtx.__init__             assigns self.status = status (the only assignment to a `.status`
                                         attribute in non-test malt code)
   ControlStatusCtx.__enter__/__exit__   statements among  _control_ctx().append(self) | return self |
                                         assert _control_ctx()[-1] is self | _control_ctx().pop()
   NullCtx.__enter__/__exit__            pass
   `stacks` is used only inside _control_ctx; `_control_ctx` only in the functions above; no other
   non-test module of malt mentions stacks / _control_ctx / control_status / __enter__ / __exit__ calls
   (except FunctionScope below).

 function_wrappers.py
   FunctionScope.__init__                self.options = options ;
                                         [if options.user_requested:] self.autograph_ctx =
                                             ag_ctx.ControlStatusCtx(ag_ctx.Status.X, options)
                                         self.<flag> = False   (constant-false flags: dead guards)
   FunctionScope.__enter__/__exit__      sequence of  [if <guard>:] self.<attr>.__enter__() / .__exit__(a, b, c),
                                         guard = self.options.user_requested | self.<constant-false flag> ;
                                         return self (enter only)
   with_function_scope                   with FunctionScope(..) as scope: return thunk(scope)

 converters/functions.py
   visit_FunctionDef                     template = "with ag__.FunctionScope(..) as function_context: body"
   visit_Lambda                          template = "ag__.with_function_scope(lambda function_context: body, .., ..)"
   both fill the template with           options=self._function_scope_options(fn_scope).to_ast()
   _function_scope_options(fn_scope)     decision tree -> gen_scope_user_requested nested ur rc:
                                         statements  <name> = <opts> | if <cond>: .. [else: ..] | return <opts>
                                         <opts> = self.ctx.user.options | <name> | <opts>.call_options()
                                         <cond> = and / or / not over  fn_scope.level <cmp> <int> (only comparisons that
                                         separate level 2 = the entity's top-level function from all deeper levels),
                                         <opts>.recursive, <opts>.user_requested
 core/converter.py
   ConversionOptions.call_options        return ConversionOptions(recursive=self.recursive, user_requested=<False |
                                         self.user_requested>, internal_convert_user_code=self.recursive, ..)
                                         -> gen_call_options_user_requested
 function_wrappers.py
   FunctionScope.__init__                self.callopts = options.call_options()

 api.py   (wrapper skeleton language: with / try-except-that-always-raises / try-finally / the call of
           the wrapped function / statements that do not mention contexts)
   do_not_convert.wrapper, call_with_unspecified_conversion_status.wrapper, convert.decorator.wrapper
   decorator bodies outside the wrapper: [if func is None: return do_not_convert] ;
                                         [if is_autograph_artifact(x): return x]   -> gen_*_skips_art := true ;
                                         def wrapper ; if inspect.isfunction(x) or inspect.ismethod(x): wrapper =
                                         functools.update_wrapper(wrapper, x) ; return autograph_artifact(wrapper) ;
                                         logging calls
   convert(..., conversion_ctx=ag_ctx.NullCtx())
   internal_convert                      if/elif chain on ctx.status == ag_ctx.Status.X assigning wrapper_factory
   converted_call                        `if ag_ctx.control_status_ctx().status == ag_ctx.Status.DISABLED:
                                              return _call_unconverted(f, ...)` before any conversion
   _call_unconverted                     mentions no context
   to_graph                              ConversionOptions(..., user_requested=<const>, ...)
"""
import ast
import os


class Untranslatable(Exception):
    pass


def _fail(fn, node, msg):
    raise Untranslatable('untranslatable: %s:%s: %s' % (fn, getattr(node, 'lineno', '?'), msg))


STATUS = {'UNSPECIFIED': 'Unspecified', 'ENABLED': 'Enabled', 'DISABLED': 'Disabled'}
CTX_WORDS = ('ag_ctx', 'ControlStatusCtx', '__enter__', '__exit__', '_control_ctx', 'stacks', 'control_status',
             'control_status_ctx', 'FunctionScope', 'NullCtx')


def _parse(repo, rel):
    with open(os.path.join(repo, rel)) as f:
        return ast.parse(f.read())


def _nodoc(body):
    if body and isinstance(body[0], ast.Expr) and isinstance(body[0].value, ast.Constant) \
            and isinstance(body[0].value.value, str):
        return body[1:]
    return body


def _find(body, cls, name):
    for n in body:
        if isinstance(n, cls) and n.name == name:
            return n
    return None


def _src(n):
    return ast.unparse(n)


def _mentions(node, words=CTX_WORDS):
    for n in ast.walk(node):
        if isinstance(n, ast.Name) and n.id in words:
            return True
        if isinstance(n, ast.Attribute) and n.attr in words:
            return True
    return False


def _status_of(fn, node):
    """ag_ctx.Status.X | Status.X -> Coq constructor"""
    s = _src(node)
    for pre in ('ag_ctx.Status.', 'Status.'):
        if s.startswith(pre) and s[len(pre):] in STATUS:
            return STATUS[s[len(pre):]]
    _fail(fn, node, 'status expression ' + s)


# ---------------------------------------------------------------- ag_ctx.py
def _ag_ctx(repo):
    fn = 'malt/core/ag_ctx.py'
    tree = _parse(repo, fn)
    out = {}
    # stacks
    stacks = [n for n in tree.body if isinstance(n, ast.Assign) and len(n.targets) == 1
              and isinstance(n.targets[0], ast.Name) and n.targets[0].id == 'stacks']
    if len(stacks) != 1:
        _fail(fn, tree, 'exactly one module-level assignment to `stacks` expected')
    out['thread_local'] = (_src(stacks[0].value) == 'threading.local()')
    # Status
    st = _find(tree.body, ast.ClassDef, 'Status')
    if st is None:
        _fail(fn, tree, 'class Status missing')
    members = [n.targets[0].id for n in st.body if isinstance(n, ast.Assign) and isinstance(n.targets[0], ast.Name)]
    if sorted(members) != sorted(STATUS):
        _fail(fn, st, 'Status members %r' % members)
    # _control_ctx
    cc = _find(tree.body, ast.FunctionDef, '_control_ctx')
    if cc is None:
        _fail(fn, tree, '_control_ctx missing')
    b = _nodoc(cc.body)
    ok = (len(b) == 2 and isinstance(b[0], ast.If)
          and _src(b[0].test) == "not hasattr(stacks, 'control_status')" and not b[0].orelse
          and len(b[0].body) == 1
          and _src(b[0].body[0]) == 'stacks.control_status = [_default_control_status_ctx()]'
          and _src(b[1]) == 'return stacks.control_status')
    if not ok:
        _fail(fn, cc, '_control_ctx body shape')
    # control_status_ctx
    cs = _find(tree.body, ast.FunctionDef, 'control_status_ctx')
    if cs is None:
        _fail(fn, tree, 'control_status_ctx missing')
    b = [_src(s) for s in _nodoc(cs.body)]
    if b not in (['ret = _control_ctx()[-1]', 'return ret'], ['return _control_ctx()[-1]']):
        _fail(fn, cs, 'control_status_ctx body shape %r' % b)
    # default
    dc = _find(tree.body, ast.FunctionDef, '_default_control_status_ctx')
    if dc is None:
        _fail(fn, tree, '_default_control_status_ctx missing')
    b = _nodoc(dc.body)
    if not (len(b) == 1 and isinstance(b[0], ast.Return) and isinstance(b[0].value, ast.Call)
            and _src(b[0].value.func) == 'ControlStatusCtx' and not b[0].value.args
            and [k.arg for k in b[0].value.keywords] == ['status']):
        _fail(fn, dc, '_default_control_status_ctx body shape')
    out['default'] = _status_of(fn, b[0].value.keywords[0].value)
    # ControlStatusCtx
    cl = _find(tree.body, ast.ClassDef, 'ControlStatusCtx')
    if cl is None:
        _fail(fn, tree, 'class ControlStatusCtx missing')
    init = _find(cl.body, ast.FunctionDef, '__init__')
    if init is None or [a.arg for a in init.args.args][:2] != ['self', 'status'] or \
            'self.status = status' not in [_src(s) for s in init.body]:
        _fail(fn, cl, 'ControlStatusCtx.__init__ must store self.status = status')
    for s in init.body:
        if _mentions(s, ('stacks', '_control_ctx', 'control_status')):
            _fail(fn, s, 'ControlStatusCtx.__init__ touches the stack')

    def ops(meth, allow_return_self):
        m = _find(cl.body, ast.FunctionDef, meth)
        if m is None:
            _fail(fn, cl, 'ControlStatusCtx.%s missing' % meth)
        res = []
        for s in _nodoc(m.body):
            t = _src(s)
            if t == '_control_ctx().append(self)':
                res.append('OpAppendSelf')
            elif t == 'assert _control_ctx()[-1] is self':
                res.append('OpAssertTopIsSelf')
            elif t == '_control_ctx().pop()':
                res.append('OpPop')
            elif t == 'return self' and allow_return_self:
                pass
            elif t in ('pass', 'return None', 'return'):
                pass
            else:
                _fail(fn, s, 'statement of ControlStatusCtx.%s: %s' % (meth, t))
        return res
    out['enter'] = ops('__enter__', True)
    out['exit'] = ops('__exit__', False)
    # NullCtx
    nc = _find(tree.body, ast.ClassDef, 'NullCtx')
    if nc is None:
        _fail(fn, tree, 'class NullCtx missing')
    for meth in ('__enter__', '__exit__'):
        m = _find(nc.body, ast.FunctionDef, meth)
        if m is None or [_src(s) for s in _nodoc(m.body)] not in (['pass'], ['return None'], ['return'], []):
            _fail(fn, nc, 'NullCtx.%s is not a no-op' % meth)
    # uses of stacks/_control_ctx inside ag_ctx.py
    allowed_cc = {('control_status_ctx',), ('ControlStatusCtx', '__enter__'), ('ControlStatusCtx', '__exit__')}

    def walk(node, path):
        for ch in ast.iter_child_nodes(node):
            p = path
            if isinstance(ch, (ast.FunctionDef, ast.ClassDef)):
                p = path + (ch.name,)
            if isinstance(ch, ast.Name) and ch.id == 'stacks' and path not in ((), ('_control_ctx',)):
                _fail(fn, ch, '`stacks` used outside _control_ctx (in %s)' % '.'.join(path))
            if isinstance(ch, ast.Name) and ch.id == '_control_ctx' and path not in allowed_cc:
                _fail(fn, ch, '`_control_ctx` used in %s' % '.'.join(path))
            if isinstance(ch, ast.Attribute) and ch.attr == 'control_status' and path != ('_control_ctx',):
                _fail(fn, ch, '`.control_status` used in %s' % '.'.join(path))
            walk(ch, p)
    walk(tree, ())
    # module level statements touching stacks other than its definition
    for n in tree.body:
        if n is not stacks[0] and not isinstance(n, (ast.FunctionDef, ast.ClassDef)) and _mentions(n, ('stacks', '_control_ctx')):
            _fail(fn, n, 'module-level statement touches the context stack')
    return out


def _repo_wide(repo):
    """No other non-test module reaches the stack or drives a context manager by hand."""
    root = os.path.join(repo, 'malt')
    for d, _, files in os.walk(root):
        for f in sorted(files):
            if not f.endswith('.py') or f.endswith('_test.py'):
                continue
            p = os.path.join(d, f)
            rel = os.path.relpath(p, repo)
            if rel == os.path.join('malt', 'core', 'ag_ctx.py'):
                continue
            with open(p) as fh:
                src = fh.read()
            if not any(w in src for w in ('stacks', '_control_ctx', 'control_status', '.status', '__enter__', '__exit__')):
                continue
            tree = ast.parse(src)
            for n in ast.walk(tree):
                if isinstance(n, ast.Attribute) and n.attr in ('_control_ctx', 'control_status'):
                    _fail(rel, n, 'reaches into the context stack: ' + _src(n))
                if isinstance(n, ast.Name) and n.id == '_control_ctx':
                    _fail(rel, n, 'reaches into the context stack')
                if isinstance(n, ast.Attribute) and n.attr == 'stacks' and _src(n.value).endswith('ag_ctx'):
                    _fail(rel, n, 'reaches into ag_ctx.stacks')
                if isinstance(n, (ast.Assign, ast.AugAssign, ast.AnnAssign)):
                    tg = n.targets if isinstance(n, ast.Assign) else [n.target]
                    for t in tg:
                        for x in ast.walk(t):
                            if isinstance(x, ast.Attribute) and x.attr == 'status':
                                _fail(rel, n, 'assigns a .status attribute')
                if isinstance(n, ast.Call) and isinstance(n.func, ast.Name) and n.func.id == 'setattr' and \
                        len(n.args) >= 2 and isinstance(n.args[1], ast.Constant) and n.args[1].value == 'status':
                    _fail(rel, n, 'setattr(.., "status", ..)')
                if isinstance(n, ast.Attribute) and n.attr in ('__enter__', '__exit__') and \
                        rel != os.path.join('malt', 'operators', 'function_wrappers.py'):
                    _fail(rel, n, 'drives a context manager by hand: ' + _src(n))


# ---------------------------------------------------------------- function_wrappers.py
def _function_wrappers(repo):
    fn = 'malt/operators/function_wrappers.py'
    tree = _parse(repo, fn)
    cl = _find(tree.body, ast.ClassDef, 'FunctionScope')
    if cl is None:
        _fail(fn, tree, 'class FunctionScope missing')
    init = _find(cl.body, ast.FunctionDef, '__init__')
    if init is None or 'options' not in [a.arg for a in init.args.args]:
        _fail(fn, cl, 'FunctionScope.__init__(.., options)')
    const_false = set()
    init_guard = init_status = None
    stores_options = False
    stores_callopts = False

    def ctx_ctor(v):
        if isinstance(v, ast.Call) and _src(v.func) in ('ag_ctx.ControlStatusCtx', 'ControlStatusCtx'):
            if v.args:
                return _status_of(fn, v.args[0])
            for k in v.keywords:
                if k.arg == 'status':
                    return _status_of(fn, k.value)
            _fail(fn, v, 'ControlStatusCtx(...) without status')
        return None

    for s in _nodoc(init.body):
        t = _src(s)
        if t == 'self.options = options':
            stores_options = True
        elif t == 'self.callopts = options.call_options()':
            stores_callopts = True
        elif isinstance(s, (ast.Assign, ast.AugAssign)) and any(
                isinstance(x, ast.Attribute) and x.attr == 'callopts' for x in ast.walk(s)):
            _fail(fn, s, 'FunctionScope.__init__: self.callopts is not options.call_options(): ' + t)
        elif isinstance(s, ast.Assign) and len(s.targets) == 1 and isinstance(s.value, ast.Constant) \
                and s.value.value is False and _src(s.targets[0]).startswith('self.'):
            const_false.add(s.targets[0].attr)
        elif isinstance(s, ast.If) and _src(s.test) == 'options.user_requested' and not s.orelse and len(s.body) == 1 \
                and isinstance(s.body[0], ast.Assign) and _src(s.body[0].targets[0]) == 'self.autograph_ctx' \
                and ctx_ctor(s.body[0].value):
            if init_guard is not None:
                _fail(fn, s, 'self.autograph_ctx assigned twice')
            init_guard, init_status = 'GUserRequested', ctx_ctor(s.body[0].value)
        elif isinstance(s, ast.Assign) and _src(s.targets[0]) == 'self.autograph_ctx' and ctx_ctor(s.value):
            if init_guard is not None:
                _fail(fn, s, 'self.autograph_ctx assigned twice')
            init_guard, init_status = 'GAlways', ctx_ctor(s.value)
        elif _mentions(s, ('ag_ctx', 'ControlStatusCtx', 'autograph_ctx', '__enter__', '__exit__')):
            _fail(fn, s, 'FunctionScope.__init__ statement touching contexts: ' + t)
    if not stores_options or init_guard is None:
        _fail(fn, init, 'FunctionScope.__init__ must store options and create self.autograph_ctx')
    if not stores_callopts:
        _fail(fn, init, 'FunctionScope.__init__ must set self.callopts = options.call_options()')
    # no other method assigns autograph_ctx / options / the constant flags
    for m in cl.body:
        if isinstance(m, ast.FunctionDef) and m.name != '__init__':
            for n in ast.walk(m):
                if isinstance(n, (ast.Assign, ast.AugAssign)):
                    tg = n.targets if isinstance(n, ast.Assign) else [n.target]
                    for t in tg:
                        if isinstance(t, ast.Attribute) and (t.attr in ('autograph_ctx', 'options', 'callopts') or t.attr in const_false):
                            _fail(fn, n, 'FunctionScope.%s reassigns self.%s' % (m.name, t.attr))

    def guards(meth):
        m = _find(cl.body, ast.FunctionDef, meth)
        if m is None:
            _fail(fn, cl, 'FunctionScope.%s missing' % meth)
        res = []
        for s in _nodoc(m.body):
            t = _src(s)
            if t == 'return self' and meth == '__enter__':
                continue
            if t in ('return None', 'return', 'pass'):
                continue
            g = 'GAlways'
            inner = s
            if isinstance(s, ast.If) and not s.orelse and len(s.body) == 1:
                tt = _src(s.test)
                if tt == 'self.options.user_requested':
                    g = 'GUserRequested'
                elif tt.startswith('self.') and tt[5:] in const_false:
                    g = None          # dead
                else:
                    _fail(fn, s, 'guard in FunctionScope.%s: %s' % (meth, tt))
                inner = s.body[0]
            if not (isinstance(inner, ast.Expr) and isinstance(inner.value, ast.Call)
                    and isinstance(inner.value.func, ast.Attribute) and inner.value.func.attr == meth
                    and isinstance(inner.value.func.value, ast.Attribute)
                    and _src(inner.value.func.value.value) == 'self'):
                _fail(fn, s, 'statement of FunctionScope.%s: %s' % (meth, t))
            attr = inner.value.func.value.attr
            if g is None:
                continue
            if attr != 'autograph_ctx':
                _fail(fn, s, 'FunctionScope.%s drives self.%s under a live guard' % (meth, attr))
            res.append(g)
        return res
    enter = guards('__enter__')
    exit_ = guards('__exit__')
    # with_function_scope
    w = _find(tree.body, ast.FunctionDef, 'with_function_scope')
    if w is None:
        _fail(fn, tree, 'with_function_scope missing')
    thunk = w.args.args[0].arg
    code = _wcode(fn, _nodoc(w.body), callee=lambda c: isinstance(c.func, ast.Name) and c.func.id == thunk, param=None)
    return {'init_guard': init_guard, 'init_status': init_status, 'enter': enter, 'exit': exit_, 'wfs': code}


# ---------------------------------------------------------------- wrapper skeletons
def _always_raises(stmts):
    if not stmts:
        return False
    last = stmts[-1]
    if isinstance(last, ast.Raise):
        return True
    if isinstance(last, ast.If) and last.orelse:
        return _always_raises(last.body) and _always_raises(last.orelse)
    return False


def _wexpr(fn, e, param, local=None):
    s = _src(e)
    if isinstance(e, ast.Name) and local and e.id in local:
        if local[e.id][1]:
            _fail(fn, e, 'local context %s entered more than once' % e.id)
        local[e.id][1] = True
        return local[e.id][0]
    if isinstance(e, ast.Call) and _src(e.func) in ('ag_ctx.ControlStatusCtx', 'ControlStatusCtx'):
        if e.args:
            return 'WFresh ' + _status_of(fn, e.args[0])
        for k in e.keywords:
            if k.arg == 'status':
                return 'WFresh ' + _status_of(fn, k.value)
        _fail(fn, e, 'ControlStatusCtx(...) without status')
    if isinstance(e, ast.Name) and param is not None and e.id == param:
        return 'WParam'
    if isinstance(e, ast.Call) and _src(e.func) in ('FunctionScope', 'function_wrappers.FunctionScope', 'ag__.FunctionScope'):
        return 'WScope'
    _fail(fn, e, 'with-item ' + s)


def _wcode(fn, stmts, callee, param):
    """list of statements -> Gallina wcode term"""
    def is_callee_call(v):
        return isinstance(v, ast.Call) and callee(v)

    def contains_callee(node):
        return any(is_callee_call(n) for n in ast.walk(node))

    local = {}     # name -> [wexpr of the fresh context it is bound to, used?]

    def one(s):
        if isinstance(s, ast.With):
            items = [_wexpr(fn, it.context_expr, param, local) for it in s.items]
            inner = seq(s.body)
            for w in reversed(items):
                inner = '(WWith (%s) %s)' % (w, inner)
            return inner
        # name = ControlStatusCtx(status=...)  : a fresh context bound to a local, to be entered by ONE with statement
        if isinstance(s, ast.Assign) and len(s.targets) == 1 and isinstance(s.targets[0], ast.Name) and \
                isinstance(s.value, ast.Call) and _src(s.value.func) in ('ag_ctx.ControlStatusCtx', 'ControlStatusCtx') \
                and s.targets[0].id not in local:
            local[s.targets[0].id] = [_wexpr(fn, s.value, param), False]
            return 'WSkip'
        if isinstance(s, ast.Try):
            if s.orelse:
                _fail(fn, s, 'try/else in a wrapper')
            body = seq(s.body)
            if s.handlers:
                for h in s.handlers:
                    if not _always_raises(h.body):
                        _fail(fn, h, 'an except clause of a wrapper may swallow the exception')
                    for x in h.body:
                        if _mentions(x) or contains_callee(x):
                            _fail(fn, x, 'except clause touches contexts / calls the wrapped function')
                body = '(WTryReraise %s)' % body
            if s.finalbody:
                body = '(WTryFinally %s %s)' % (body, seq(s.finalbody))
            return body
        if isinstance(s, (ast.Return, ast.Expr, ast.Assign)) and s.value is not None and is_callee_call(s.value):
            for a in list(s.value.args) + [k.value for k in s.value.keywords]:
                if _mentions(a) or contains_callee(a):
                    _fail(fn, s, 'argument of the wrapped call touches contexts')
            return 'WBody'
        if contains_callee(s):
            _fail(fn, s, 'the wrapped function is called inside an unrecognised statement: ' + _src(s)[:80])
        if _mentions(s):
            _fail(fn, s, 'context handled outside a with statement: ' + _src(s)[:80])
        if isinstance(s, (ast.Assign, ast.Expr, ast.Pass)) or (isinstance(s, ast.Return) and
                                                                (s.value is None or isinstance(s.value, (ast.Name, ast.Constant)))):
            return 'WSkip'
        _fail(fn, s, 'statement of a wrapper: ' + _src(s)[:80])

    def seq(ss):
        ss = _nodoc(ss)
        if not ss:
            return 'WSkip'
        terms = [one(s) for s in ss]
        out = terms[-1]
        for t in reversed(terms[:-1]):
            out = '(WSeq %s %s)' % (t, out)
        return out
    return seq(stmts)


# ---------------------------------------------------------------- converters/functions.py
def _functions(repo):
    fn = 'malt/converters/functions.py'
    tree = _parse(repo, fn)
    cl = _find(tree.body, ast.ClassDef, 'FunctionTransformer')
    if cl is None:
        _fail(fn, tree, 'FunctionTransformer missing')

    def template(meth):
        m = _find(cl.body, ast.FunctionDef, meth)
        if m is None:
            _fail(fn, cl, meth + ' missing')
        ts = [n for n in ast.walk(m) if isinstance(n, ast.Assign) and _src(n.targets[0]) == 'template'
              and isinstance(n.value, ast.Constant) and isinstance(n.value.value, str)]
        if len(ts) != 1:
            _fail(fn, m, 'exactly one template string expected in ' + meth)
        import textwrap
        return ast.parse(textwrap.dedent(ts[0].value.value)), ts[0]
    def options_arg(meth):
        m = _find(cl.body, ast.FunctionDef, meth)
        calls = [n for n in ast.walk(m) if isinstance(n, ast.Call) and any(k.arg == 'options' for k in n.keywords)
                 and _src(n.func).startswith('templates.replace')]
        if len(calls) != 1:
            _fail(fn, m, 'exactly one templates.replace*(template, options=..) expected in ' + meth)
        o = [k.value for k in calls[0].keywords if k.arg == 'options'][0]
        if _src(o) != 'self._function_scope_options(fn_scope).to_ast()':
            _fail(fn, o, '%s: options of the function scope are not self._function_scope_options(fn_scope).to_ast()' % meth)
        if not (calls[0].args and _src(calls[0].args[0]) == 'template'):
            _fail(fn, calls[0], '%s: the template is not what is filled in' % meth)
    options_arg('visit_FunctionDef')
    options_arg('visit_Lambda')
    for meth in ('visit_FunctionDef', 'visit_Lambda'):
        m = _find(cl.body, ast.FunctionDef, meth)
        w = [n for n in m.body if isinstance(n, ast.With)]
        if not (len(m.body) == 1 and w and len(w[0].items) == 1 and _src(w[0].items[0].context_expr) == 'self.state[_Function]'
                and isinstance(w[0].items[0].optional_vars, ast.Name) and w[0].items[0].optional_vars.id == 'fn_scope'):
            _fail(fn, m, meth + ': body is not `with self.state[_Function] as fn_scope:` (nesting level of definitions)')
    fc = _find(tree.body, ast.ClassDef, '_Function')
    if fc is None or 'no_root' in _src(fc):
        _fail(fn, fc or tree, 'class _Function (state stack with a root entry: level 2 = top-level function) expected')
    scope_ur = _scope_options(fn, cl)
    t, node = template('visit_FunctionDef')
    if not (len(t.body) == 1 and isinstance(t.body[0], ast.With) and len(t.body[0].items) == 1
            and _src(t.body[0].items[0].context_expr.func) == 'ag__.FunctionScope'
            and len(t.body[0].body) == 1 and _src(t.body[0].body[0]) == 'body'):
        _fail(fn, node, 'function template is not `with ag__.FunctionScope(..) as ..: body`')
    code = '(WWith (WScope) WBody)'
    t2, node2 = template('visit_Lambda')
    e = t2.body[0].value if len(t2.body) == 1 and isinstance(t2.body[0], ast.Expr) else None
    if not (isinstance(e, ast.Call) and _src(e.func) == 'ag__.with_function_scope' and len(e.args) == 3
            and isinstance(e.args[0], ast.Lambda) and _src(e.args[0].body) == 'body'):
        _fail(fn, node2, 'lambda template is not ag__.with_function_scope(lambda ..: body, .., ..)')
    return {'converted_fn': code, 'scope_ur': scope_ur}


def _scope_options(fn, cl):
    """FunctionTransformer._function_scope_options -> Gallina bool term over `nested ur rc` : user_requested of the
    options a function definition's scope is generated with.  Options values are tracked symbolically as the pair
    (user_requested term, recursive term); the recursive component of every returned value must be the requested one."""
    m = _find(cl.body, ast.FunctionDef, '_function_scope_options')
    if m is None:
        _fail(fn, cl, '_function_scope_options missing')
    if [a.arg for a in m.args.args] != ['self', 'fn_scope'] or m.args.vararg or m.args.kwarg or m.decorator_list:
        _fail(fn, m, '_function_scope_options(self, fn_scope)')
    REQ = ('ur', 'rc')

    def opts(e, env):
        if _src(e) == 'self.ctx.user.options':
            return REQ
        if isinstance(e, ast.Name) and e.id in env:
            return env[e.id]
        if isinstance(e, ast.Call) and not e.args and not e.keywords and isinstance(e.func, ast.Attribute) \
                and e.func.attr == 'call_options':
            u, r = opts(e.func.value, env)
            return ('(gen_call_options_user_requested %s)' % u, r)
        _fail(fn, e, 'options expression ' + _src(e))

    TOP = {ast.Eq: 2, ast.LtE: 2, ast.Lt: 3}           # fn_scope.level <op> <n>  <=>  top-level (levels are >= 2)
    NOTTOP = {ast.NotEq: 2, ast.Gt: 2, ast.GtE: 3}

    def cond(e, env):
        if isinstance(e, ast.BoolOp):
            op = ' && ' if isinstance(e.op, ast.And) else ' || '
            return '(' + op.join(cond(v, env) for v in e.values) + ')'
        if isinstance(e, ast.UnaryOp) and isinstance(e.op, ast.Not):
            return '(negb %s)' % cond(e.operand, env)
        if isinstance(e, ast.Compare) and len(e.ops) == 1 and _src(e.left) == 'fn_scope.level' \
                and isinstance(e.comparators[0], ast.Constant) and type(e.comparators[0].value) is int:
            k, v = type(e.ops[0]), e.comparators[0].value
            if TOP.get(k) == v:
                return '(negb nested)'
            if NOTTOP.get(k) == v:
                return 'nested'
            _fail(fn, e, 'comparison of the nesting level that does not separate level 2 from deeper levels: ' + _src(e))
        if isinstance(e, ast.Attribute) and e.attr in ('recursive', 'user_requested'):
            u, r = opts(e.value, env)
            return u if e.attr == 'user_requested' else r
        _fail(fn, e, 'condition ' + _src(e))

    def block(stmts, env, rest):
        """-> Gallina term; `rest` = term of what follows the block (None: falls off the end = returns None)"""
        stmts = _nodoc(stmts)
        if not stmts:
            if rest is None:
                _fail(fn, m, '_function_scope_options may fall off its end')
            return rest
        s, tail = stmts[0], stmts[1:]
        if isinstance(s, ast.Return) and s.value is not None:
            u, r = opts(s.value, env)
            if r != 'rc':
                _fail(fn, s, 'returned options do not keep the requested recursive flag')
            return u
        if isinstance(s, ast.Assign) and len(s.targets) == 1 and isinstance(s.targets[0], ast.Name):
            env = dict(env)
            env[s.targets[0].id] = opts(s.value, env)
            return block(tail, env, rest)
        if isinstance(s, ast.If):
            after = block(tail, env, rest) if (tail or rest is not None) else None
            c = cond(s.test, env)
            a = block(s.body, env, after)
            b = block(s.orelse, env, after) if s.orelse else after
            if b is None:
                _fail(fn, s, '_function_scope_options may fall off its end')
            return '(if %s then %s else %s)' % (c, a, b)
        if isinstance(s, ast.Pass):
            return block(tail, env, rest)
        _fail(fn, s, 'statement of _function_scope_options: ' + _src(s)[:80])
    return block(m.body, {}, None)


# ---------------------------------------------------------------- core/converter.py
def _converter(repo):
    fn = 'malt/core/converter.py'
    tree = _parse(repo, fn)
    cl = _find(tree.body, ast.ClassDef, 'ConversionOptions')
    if cl is None:
        _fail(fn, tree, 'class ConversionOptions missing')
    init = _find(cl.body, ast.FunctionDef, '__init__')
    if init is None:
        _fail(fn, cl, 'ConversionOptions.__init__ missing')
    stores = [_src(s) for s in init.body]
    for a in ('recursive', 'user_requested', 'internal_convert_user_code'):
        if 'self.%s = %s' % (a, a) not in stores:
            _fail(fn, init, 'ConversionOptions.__init__ must store self.%s = %s' % (a, a))
    m = _find(cl.body, ast.FunctionDef, 'call_options')
    if m is None:
        _fail(fn, cl, 'ConversionOptions.call_options missing')
    b = _nodoc(m.body)
    if not (len(b) == 1 and isinstance(b[0], ast.Return) and isinstance(b[0].value, ast.Call)
            and _src(b[0].value.func) == 'ConversionOptions' and not b[0].value.args):
        _fail(fn, m, 'call_options is not `return ConversionOptions(<keywords>)`')
    kw = {k.arg: _src(k.value) for k in b[0].value.keywords}
    if kw.get('recursive') != 'self.recursive' or kw.get('internal_convert_user_code') != 'self.recursive':
        _fail(fn, m, 'call_options must keep recursive and set internal_convert_user_code=self.recursive')
    ur = kw.get('user_requested')
    if ur == 'False':
        term = 'false'
    elif ur == 'self.user_requested':
        term = 'ur'
    elif ur == 'True':
        term = 'true'
    else:
        _fail(fn, m, 'call_options: user_requested=%s' % ur)
    # the generated constructor call must carry the flag itself
    ta = _find(cl.body, ast.FunctionDef, 'to_ast')
    if ta is None:
        _fail(fn, cl, 'ConversionOptions.to_ast missing')
    src = _src(ta).replace(' ', '')
    if 'user_requested=user_requested_val' not in src or 'user_requested_val=parser.parse_expression(str(self.user_requested))' not in src:
        _fail(fn, ta, 'to_ast does not encode user_requested=self.user_requested')
    return {'call_ur': term}


# ---------------------------------------------------------------- api.py
def _api(repo):
    fn = 'malt/impl/api.py'
    tree = _parse(repo, fn)
    out = {}

    def top(name):
        f = _find(tree.body, ast.FunctionDef, name)
        if f is None:
            _fail(fn, tree, name + ' missing')
        return f

    def wrapper_of(f, path):
        cur = f
        for p in path:
            nxt = _find(cur.body, ast.FunctionDef, p)
            if nxt is None:
                _fail(fn, cur, 'inner def %s missing in %s' % (p, f.name))
            cur = nxt
        return cur

    def check_wrapper_sig(w):
        if not (w.args.vararg and w.args.kwarg and not w.args.args):
            _fail(fn, w, 'wrapper signature is not (*args, **kwargs)')

    def decorator_body(f, funcarg, inner, allow_none_default=False):
        """Every statement of a decorator outside its wrapper must be one of the known ones; returns whether the
        decorator hands artifacts back unwrapped (`if is_autograph_artifact(x): return x` before the wrapper)."""
        skips = False
        seen_inner = False
        for s in _nodoc(f.body):
            t = _src(s)
            if isinstance(s, ast.FunctionDef) and s.name == inner:
                seen_inner = True
            elif allow_none_default and t == 'if %s is None:\n    return %s' % (funcarg, f.name):
                pass
            elif isinstance(s, ast.If) and _src(s.test) == 'is_autograph_artifact(%s)' % funcarg and not s.orelse \
                    and [_src(x) for x in s.body] == ['return ' + funcarg]:
                if seen_inner:
                    _fail(fn, s, 'artifact shortcut after the wrapper definition in ' + f.name)
                skips = True
            elif isinstance(s, ast.If) and not s.orelse and \
                    _src(s.test) == 'inspect.isfunction(%s) or inspect.ismethod(%s)' % (funcarg, funcarg) and \
                    [_src(x) for x in s.body] == ['%s = functools.update_wrapper(%s, %s)' % (inner, inner, funcarg)]:
                pass
            elif t in ('return autograph_artifact(%s)' % inner, 'return %s' % inner) and seen_inner:
                if t == 'return %s' % inner and inner == 'wrapper':
                    _fail(fn, s, '%s returns its wrapper without marking it as an artifact' % f.name)
            elif isinstance(s, ast.Expr) and isinstance(s.value, ast.Call) and _src(s.value.func).startswith('logging.') \
                    and not _mentions(s):
                pass
            else:
                _fail(fn, s, 'statement of decorator %s outside its wrapper: %s' % (f.name, t[:80]))
        return skips

    def outer_clean(f, inner_names):
        """the decorator itself (outside the wrapper) does not touch contexts"""
        for s in _nodoc(f.body):
            if isinstance(s, ast.FunctionDef) and s.name in inner_names:
                continue
            if _mentions(s, ('ControlStatusCtx', '__enter__', '__exit__', '_control_ctx', 'stacks', 'control_status_ctx')):
                _fail(fn, s, '%s touches contexts outside its wrapper' % f.name)

    # do_not_convert / unspecified
    for name, key in (('do_not_convert', 'dnc'), ('call_with_unspecified_conversion_status', 'unspec')):
        f = top(name)
        funcarg = f.args.args[0].arg
        w = wrapper_of(f, ['wrapper'])
        check_wrapper_sig(w)
        outer_clean(f, ['wrapper'])
        out[key + '_skips'] = decorator_body(f, funcarg, 'wrapper', allow_none_default=(name == 'do_not_convert'))
        out[key] = _wcode(fn, w.body, callee=lambda c, a=funcarg: isinstance(c.func, ast.Name) and c.func.id == a, param=None)
    # convert
    f = top('convert')
    names = [a.arg for a in f.args.args]
    if 'conversion_ctx' not in names or 'user_requested' not in names:
        _fail(fn, f, 'convert(..., user_requested, conversion_ctx)')
    dflt = f.args.defaults[len(f.args.defaults) - (len(names) - names.index('conversion_ctx'))]
    if _src(dflt) != 'ag_ctx.NullCtx()':
        _fail(fn, f, 'default of conversion_ctx is not ag_ctx.NullCtx()')
    dec = wrapper_of(f, ['decorator'])
    w = wrapper_of(dec, ['wrapper'])
    check_wrapper_sig(w)
    target = dec.args.args[0].arg
    for s in _nodoc(f.body):
        if not (isinstance(s, ast.FunctionDef) and s.name == 'decorator') and _mentions(s):
            _fail(fn, s, 'convert touches contexts outside decorator.wrapper')
    outer_clean(dec, ['wrapper'])
    out['convert_skips'] = decorator_body(dec, target, 'wrapper')
    for s in _nodoc(f.body):
        if not (isinstance(s, ast.FunctionDef) and s.name == 'decorator') and _src(s) != 'return decorator':
            _fail(fn, s, 'statement of convert outside decorator: ' + _src(s)[:80])
    out['convert'] = _wcode(
        fn, w.body,
        callee=lambda c: _src(c.func) == 'converted_call' and c.args and isinstance(c.args[0], ast.Name) and c.args[0].id == target,
        param='conversion_ctx')
    # options handed to converted_call must carry user_requested unchanged
    opt = [n for n in ast.walk(w) if isinstance(n, ast.Call) and _src(n.func) == 'converter.ConversionOptions']
    if len(opt) != 1 or 'user_requested=user_requested' not in _src(opt[0]).replace(' ', ''):
        _fail(fn, w, 'convert.wrapper must build ConversionOptions(user_requested=user_requested)')
    # internal_convert
    f = top('internal_convert')
    if [a.arg for a in f.args.args] != ['f', 'ctx', 'convert_by_default', 'user_requested']:
        _fail(fn, f, 'internal_convert signature')
    table = {}

    def factory(v):
        s = _src(v).replace(' ', '')
        if s == 'do_not_convert':
            return 'FDoNotConvert'
        if s == 'call_with_unspecified_conversion_status':
            return 'FUnspec'
        if isinstance(v, ast.Call) and _src(v.func) == 'convert' and not v.args and \
                sorted((k.arg, _src(k.value)) for k in v.keywords) == \
                [('conversion_ctx', 'ctx'), ('recursive', 'True'), ('user_requested', 'user_requested')]:
            return 'FConvert'
        _fail(fn, v, 'wrapper factory ' + s)

    def branch(stmts):
        """-> (factory if convert_by_default, factory otherwise)"""
        ss = _nodoc(stmts)
        if len(ss) == 1 and isinstance(ss[0], ast.Assign) and _src(ss[0].targets[0]) == 'wrapper_factory':
            x = factory(ss[0].value)
            return (x, x)
        if len(ss) == 1 and isinstance(ss[0], ast.If) and _src(ss[0].test) == 'convert_by_default' and ss[0].orelse:
            return (branch(ss[0].body)[0], branch(ss[0].orelse)[1])
        _fail(fn, ss[0] if ss else f, 'branch of the status switch in internal_convert')
    body = _nodoc(f.body)
    sw = [s for s in body if isinstance(s, ast.If) and 'ctx.status' in _src(s.test)]
    if len(sw) != 1:
        _fail(fn, f, 'exactly one status switch expected in internal_convert')
    cur = sw[0]
    while True:
        t = cur.test
        if not (isinstance(t, ast.Compare) and len(t.ops) == 1 and isinstance(t.ops[0], ast.Eq)
                and _src(t.left) == 'ctx.status'):
            _fail(fn, cur, 'test of the status switch')
        table[_status_of(fn, t.comparators[0])] = branch(cur.body)
        if len(cur.orelse) == 1 and isinstance(cur.orelse[0], ast.If):
            cur = cur.orelse[0]
            continue
        for s in cur.orelse:
            if not isinstance(s, ast.Assert) and not isinstance(s, ast.Raise):
                _fail(fn, s, 'final else of the status switch')
        break
    if sorted(table) != sorted(STATUS.values()):
        _fail(fn, sw[0], 'status switch does not cover all statuses')
    idx = body.index(sw[0])
    rest = [_src(s) for s in body[idx + 1:]]
    if rest != ['wrapper = wrapper_factory(f)', 'return autograph_artifact(wrapper)']:
        _fail(fn, f, 'tail of internal_convert %r' % rest)
    out['internal_skips'] = False
    for s in body[:idx]:
        if not (isinstance(s, ast.If) and _src(s.test) == 'is_autograph_artifact(f)' and not s.orelse
                and [_src(x) for x in s.body] == ['return f']):
            _fail(fn, s, 'statement before the status switch in internal_convert')
        out['internal_skips'] = True
    out['internal'] = table
    # converted_call: DISABLED check before any conversion
    f = top('converted_call')
    chk = False
    for s in _nodoc(f.body):
        if any(isinstance(n, ast.Name) and n.id in ('_convert_actual',) or
               isinstance(n, ast.Attribute) and n.attr == 'ProgramContext' for n in ast.walk(s)):
            break
        if isinstance(s, ast.If) and _src(s.test) == 'ag_ctx.control_status_ctx().status == ag_ctx.Status.DISABLED' \
                and isinstance(s.body[-1], ast.Return) and isinstance(s.body[-1].value, ast.Call) \
                and _src(s.body[-1].value.func) == '_call_unconverted' and _src(s.body[-1].value.args[0]) == 'f':
            chk = True
    out['disabled_check'] = chk
    for s in ast.walk(f):
        if isinstance(s, ast.Attribute) and s.attr in ('ControlStatusCtx', '__enter__', '__exit__', '_control_ctx', 'stacks'):
            _fail(fn, s, 'converted_call handles contexts itself')
    for name in ('_call_unconverted', '_fall_back_unconverted', '_convert_actual', 'autograph_artifact'):
        g = top(name)
        if _mentions(g, ('ControlStatusCtx', '__enter__', '__exit__', '_control_ctx', 'stacks', 'control_status_ctx', 'FunctionScope')):
            _fail(fn, g, name + ' touches contexts')
    # to_graph
    f = top('to_graph')
    opt = [n for n in ast.walk(f) if isinstance(n, ast.Call) and _src(n.func) == 'converter.ConversionOptions']
    ur = None
    if len(opt) == 1:
        for k in opt[0].keywords:
            if k.arg == 'user_requested' and isinstance(k.value, ast.Constant) and isinstance(k.value.value, bool):
                ur = k.value.value
    if ur is None:
        _fail(fn, f, 'to_graph: ConversionOptions(user_requested=<bool constant>) expected')
    if _mentions(f, ('ControlStatusCtx', '__enter__', '__exit__', '_control_ctx', 'stacks', 'control_status_ctx')):
        _fail(fn, f, 'to_graph touches contexts')
    out['to_graph_ur'] = ur
    return out


def _b(x):
    return 'true' if x else 'false'


def translate(repo):
    a = _ag_ctx(repo)
    _repo_wide(repo)
    w = _function_wrappers(repo)
    c = _functions(repo)
    cv = _converter(repo)
    p = _api(repo)
    t = p['internal']
    lines = [
        '(* GENERATED by tools/translate/c16_ctx.py from malt/core/ag_ctx.py, malt/core/converter.py,',
        '   malt/operators/function_wrappers.py, malt/converters/functions.py and malt/impl/api.py',
        '   -- do not edit; rewritten on every run. *)',
        'From Coq Require Import List Bool.',
        'Import ListNotations.',
        'Require Import MV.Ctx.CtxSyntax.',
        '',
        'Definition gen_ctx_enter : list ctxop := [%s].' % '; '.join(a['enter']),
        'Definition gen_ctx_exit : list ctxop := [%s].' % '; '.join(a['exit']),
        'Definition gen_default_status : status := %s.' % a['default'],
        'Definition gen_thread_local : bool := %s.' % _b(a['thread_local']),
        'Definition gen_scope : scope_desc := mk_scope_desc %s %s [%s] [%s].' % (
            w['init_guard'], w['init_status'], '; '.join(w['enter']), '; '.join(w['exit'])),
        'Definition gen_with_function_scope : wcode := %s.' % w['wfs'],
        'Definition gen_converted_fn : wcode := %s.' % c['converted_fn'],
        'Definition gen_do_not_convert : wcode := %s.' % p['dnc'],
        'Definition gen_unspecified : wcode := %s.' % p['unspec'],
        'Definition gen_convert : wcode := %s.' % p['convert'],
        'Definition gen_internal (s : status) (convert_by_default : bool) : factory :=',
        '  match s with',
    ]
    for st in ('Unspecified', 'Enabled', 'Disabled'):
        lines.append('  | %s => if convert_by_default then %s else %s' % (st, t[st][0], t[st][1]))
    lines += [
        '  end.',
        'Definition gen_disabled_check : bool := %s.' % _b(p['disabled_check']),
        'Definition gen_to_graph_user_requested : bool := %s.' % _b(p['to_graph_ur']),
        'Definition gen_dnc_skips_art : bool := %s.' % _b(p['dnc_skips']),
        'Definition gen_unspec_skips_art : bool := %s.' % _b(p['unspec_skips']),
        'Definition gen_convert_skips_art : bool := %s.' % _b(p['convert_skips']),
        'Definition gen_internal_skips_art : bool := %s.' % _b(p['internal_skips']),
        'Definition gen_call_options_user_requested (ur : bool) : bool := %s.' % cv['call_ur'],
        'Definition gen_scope_user_requested (nested ur rc : bool) : bool := %s.' % c['scope_ur'],
        'Definition gen_tables : tables :=',
        '  mk_tables gen_ctx_enter gen_ctx_exit gen_default_status gen_thread_local gen_scope',
        '            gen_with_function_scope gen_converted_fn gen_do_not_convert gen_unspecified gen_convert',
        '            gen_internal gen_disabled_check gen_to_graph_user_requested',
        '            gen_dnc_skips_art gen_unspec_skips_art gen_convert_skips_art gen_internal_skips_art',
        '            gen_scope_user_requested gen_call_options_user_requested.',
        '',
    ]
    return '\n'.join(lines)


if __name__ == '__main__':
    import sys
    print(translate(sys.argv[1] if len(sys.argv) > 1 else '/repo'))
