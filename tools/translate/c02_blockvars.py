"""Fail-closed translator: state-variable selection of malt/converters/control_flow.py
(_get_block_basic_vars, _get_block_vars) -> coq/Generated/C02_gen.v

Recognised shapes:
  _get_block_basic_vars(self, modified, live_in, live_out):
      <local> = <set expression over self.state[_Function].scope.<field> / fn_scope.<field>>   (any number)
      basic_scope_vars = []
      for s in modified:
          if s.is_composite(): continue
          if <or/and combination of `s in live_in | live_out | <local>`>: basic_scope_vars.append(s)
          [continue]
      return frozenset(basic_scope_vars)
  _get_block_vars: input_only = <set expression over basic_scope_vars, live_in, live_out, fn_scope.globals/nonlocals with & | ->
                   scope_vars = sorted(scope_vars, key=lambda v: (v in input_only, v))
                   nouts = len(scope_vars) - len(input_only)
"""
import ast
import os


class Untranslatable(Exception):
    pass


def _fail(n, msg):
    raise Untranslatable('untranslatable: control_flow.py:%s: %s' % (getattr(n, 'lineno', '?'), msg))


def translate(repo):
    path = os.path.join(repo, 'malt', 'converters', 'control_flow.py')
    tree = ast.parse(open(path).read())
    fns = {}
    for n in ast.walk(tree):
        if isinstance(n, ast.FunctionDef) and n.name in ('_get_block_basic_vars', '_get_block_vars'):
            fns[n.name] = n
    if len(fns) != 2:
        raise Untranslatable('untranslatable: control_flow.py: _get_block_basic_vars / _get_block_vars not found')
    b = fns['_get_block_basic_vars']
    if [a.arg for a in b.args.args] != ['self', 'modified', 'live_in', 'live_out']:
        _fail(b, 'signature of _get_block_basic_vars')
    locals_ = {}
    scope_alias = set()

    def fn_field(e):
        s = ast.unparse(e)
        for pre in ['self.state[_Function].scope.'] + [a + '.' for a in scope_alias]:
            if s.startswith(pre) and s[len(pre):] in ('nonlocals', 'globals'):
                return s[len(pre):]
        return None

    def fn_set(e):
        if isinstance(e, ast.BinOp) and isinstance(e.op, ast.BitOr):
            return fn_set(e.left) + fn_set(e.right)
        f = fn_field(e)
        if f:
            return ['FnNonlocals' if f == 'nonlocals' else 'FnGlobals']
        _fail(e, 'function-scope set expression ' + ast.unparse(e))
    loop = None
    for st in b.body:
        if isinstance(st, ast.Expr) and isinstance(st.value, ast.Constant):
            continue
        if isinstance(st, ast.Assign) and len(st.targets) == 1 and isinstance(st.targets[0], ast.Name):
            nm = st.targets[0].id
            if ast.unparse(st.value) == 'self.state[_Function].scope':
                scope_alias.add(nm)
            elif isinstance(st.value, ast.List) and not st.value.elts:
                acc = nm
            else:
                locals_[nm] = fn_set(st.value)
        elif isinstance(st, ast.For):
            loop = st
        elif isinstance(st, ast.Return):
            if ast.unparse(st.value) != 'frozenset(%s)' % acc:
                _fail(st, 'return of _get_block_basic_vars')
        else:
            _fail(st, 'statement in _get_block_basic_vars')
    if loop is None or ast.unparse(loop.iter) != 'modified' or not isinstance(loop.target, ast.Name):
        _fail(b, 'loop over modified')
    v = loop.target.id

    def cond(e):
        if isinstance(e, ast.BoolOp):
            parts = [cond(x) for x in e.values]
            op = 'BOr' if isinstance(e.op, ast.Or) else 'BAnd'
            out = parts[-1]
            for p in reversed(parts[:-1]):
                out = '(%s %s %s)' % (op, p, out)
            return out
        if isinstance(e, ast.Compare) and len(e.ops) == 1 and isinstance(e.ops[0], ast.In) \
                and isinstance(e.left, ast.Name) and e.left.id == v and isinstance(e.comparators[0], ast.Name):
            nm = e.comparators[0].id
            if nm == 'live_in':
                return 'BInLiveIn'
            if nm == 'live_out':
                return 'BInLiveOut'
            if nm in locals_:
                return '(BInFn [%s])' % '; '.join(locals_[nm])
        _fail(e, 'selection condition ' + ast.unparse(e))
    body = [s for s in loop.body if not isinstance(s, ast.Continue)]
    if len(body) != 2:
        _fail(loop, 'loop body shape')
    skip, sel = body
    if not (isinstance(skip, ast.If) and ast.unparse(skip.test) == '%s.is_composite()' % v
            and len(skip.body) <= 2 and isinstance(skip.body[-1], ast.Continue) and not skip.orelse):
        _fail(skip, 'composite skip')
    if not (isinstance(sel, ast.If) and not sel.orelse and len(sel.body) == 1
            and ast.unparse(sel.body[0]) == '%s.append(%s)' % (acc, v)):
        _fail(sel, 'selection statement')
    basic_cond = cond(sel.test)

    g = fns['_get_block_vars']
    input_only = sort_ok = nouts_ok = None
    # fn_scope must be the function's scope, bound once
    fn_scope_ok = [ast.unparse(st.value) for st in ast.walk(g) if isinstance(st, ast.Assign) and len(st.targets) == 1
                   and ast.unparse(st.targets[0]) == 'fn_scope'] == ['self.state[_Function].scope']

    def sexpr(e):
        if isinstance(e, ast.BinOp):
            op = {ast.BitAnd: 'SInter', ast.BitOr: 'SUnion', ast.Sub: 'SDiff'}.get(type(e.op))
            if op is None:
                _fail(e, 'set operator')
            return '(%s %s %s)' % (op, sexpr(e.left), sexpr(e.right))
        if isinstance(e, ast.Name) and e.id in ('basic_scope_vars', 'live_in', 'live_out'):
            return {'basic_scope_vars': 'SBasic', 'live_in': 'SLiveIn', 'live_out': 'SLiveOut'}[e.id]
        if ast.unparse(e) in ('fn_scope.nonlocals', 'fn_scope.globals') and fn_scope_ok:
            return '(SFn [%s])' % ('FnNonlocals' if ast.unparse(e).endswith('nonlocals') else 'FnGlobals')
        _fail(e, 'set expression ' + ast.unparse(e))
    for st in ast.walk(g):
        if isinstance(st, ast.Assign) and len(st.targets) == 1 and isinstance(st.targets[0], ast.Name):
            nm = st.targets[0].id
            if nm == 'input_only':
                input_only = sexpr(st.value)
            elif nm == 'scope_vars' and isinstance(st.value, ast.Call) and ast.unparse(st.value.func) == 'sorted':
                sort_ok = ast.unparse(st.value) == 'sorted(scope_vars, key=lambda v: (v in input_only, v))'
            elif nm == 'nouts':
                nouts_ok = ast.unparse(st.value) == 'len(scope_vars) - len(input_only)'
    if input_only is None or not sort_ok or not nouts_ok:
        _fail(g, 'input_only / sort key / nouts shape (%r, %r, %r)' % (input_only, sort_ok, nouts_ok))
    out = ['(* GENERATED on every run by tools/translate/c02_blockvars.py from malt/converters/control_flow.py *)',
           'Require Import MV.Ctrl.BlockSyntax.',
           'From Coq Require Import List.', 'Import ListNotations.',
           'Definition basic_cond_gen : bexpr := %s.' % basic_cond,
           'Definition input_only_gen : sexpr := %s.' % input_only]
    return '\n'.join(out) + '\n'


if __name__ == '__main__':
    print(translate('/repo'))
