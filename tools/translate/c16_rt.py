"""C16 run-time support: executes generated call trees on the REAL malt API.

This module is imported by tools/props/c16.py.  `body` below is the one source
function every node of a call tree runs; malt converts it (it lives in a real
file, so inspect.getsource works) whenever a node is invoked through
convert()/to_graph()/a recursive converted_call.  All helpers are marked as
autograph artifacts, so converted code calls them directly and they have no
effect on the conversion-status stack.

A node (class N) is
    lbl       label (preorder index)
    kind      tuple, first component one of
                ('plain',) ('dnc',) ('unspec',) ('with', cexpr)
                ('convert', user_requested, recursive, cmgr) ('internal', cexpr, convert_by_default, user_requested)
                ('scope', user_requested) ('lscope', user_requested) ('tograph', recursive)
                ('artifact',)  autograph_artifact(<a private copy of f>)
                ('inner',)     an inner function handed out by converted code (to_graph(inner_factory)(f))
                ('nested', user_requested, recursive, deep)
                               inner(...), inner = a def nested (deep: two levels down) in an entity converted through
                               convert(recursive, user_requested) and handed out as a closure whose body is `return f(n)`
                               (nested_factory / nested_factory2 below); it is called wherever the node is called: from
                               the converted entity's caller, from a do_not_convert region, a with-block, plain code
                ('nestedg', recursive, deep)
                               the same, the entity converted through to_graph(entity, recursive)
    outer     wrappers stacked around the callable `kind` yields, outermost first (decorators on decorators):
              the same kinds except plain / tograph; their context arguments are evaluated when the callable
              is built, i.e. at the call site, like decorators evaluated at definition time
              cexpr = ('fresh', status) | ('at', n) | ('global', status) ; cmgr = ('null',) | cexpr
    dyn       the node's function is the exec()'d twin of `body` (code filename '<string>':
              malt runs such functions unconverted)
    catches   the node swallows exceptions of its children
    raise_at  None or position 0..len(children) at which the node raises
    exc       'E' (Exception subclass) or 'B' (BaseException subclass)
    children  at most 3

Observation points (probe): position i of a node = before child i / after child i-1;
every probe records the object returned by malt's public control_status_ctx().
"""
import sys
import threading
import types

from malt.core import ag_ctx
from malt.core import converter
from malt.impl import api
from malt.operators import function_wrappers

MAX_ARITY = 3
STATUS = {'U': ag_ctx.Status.UNSPECIFIED, 'E': ag_ctx.Status.ENABLED, 'D': ag_ctx.Status.DISABLED}
STATUS_NAME = {v: k for k, v in STATUS.items()}


class Boom(Exception):
    pass


class BBoom(BaseException):
    pass


class N(object):
    __slots__ = ('lbl', 'kind', 'dyn', 'catches', 'raise_at', 'exc', 'children', 'rec', 'outer')

    def __init__(self, lbl, kind, dyn, catches, raise_at, exc, children, outer=()):
        self.outer = tuple(outer)
        self.lbl = lbl
        self.kind = kind
        self.dyn = dyn
        self.catches = catches
        self.raise_at = raise_at
        self.exc = exc
        self.children = children
        self.rec = None


class Recorder(object):
    """Per-thread log.  Keeps every observed ctx object alive so that id() is never reused."""

    def __init__(self, tid=0, sched=None, globals_=None):
        self.tid = tid
        self.sched = sched
        self.events = []      # (lbl, pos, ctx object, status letter, depth or None, frame info)
        self.errors = []      # unexpected exception texts (AssertionError of ag_ctx etc.)
        self.globals = globals_ or {}

    def attach(self, n):
        n.rec = self
        for c in n.children:
            self.attach(c)


def _depth():
    try:
        return len(ag_ctx._control_ctx())
    except Exception:   # noqa  (private helper renamed: correspondence on depth is dropped)
        return None


def _frame_info():
    """Is the nearest enclosing activation of `body` a malt-converted function, and
    was its FunctionScope created with user_requested options?  -> (converted, user_requested)"""
    f = sys._getframe(2)
    while f is not None:
        name = f.f_code.co_name
        if name == 'body' and f.f_code.co_filename in (__file__, '<string>'):
            return (False, False)
        if name.endswith('__body') and 'fscope' in f.f_locals:
            sc = f.f_locals['fscope']
            return (True, bool(sc.options.user_requested))
        f = f.f_back
    return (False, False)


def probe(n, pos):
    if pos > len(n.children):
        return
    rec = n.rec
    if rec.sched is not None:
        rec.sched.yield_(rec.tid)
    c = ag_ctx.control_status_ctx()
    rec.events.append((n.lbl, pos, c, STATUS_NAME.get(c.status, '?'), _depth(), _frame_info()))


def pre(n, pos):
    if n.raise_at is not None and n.raise_at == pos:
        if n.exc == 'B':
            raise BBoom('boom %d' % n.lbl)
        raise Boom('boom %d' % n.lbl)


def handler(n, i):
    t = sys.exc_info()[0]
    if t is AssertionError or (t is not None and 'control' in str(sys.exc_info()[1]) and t is AttributeError):
        n.rec.errors.append('%s: %s' % (t.__name__, sys.exc_info()[1]))
    if not n.catches:
        raise


def _noop(_):
    return None


def evalc(rec, ce):
    if ce[0] == 'fresh':
        return ag_ctx.ControlStatusCtx(status=STATUS[ce[1]])
    if ce[0] == 'global':
        return rec.globals[ce[1]]
    if ce[0] == 'at':
        st = ag_ctx._control_ctx()
        return st[-1 - min(ce[1], len(st) - 1)]
    raise ValueError(ce)


def _copy_fn(fn):
    return types.FunctionType(fn.__code__, fn.__globals__, fn.__name__, fn.__defaults__, fn.__closure__)


def inner_factory(fn):
  def inner(n):
    return fn(n)
  return inner


def nested_factory(fn):
  def inner(n):
    return fn(n)
  return inner


def nested_factory2(fn):
  def mid():
    def inner(n):
      return fn(n)
    return inner
  return mid()


def _nested_closure(rec, k, fn):
    fac = nested_factory2 if k[-1] else nested_factory
    if k[0] == 'nestedg':
        g = api.to_graph(fac, recursive=k[1])(fn)
    else:
        conv = api.convert(recursive=k[2], user_requested=k[1])(fac)
        # convert() runs the entity unconverted where the status is DISABLED: the entity is converted (and hands
        # out its inner function) under a context of the harness' own, whatever the call site's status is
        with ag_ctx.ControlStatusCtx(status=ag_ctx.Status.UNSPECIFIED):
            g = conv(fn)
    if not api.is_autograph_artifact(g):
        msg = 'RuntimeError: the entity %s was not converted (its inner function is not marked as converted code)' % fac.__name__
        rec.errors.append(msg)
        raise RuntimeError(msg)
    return g


def make_callable(rec, ch):
    """The callable through which the parent invokes node `ch` (called as callable(ch))."""
    g = apply_kind(rec, ch.kind, body_dyn if ch.dyn else body, ch.dyn)
    for k in reversed(ch.outer):
        g = apply_kind(rec, k, g, ch.dyn)
    return g


def apply_kind(rec, k, fn, dyn):
    if k[0] == 'plain':
        return fn
    if k[0] == 'artifact':
        if getattr(fn, '__name__', '') == 'body' and not api.is_autograph_artifact(fn):
            fn = _copy_fn(fn)       # never mark the shared `body`
        return api.autograph_artifact(fn)
    if k[0] == 'inner':
        return api.to_graph(inner_factory)(fn)
    if k[0] in ('nested', 'nestedg'):
        return _nested_closure(rec, k, fn)
    if k[0] == 'dnc':
        return api.do_not_convert(fn)
    if k[0] == 'unspec':
        return api.call_with_unspecified_conversion_status(fn)
    if k[0] == 'with':
        c = evalc(rec, k[1])

        def w(m):
            with c:
                return fn(m)
        return api.autograph_artifact(w)
    if k[0] == 'convert':
        if k[3][0] == 'null':
            return api.convert(recursive=k[2], user_requested=k[1])(fn)
        return api.convert(recursive=k[2], user_requested=k[1], conversion_ctx=evalc(rec, k[3]))(fn)
    if k[0] == 'internal':
        return api.internal_convert(fn, ctx=evalc(rec, k[1]), convert_by_default=k[2], user_requested=k[3])
    if k[0] == 'scope':
        opts = converter.ConversionOptions(recursive=True, user_requested=k[1], optional_features=None)

        def s(m):
            with function_wrappers.FunctionScope('body', 'fscope', opts):
                return fn(m)
        return api.autograph_artifact(s)
    if k[0] == 'lscope':
        opts = converter.ConversionOptions(recursive=True, user_requested=k[1], optional_features=None)

        def ls(m):
            return function_wrappers.with_function_scope(lambda scope: fn(m), 'lscope', opts)
        return api.autograph_artifact(ls)
    if k[0] == 'tograph':
        if dyn:
            # no source code: to_graph itself refuses (before anything is called)
            try:
                g = api.to_graph(fn, recursive=k[1])
            except Exception as e:   # noqa
                raise Boom('boom (to_graph refused dynamic code): %s' % type(e).__name__)
            return g
        return api.to_graph(fn, recursive=k[1])
    raise ValueError(k)


def callee(n, i):
    if i >= len(n.children):
        return _noop
    return make_callable(n.rec, n.children[i])


def arg(n, i):
    if i >= len(n.children):
        return None
    return n.children[i]


BODY_SRC = '''
def body(n):
  probe(n, 0)
  pre(n, 0)
  try:
    callee(n, 0)(arg(n, 0))
  except BaseException:
    handler(n, 0)
  probe(n, 1)
  pre(n, 1)
  try:
    callee(n, 1)(arg(n, 1))
  except BaseException:
    handler(n, 1)
  probe(n, 2)
  pre(n, 2)
  try:
    callee(n, 2)(arg(n, 2))
  except BaseException:
    handler(n, 2)
  probe(n, 3)
  pre(n, 3)
'''


def body(n):
  probe(n, 0)
  pre(n, 0)
  try:
    callee(n, 0)(arg(n, 0))
  except BaseException:
    handler(n, 0)
  probe(n, 1)
  pre(n, 1)
  try:
    callee(n, 1)(arg(n, 1))
  except BaseException:
    handler(n, 1)
  probe(n, 2)
  pre(n, 2)
  try:
    callee(n, 2)(arg(n, 2))
  except BaseException:
    handler(n, 2)
  probe(n, 3)
  pre(n, 3)


for _h in (probe, pre, handler, callee, arg, _noop):
    api.autograph_artifact(_h)

_ns = dict(globals())
exec(compile(BODY_SRC, '<string>', 'exec'), _ns)   # the "dynamic code" twin of body
body_dyn = _ns['body']
body_dyn.__globals__['body_dyn'] = body_dyn


class RootProbe(object):
    """The harness' own node around the root: observes before/after the whole tree."""
    lbl = None


def run_tree(root, rec):
    """Runs one tree on the current thread.  Returns the outcome letter
    'N' (returned) / 'R' (raised Boom/BBoom or a malt-mapped version of it) / 'X:<text>' (anything else)."""
    rec.attach(root)
    top = N(0, ('plain',), False, True, None, 'E', [root])
    top.rec = rec
    if rec.sched is not None:
        rec.sched.yield_(rec.tid)
    c = ag_ctx.control_status_ctx()
    rec.events.append((0, 0, c, STATUS_NAME.get(c.status, '?'), _depth(), (False, False)))
    out = 'N'
    try:
        make_callable(rec, root)(root)
    except BaseException as e:   # noqa
        if isinstance(e, (Boom, BBoom)) or 'boom' in str(e):
            out = 'R'
        else:
            out = 'X:%s: %s' % (type(e).__name__, e)
            rec.errors.append(out)
    if rec.sched is not None:
        rec.sched.yield_(rec.tid)
    c = ag_ctx.control_status_ctx()
    rec.events.append((0, 1, c, STATUS_NAME.get(c.status, '?'), _depth(), (False, False)))
    return out


class Scheduler(object):
    """Deterministic cooperative interleaving: exactly one thread runs between two
    probes; at every probe the running thread hands the turn to the thread the
    (seeded) schedule names next."""

    def __init__(self, nthreads, rnd):
        self.cv = threading.Condition()
        self.alive = set(range(nthreads))
        self.turn = None
        self.rnd = rnd
        self.log = []

    def _pick(self):
        if not self.alive:
            self.turn = None
            return
        self.turn = self.rnd.choice(sorted(self.alive))
        self.log.append(self.turn)

    def start(self):
        with self.cv:
            self._pick()
            self.cv.notify_all()

    def wait_turn(self, tid):
        with self.cv:
            while self.turn != tid:
                self.cv.wait(30)

    def yield_(self, tid):
        with self.cv:
            self._pick()
            self.cv.notify_all()
            while self.turn != tid:
                if not self.cv.wait(30):
                    raise RuntimeError('scheduler stuck')

    def done(self, tid):
        with self.cv:
            self.alive.discard(tid)
            self._pick()
            self.cv.notify_all()
