"""Fail-closed translator for C11 -> coq/Generated/C11_gen.v

 * activity.Scope.referenced: must be a property that unions some of self.read / self.modified /
   self.bound (directly or through one local variable) and recurses on self.parent.referenced;
   emits `referenced_gen : list sfield`.
 * every call `<x>.new_symbol(<root>, <reserved>)` in malt/: the reserved argument must be `()` or a
   union of `<scope>.referenced` (directly or through one local variable assigned such a union);
   emits `callsites_gen : list (string * string * bool)` (file:line, root text, reserved-is-referenced).
 * the `ns` of the theorems: every construction `Namer(<arg>)` in malt/ must receive the UNFILTERED result of
   `inspect_utils.getnamespace(<parameter of the enclosing function>)` -- directly, or through one local
   variable that is assigned exactly once, by a top-level statement of the function that precedes the
   construction, and is otherwise only handed on as a call argument (no subscripting, no attribute access,
   no rebinding, no comprehension over it); the namer handed to `transformer.Context(...)` must be such a
   construction; nothing outside naming.py assigns `<x>.global_namespace`; at least one construction must
   exist.  emits `namer_sites_gen : list (string * string * bool)` (file:line, namespace expression,
   namespace-is-the-full-getnamespace-result).
 * the Namer every request goes to: the receiver of every `<x>.new_symbol(...)` must be the namer of the conversion
   context -- `ctx.namer` / `self.ctx.namer`, a local variable assigned exactly once from a (validated) Namer
   construction, or a parameter of the enclosing function that every call of that function in the file feeds with
   such an expression.  Matters most for the requests that pass `()` as reserved set (the names of the wrapper
   functions the transpiler generates AROUND the converted entity, the name of the entity): only the namespace of
   the namer keeps them away from the globals / closure variables the user code reads.  emits
   `receivers_gen : list (string * string * bool)` (file:line, resolved root, receiver-is-the-context-namer);
   a root that is a parameter with a string default which no caller overrides is resolved to that literal.
"""
import ast
import os


class Untranslatable(Exception):
    pass


FIELDS = {'read': 'FRead', 'modified': 'FModified', 'bound': 'FBound', 'hidden': 'FHidden'}


def _is_code_names(a):
    """`_referenced_names(<fn>.__code__)`: the names the code objects of the converted function refer to"""
    return (isinstance(a, ast.Call) and isinstance(a.func, ast.Name) and a.func.id == '_referenced_names'
            and len(a.args) == 1 and not a.keywords and isinstance(a.args[0], ast.Attribute) and a.args[0].attr == '__code__')


def _union_terms(e):
    if isinstance(e, ast.BinOp) and isinstance(e.op, ast.BitOr):
        return _union_terms(e.left) + _union_terms(e.right)
    return [e]


def _is_namer_ctor(c):
    return isinstance(c, ast.Call) and ((isinstance(c.func, ast.Attribute) and c.func.attr == 'Namer') or
                                        (isinstance(c.func, ast.Name) and c.func.id == 'Namer'))


def _is_getnamespace(e, params):
    return isinstance(e, ast.Call) and not e.keywords and len(e.args) == 1 and isinstance(e.args[0], ast.Name) \
        and e.args[0].id in params and \
        ((isinstance(e.func, ast.Attribute) and e.func.attr == 'getnamespace' and isinstance(e.func.value, ast.Name)
          and e.func.value.id == 'inspect_utils') or (isinstance(e.func, ast.Name) and e.func.id == 'getnamespace'))


def _parents(tree):
    par = {}
    for n in ast.walk(tree):
        for ch in ast.iter_child_nodes(n):
            par[ch] = n
    return par


def _enclosing_function(node, par):
    while node in par:
        node = par[node]
        if isinstance(node, (ast.FunctionDef, ast.AsyncFunctionDef, ast.Lambda)):
            return node
    return None


def _toplevel_index(node, func, par):
    """index of the statement of func.body that contains node, None when it sits in a nested function"""
    while node in par and par[node] is not func:
        node = par[node]
        if isinstance(node, (ast.FunctionDef, ast.AsyncFunctionDef, ast.Lambda, ast.ClassDef)):
            return None
    return func.body.index(node) if node in func.body else None


def namer_sites(repo):
    """Every construction of a Namer in malt/ with the proof that it receives the full namespace (fail closed)."""
    sites = []
    for d, _, fs in os.walk(os.path.join(repo, 'malt')):
        for fn in sorted(fs):
            if not fn.endswith('.py'):
                continue
            p = os.path.join(d, fn)
            rel = os.path.relpath(p, repo)
            t = ast.parse(open(p).read())
            par = _parents(t)
            full_namers = {}     # (function node, variable name) -> True for `v = Namer(<full namespace>)`
            for c in ast.walk(t):
                if isinstance(c, ast.Attribute) and c.attr == 'global_namespace' and not isinstance(c.ctx, ast.Load) \
                        and rel != os.path.join('malt', 'pyct', 'naming.py'):
                    raise Untranslatable('untranslatable: %s:%d: the namespace of a Namer is replaced after construction' % (rel, c.lineno))
                if not _is_namer_ctor(c):
                    continue
                where = '%s:%d' % (rel, c.lineno)
                args = list(c.args) + [k.value for k in c.keywords if k.arg == 'global_namespace']
                if len(args) != 1 or len(c.args) + len(c.keywords) != 1:
                    raise Untranslatable('untranslatable: %s: Namer constructed with arguments (%s)' % (where, ast.unparse(c)))
                func = _enclosing_function(c, par)
                if not isinstance(func, ast.FunctionDef):
                    raise Untranslatable('untranslatable: %s: Namer constructed outside a plain function' % where)
                params = [a.arg for a in func.args.posonlyargs + func.args.args + func.args.kwonlyargs]
                a = args[0]
                if _is_getnamespace(a, params):
                    expr = ast.unparse(a)
                elif isinstance(a, ast.Name):
                    at = _toplevel_index(c, func, par)
                    binds = []
                    for n in ast.walk(func):
                        if isinstance(n, ast.Name) and n.id == a.id and n is not a:
                            pn = par.get(n)
                            if isinstance(n.ctx, ast.Store) and isinstance(pn, ast.Assign) and pn.targets == [n]:
                                binds.append(pn)
                            elif isinstance(n.ctx, ast.Load) and isinstance(pn, ast.Call) and n in pn.args:
                                pass          # handed on as an argument
                            elif isinstance(n.ctx, ast.Load) and isinstance(pn, ast.keyword) and isinstance(par.get(pn), ast.Call):
                                pass
                            else:
                                raise Untranslatable('untranslatable: %s:%d: the namespace variable %s of the Namer is used as `%s`'
                                                     % (rel, n.lineno, a.id, ast.unparse(pn) if pn is not None else a.id))
                        elif isinstance(n, (ast.Global, ast.Nonlocal)) and a.id in n.names:
                            raise Untranslatable('untranslatable: %s:%d: namespace variable %s declared global/nonlocal' % (rel, n.lineno, a.id))
                        elif isinstance(n, ast.arg) and n.arg == a.id:
                            raise Untranslatable('untranslatable: %s:%d: the Namer is constructed from the parameter %s, not from '
                                                 'inspect_utils.getnamespace(fn)' % (rel, c.lineno, a.id))
                    if len(binds) != 1:
                        raise Untranslatable('untranslatable: %s: the namespace variable %s of the Namer is assigned %d times' % (where, a.id, len(binds)))
                    b = binds[0]
                    if not _is_getnamespace(b.value, params):
                        raise Untranslatable('untranslatable: %s:%d: the Namer is constructed from %s = %s, not from the unfiltered '
                                             'inspect_utils.getnamespace(fn)' % (rel, b.lineno, a.id, ast.unparse(b.value)))
                    if at is None or b not in func.body or func.body.index(b) >= at:
                        raise Untranslatable('untranslatable: %s: %s is not assigned by a top-level statement that precedes the Namer construction' % (where, a.id))
                    expr = '%s = %s' % (a.id, ast.unparse(b.value))
                else:
                    raise Untranslatable('untranslatable: %s: the Namer is constructed from %s, not from the unfiltered '
                                         'inspect_utils.getnamespace(fn)' % (where, ast.unparse(a)))
                sites.append((where, expr, True))
                pc = par.get(c)
                if isinstance(pc, ast.Assign) and len(pc.targets) == 1 and isinstance(pc.targets[0], ast.Name):
                    nb = [n for n in ast.walk(func) if isinstance(n, ast.Name) and n.id == pc.targets[0].id and isinstance(n.ctx, ast.Store)]
                    if len(nb) == 1:
                        full_namers[(func, pc.targets[0].id)] = True
            # the namer the converters see (ctx.namer) is one of these constructions
            for c in ast.walk(t):
                if isinstance(c, ast.Call) and ((isinstance(c.func, ast.Attribute) and c.func.attr == 'Context' and
                                                 isinstance(c.func.value, ast.Name) and c.func.value.id == 'transformer') or
                                                (isinstance(c.func, ast.Name) and c.func.id == 'Context')):
                    nm = c.args[1] if len(c.args) > 1 else None
                    for k in c.keywords:
                        if k.arg == 'namer':
                            nm = k.value
                    func = _enclosing_function(c, par)
                    if not (isinstance(nm, ast.Name) and (func, nm.id) in full_namers) and not \
                            (_is_namer_ctor(nm) and any(w == '%s:%d' % (rel, nm.lineno) for w, _, _ in sites)):
                        raise Untranslatable('untranslatable: %s:%d: the namer of transformer.Context(...) is not a Namer constructed from '
                                             'the full namespace in the same function' % (rel, c.lineno))
    if not sites:
        raise Untranslatable('untranslatable: malt/: no construction of naming.Namer found')
    return sorted(set(sites))


def _is_ctx_namer(e):
    """`ctx.namer` / `self.ctx.namer` / `<x>.ctx.namer`"""
    return isinstance(e, ast.Attribute) and e.attr == 'namer' and (
        (isinstance(e.value, ast.Name) and e.value.id == 'ctx') or
        (isinstance(e.value, ast.Attribute) and e.value.attr == 'ctx'))


def _params(func):
    return [a.arg for a in func.args.posonlyargs + func.args.args]


def _calls_of(t, func):
    """calls `<x>.<func.name>(...)` / `<func.name>(...)` anywhere in the file (except inside func itself)"""
    inside = set(id(n) for n in ast.walk(func))
    out = []
    for c in ast.walk(t):
        if isinstance(c, ast.Call) and id(c) not in inside and (
                (isinstance(c.func, ast.Attribute) and c.func.attr == func.name) or
                (isinstance(c.func, ast.Name) and c.func.id == func.name)):
            out.append(c)
    return out


def _actual(call, func, pname):
    """the expression a call passes for parameter pname of func (None = not passed: the default applies)"""
    ps = _params(func)
    pos = ps.index(pname)
    if isinstance(call.func, ast.Attribute) and ps and ps[0] in ('self', 'cls'):
        pos -= 1
    for kw in call.keywords:
        if kw.arg == pname:
            return kw.value
        if kw.arg is None:
            raise Untranslatable('untranslatable: line %d: call of %s with **kwargs' % (call.lineno, func.name))
    if any(isinstance(a, ast.Starred) for a in call.args):
        raise Untranslatable('untranslatable: line %d: call of %s with *args' % (call.lineno, func.name))
    return call.args[pos] if 0 <= pos < len(call.args) else None


def _namer_vars(func):
    """local variables of func that are assigned exactly once, from a Namer construction (namer_sites validates
    that every construction receives the full namespace)"""
    stores = {}
    for n in ast.walk(func):
        if isinstance(n, ast.Name) and isinstance(n.ctx, ast.Store):
            stores[n.id] = stores.get(n.id, 0) + 1
    out = set()
    for n in ast.walk(func):
        if isinstance(n, ast.Assign) and len(n.targets) == 1 and isinstance(n.targets[0], ast.Name) \
                and _is_namer_ctor(n.value) and stores.get(n.targets[0].id) == 1:
            out.add(n.targets[0].id)
    return out


def _receiver_is_context_namer(recv, func, t, par, rel, depth=0):
    """fail closed: True, or Untranslatable with the reason"""
    where = '%s:%d' % (rel, recv.lineno)
    if _is_ctx_namer(recv):
        return True
    if isinstance(recv, ast.Name) and isinstance(func, ast.FunctionDef):
        if recv.id in _namer_vars(func) and recv.id not in _params(func):
            return True
        if recv.id in _params(func) and depth < 3:
            if any(isinstance(n, ast.Name) and n.id == recv.id and isinstance(n.ctx, (ast.Store, ast.Del)) for n in ast.walk(func)):
                raise Untranslatable('untranslatable: %s: the namer parameter %s of %s is rebound before new_symbol is called on it'
                                     % (where, recv.id, func.name))
            calls = _calls_of(t, func)
            if not calls:
                raise Untranslatable('untranslatable: %s: no call of %s found that shows which namer it receives' % (where, func.name))
            for c in calls:
                a = _actual(c, func, recv.id)
                if a is None:
                    raise Untranslatable('untranslatable: %s:%d: %s is called without a namer' % (rel, c.lineno, func.name))
                _receiver_is_context_namer(a, _enclosing_function(c, par), t, par, rel, depth + 1)
            return True
    raise Untranslatable('untranslatable: %s: new_symbol is requested from `%s`, which is not the namer of the conversion context '
                         '(ctx.namer, built from the full namespace of the function)' % (where, ast.unparse(recv)))


def _resolved_root(root, func, t):
    """text of the root argument; a parameter with a constant string default that no caller overrides -> that literal"""
    if isinstance(root, ast.Name) and isinstance(func, ast.FunctionDef) and root.id in _params(func):
        ps = _params(func)
        defaults = func.args.defaults
        k = ps.index(root.id) - (len(ps) - len(defaults))
        if 0 <= k < len(defaults) and isinstance(defaults[k], ast.Constant) and isinstance(defaults[k].value, str):
            try:
                if all(_actual(c, func, root.id) is None for c in _calls_of(t, func)):
                    return repr(defaults[k].value)
            except Untranslatable:
                pass
    return ast.unparse(root)


def receiver_sites(repo):
    """(file:line, resolved root, True) for every new_symbol request in malt/ -- see the module docstring"""
    out = []
    for d, _, fs in os.walk(os.path.join(repo, 'malt')):
        for fn in sorted(fs):
            if not fn.endswith('.py'):
                continue
            p = os.path.join(d, fn)
            rel = os.path.relpath(p, repo)
            t = ast.parse(open(p).read())
            par = None
            for c in ast.walk(t):
                if isinstance(c, ast.Call) and isinstance(c.func, ast.Attribute) and c.func.attr == 'new_symbol':
                    if par is None:
                        par = _parents(t)
                    if len(c.args) != 2 or c.keywords:
                        raise Untranslatable('untranslatable: %s:%d: new_symbol called as %s' % (rel, c.lineno, ast.unparse(c)))
                    func = _enclosing_function(c, par)
                    ok = _receiver_is_context_namer(c.func.value, func, t, par, rel)
                    out.append(('%s:%d' % (rel, c.lineno), _resolved_root(c.args[0], func, t), ok))
    return sorted(set(out))


def translate(repo):
    apath = os.path.join(repo, 'malt', 'pyct', 'static_analysis', 'activity.py')
    tree = ast.parse(open(apath).read())
    prop = None
    for n in ast.walk(tree):
        if isinstance(n, ast.ClassDef) and n.name == 'Scope':
            for m in n.body:
                if isinstance(m, ast.FunctionDef) and m.name == 'referenced':
                    prop = m
    if prop is None:
        raise Untranslatable('untranslatable: activity.py: Scope.referenced not found')
    fields = set()
    recurses = False
    env = {}
    returns = 0

    def terms(e):
        out = []
        for t in _union_terms(e):
            if isinstance(t, ast.Name) and t.id in env:
                out += env[t.id]
            else:
                out.append(t)
        return out
    for st in ast.walk(prop):
        if isinstance(st, ast.Assign) and len(st.targets) == 1 and isinstance(st.targets[0], ast.Name):
            env[st.targets[0].id] = terms(st.value)
    for st in ast.walk(prop):
        if isinstance(st, ast.Return):
            returns += 1
            for t in terms(st.value):
                s = ast.unparse(t)
                if s == 'self.parent.referenced':
                    recurses = True
                elif s.startswith('self.') and s[5:] in FIELDS:
                    fields.add(FIELDS[s[5:]])
                else:
                    raise Untranslatable('untranslatable: activity.py:%d: term %s in Scope.referenced' % (st.lineno, s))
    if not recurses or not returns:
        raise Untranslatable('untranslatable: activity.py:%d: Scope.referenced does not include parent.referenced' % prop.lineno)
    # every return must have the same own-fields (checked loosely: the union over returns is what all returns use)
    sites = []
    for d, _, fs in os.walk(os.path.join(repo, 'malt')):
        for fn in sorted(fs):
            if not fn.endswith('.py'):
                continue
            p = os.path.join(d, fn)
            t = ast.parse(open(p).read())
            for func in ast.walk(t):
                if not isinstance(func, (ast.FunctionDef, ast.Lambda)):
                    continue
                local = {}
                for st in ast.walk(func):
                    if isinstance(st, ast.Assign) and len(st.targets) == 1 and isinstance(st.targets[0], ast.Name):
                        local[st.targets[0].id] = st.value
                for c in ast.walk(func):
                    if isinstance(c, ast.Call) and isinstance(c.func, ast.Attribute) and c.func.attr == 'new_symbol' \
                            and len(c.args) == 2:
                        r = c.args[1]
                        if isinstance(r, ast.Name) and r.id in local:
                            r = local[r.id]
                        if isinstance(r, ast.Tuple) and not r.elts:
                            kind = False
                        elif isinstance(r, ast.Name) and isinstance(func, ast.FunctionDef) and r.id in [a.arg for a in func.args.args]:
                            # the reserved set is a parameter of a helper: every call of the helper in this module must
                            # pass a union of `<scope>.referenced` for it
                            pos = [a.arg for a in func.args.args].index(r.id)
                            ncalls = 0
                            code_names = False
                            for caller in ast.walk(t):
                                if not isinstance(caller, ast.FunctionDef) or caller is func:
                                    continue
                                cl = {}
                                for st in ast.walk(caller):
                                    if isinstance(st, ast.Assign) and len(st.targets) == 1 and isinstance(st.targets[0], ast.Name):
                                        cl[st.targets[0].id] = st.value
                                for cc in ast.walk(caller):
                                    if isinstance(cc, ast.Call) and isinstance(cc.func, ast.Attribute) and cc.func.attr == func.name:
                                        args = cc.args
                                        a = args[pos - 1] if pos - 1 < len(args) else None      # (self is not passed explicitly)
                                        for kw in cc.keywords:
                                            if kw.arg == r.id:
                                                a = kw.value
                                        if isinstance(a, ast.Name) and a.id in cl:
                                            a = cl[a.id]
                                        if _is_code_names(a):
                                            # the names the code objects of the function refer to: a set that does not come from
                                            # the activity analysis; the table treats it like `()` (nothing is assumed about it,
                                            # a larger reserved set only removes candidates)
                                            ncalls += 1
                                            code_names = True
                                            continue
                                        if a is None or not all(isinstance(x, ast.Attribute) and x.attr == 'referenced'
                                                                for x in _union_terms(a)):
                                            raise Untranslatable('untranslatable: %s:%d: %s is called with a reserved set that is not '
                                                                 '<scope>.referenced' % (os.path.relpath(p, repo), cc.lineno, func.name))
                                        ncalls += 1
                            if not ncalls:
                                raise Untranslatable('untranslatable: %s:%d: no call of %s found' % (os.path.relpath(p, repo), c.lineno, func.name))
                            kind = not code_names
                        elif _is_code_names(r):
                            kind = False
                        else:
                            ts = _union_terms(r)
                            if not all(isinstance(x, ast.Attribute) and x.attr == 'referenced' for x in ts):
                                raise Untranslatable('untranslatable: %s:%d: reserved argument %s' % (
                                    os.path.relpath(p, repo), c.lineno, ast.unparse(c.args[1])))
                            kind = True
                        sites.append(('%s:%d' % (os.path.relpath(p, repo), c.lineno), ast.unparse(c.args[0]), kind))
    sites = sorted(set(sites))
    nsites = namer_sites(repo)
    rsites = receiver_sites(repo)
    out = ['(* GENERATED on every run by tools/translate/c11_names.py -- do not edit *)',
           'From Coq Require Import List String.', 'Import ListNotations.', 'Require Import MV.Names.Namer.',
           'Local Open Scope string_scope.',
           'Definition referenced_gen : list sfield := [%s].' % '; '.join(sorted(fields)),
           'Definition callsites_gen : list (string * string * bool) := [',
           ';\n'.join('  ("%s", "%s", %s)' % (a, b.replace('"', "'"), 'true' if k else 'false') for a, b, k in sites), '].',
           'Definition namer_sites_gen : list (string * string * bool) := [',
           ';\n'.join('  ("%s", "%s", %s)' % (a, b.replace('"', "'"), 'true' if k else 'false') for a, b, k in nsites), '].',
           'Definition receivers_gen : list (string * string * bool) := [',
           ';\n'.join('  ("%s", "%s", %s)' % (a, b.replace('"', "'"), 'true' if k else 'false') for a, b, k in rsites), '].']
    return '\n'.join(out) + '\n'


if __name__ == '__main__':
    print(translate('/repo'))
