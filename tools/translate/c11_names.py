"""Fail-closed translator for C11 -> coq/Generated/C11_gen.v

 * activity.Scope.referenced: must be a property that unions some of self.read / self.modified /
   self.bound (directly or through one local variable) and recurses on self.parent.referenced;
   emits `referenced_gen : list sfield`.
 * every call `<x>.new_symbol(<root>, <reserved>)` in malt/: the reserved argument must be `()` or a
   union of `<scope>.referenced` (directly or through one local variable assigned such a union);
   emits `callsites_gen : list (string * string * bool)` (file:line, root text, reserved-is-referenced).
"""
import ast
import os


class Untranslatable(Exception):
    pass


FIELDS = {'read': 'FRead', 'modified': 'FModified', 'bound': 'FBound', 'hidden': 'FHidden'}


def _union_terms(e):
    if isinstance(e, ast.BinOp) and isinstance(e.op, ast.BitOr):
        return _union_terms(e.left) + _union_terms(e.right)
    return [e]


def translate(repo):
    apath = os.path.join(repo, 'malt', 'pyct', 'static_analysis', 'activity.py')
    tree = ast.parse(open(apath).read())
    prop = None
    for n in ast.walk(tree):
        if isinstance(n, ast.ClassDef) and n.name == 'Scope':
            for m in n.body:
                if isinstance(m, ast.FunctionDef) and m.name == 'referenced':
                    prop = m
    if prop is None:
        raise Untranslatable('untranslatable: activity.py: Scope.referenced not found')
    fields = set()
    recurses = False
    env = {}
    returns = 0

    def terms(e):
        out = []
        for t in _union_terms(e):
            if isinstance(t, ast.Name) and t.id in env:
                out += env[t.id]
            else:
                out.append(t)
        return out
    for st in ast.walk(prop):
        if isinstance(st, ast.Assign) and len(st.targets) == 1 and isinstance(st.targets[0], ast.Name):
            env[st.targets[0].id] = terms(st.value)
    for st in ast.walk(prop):
        if isinstance(st, ast.Return):
            returns += 1
            for t in terms(st.value):
                s = ast.unparse(t)
                if s == 'self.parent.referenced':
                    recurses = True
                elif s.startswith('self.') and s[5:] in FIELDS:
                    fields.add(FIELDS[s[5:]])
                else:
                    raise Untranslatable('untranslatable: activity.py:%d: term %s in Scope.referenced' % (st.lineno, s))
    if not recurses or not returns:
        raise Untranslatable('untranslatable: activity.py:%d: Scope.referenced does not include parent.referenced' % prop.lineno)
    # every return must have the same own-fields (checked loosely: the union over returns is what all returns use)
    sites = []
    for d, _, fs in os.walk(os.path.join(repo, 'malt')):
        for fn in sorted(fs):
            if not fn.endswith('.py'):
                continue
            p = os.path.join(d, fn)
            t = ast.parse(open(p).read())
            for func in ast.walk(t):
                if not isinstance(func, (ast.FunctionDef, ast.Lambda)):
                    continue
                local = {}
                for st in ast.walk(func):
                    if isinstance(st, ast.Assign) and len(st.targets) == 1 and isinstance(st.targets[0], ast.Name):
                        local[st.targets[0].id] = st.value
                for c in ast.walk(func):
                    if isinstance(c, ast.Call) and isinstance(c.func, ast.Attribute) and c.func.attr == 'new_symbol' \
                            and len(c.args) == 2:
                        r = c.args[1]
                        if isinstance(r, ast.Name) and r.id in local:
                            r = local[r.id]
                        if isinstance(r, ast.Tuple) and not r.elts:
                            kind = False
                        elif isinstance(r, ast.Name) and isinstance(func, ast.FunctionDef) and r.id in [a.arg for a in func.args.args]:
                            # the reserved set is a parameter of a helper: every call of the helper in this module must
                            # pass a union of `<scope>.referenced` for it
                            pos = [a.arg for a in func.args.args].index(r.id)
                            ncalls = 0
                            for caller in ast.walk(t):
                                if not isinstance(caller, ast.FunctionDef) or caller is func:
                                    continue
                                cl = {}
                                for st in ast.walk(caller):
                                    if isinstance(st, ast.Assign) and len(st.targets) == 1 and isinstance(st.targets[0], ast.Name):
                                        cl[st.targets[0].id] = st.value
                                for cc in ast.walk(caller):
                                    if isinstance(cc, ast.Call) and isinstance(cc.func, ast.Attribute) and cc.func.attr == func.name:
                                        args = cc.args
                                        a = args[pos - 1] if pos - 1 < len(args) else None      # (self is not passed explicitly)
                                        for kw in cc.keywords:
                                            if kw.arg == r.id:
                                                a = kw.value
                                        if isinstance(a, ast.Name) and a.id in cl:
                                            a = cl[a.id]
                                        if a is None or not all(isinstance(x, ast.Attribute) and x.attr == 'referenced'
                                                                for x in _union_terms(a)):
                                            raise Untranslatable('untranslatable: %s:%d: %s is called with a reserved set that is not '
                                                                 '<scope>.referenced' % (os.path.relpath(p, repo), cc.lineno, func.name))
                                        ncalls += 1
                            if not ncalls:
                                raise Untranslatable('untranslatable: %s:%d: no call of %s found' % (os.path.relpath(p, repo), c.lineno, func.name))
                            kind = True
                        else:
                            ts = _union_terms(r)
                            if not all(isinstance(x, ast.Attribute) and x.attr == 'referenced' for x in ts):
                                raise Untranslatable('untranslatable: %s:%d: reserved argument %s' % (
                                    os.path.relpath(p, repo), c.lineno, ast.unparse(c.args[1])))
                            kind = True
                        sites.append(('%s:%d' % (os.path.relpath(p, repo), c.lineno), ast.unparse(c.args[0]), kind))
    sites = sorted(set(sites))
    out = ['(* GENERATED on every run by tools/translate/c11_names.py -- do not edit *)',
           'From Coq Require Import List String.', 'Import ListNotations.', 'Require Import MV.Names.Namer.',
           'Local Open Scope string_scope.',
           'Definition referenced_gen : list sfield := [%s].' % '; '.join(sorted(fields)),
           'Definition callsites_gen : list (string * string * bool) := [',
           ';\n'.join('  ("%s", "%s", %s)' % (a, b.replace('"', "'"), 'true' if k else 'false') for a, b, k in sites), '].']
    return '\n'.join(out) + '\n'


if __name__ == '__main__':
    print(translate('/repo'))
