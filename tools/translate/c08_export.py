"""C08 exporter: Python `ast` (a FunctionDef) -> term of coq/Scope/Ast.v, and -- from a tree annotated
by qual_names.resolve + activity.resolve -- the recorded scopes in the order of Activity.records.

Fails closed (`Unsupported`) on every node / shape outside the model:
  async constructs, match, try*, type parameters, yield / await, walrus inside a comprehension,
  comprehension targets other than (tuples / lists of) names, lambdas or comprehensions inside a parameter
  annotation.  Programs outside the model are still judged by the property-level oracle.
"""
import ast

T_STMT, T_COND, T_BLOCK, T_ITER, T_ITERATE, T_ARGS, T_BODY, T_FN = 1, 2, 3, 5, 6, 7, 8, 9

STMT_KINDS = (ast.Expr, ast.Return, ast.Raise, ast.Assign, ast.Delete, ast.Assert, ast.Import, ast.ImportFrom)
GENERIC = (ast.BoolOp, ast.BinOp, ast.UnaryOp, ast.IfExp, ast.Dict, ast.Set, ast.Compare, ast.Call, ast.FormattedValue,
           ast.JoinedStr, ast.Starred, ast.List, ast.Tuple, ast.Slice, ast.keyword, ast.Pass, ast.Break, ast.Continue,
           ast.Try, ast.NamedExpr)


class Unsupported(Exception):
    pass


class Names(object):
    def __init__(self):
        self.ids = {'__init__': 0, 'self': 1}
        self.lits = {}

    def n(self, s):
        if s not in self.ids:
            self.ids[s] = len(self.ids)
        return self.ids[s]

    def lit(self, v):
        key = ('L', v)          # Literal is a namedtuple: equality / hash of the value
        try:
            hash(key)
        except TypeError:
            raise Unsupported('unhashable literal')
        if key not in self.lits:
            self.lits[key] = len(self.lits)
        return self.lits[key]

    def count(self):
        return len(self.ids)


def N(kind, children):
    out = 'NNil'
    for c in reversed(children):
        out = '(NCons %s %s)' % (c, out)
    return '(N %s %s)' % (kind, out)


def nat_list(xs):
    return '[' + '; '.join(str(x) for x in xs) + ']'


class Exporter(object):
    """export(fn) -> term ; if `scopes` is given (callable node, tag -> Scope or None) the expected records are
    collected in self.records, in the order of Activity.records."""

    def __init__(self, names=None, scopes=None):
        self.names = names or Names()
        self.scopes = scopes
        self.records = []
        self.in_comp = 0
        self.in_annot = 0
        self.kinds = {}
        self.functions = []         # def / lambda nodes, pre-order (= ScopeCheck.fns)
        self.overwritten = set()    # lambdas whose own SCOPE annotation is overwritten by visit_If / While / For

    def rec(self, node, tag, key):
        if self.scopes is not None:
            self.records.append((tag, self.scopes(node, key)))

    def ctx(self, node):
        c = node.ctx
        if isinstance(c, ast.Load):
            return 'Load'
        if isinstance(c, ast.Store):
            return 'Store'
        if isinstance(c, ast.Del):
            return 'Del'
        raise Unsupported('context')

    def gen(self, nodes):
        return N('KGen', [self.ex(n) for n in nodes])

    def block(self, owner, nodes, key):
        self.rec(owner, T_BLOCK, key)
        return N('KBlock', [self.ex(n) for n in nodes])

    def args(self, a):
        dflt = [d for d in a.kw_defaults if d is not None] + list(a.defaults)
        decls = list(a.posonlyargs) + list(a.args) + ([a.vararg] if a.vararg else []) + list(a.kwonlyargs) + \
            ([a.kwarg] if a.kwarg else [])
        d = self.gen(dflt)
        self.in_annot += 1
        ds = []
        for p in decls:
            if getattr(p, 'type_comment', None):
                raise Unsupported('type comment')
            ds.append(N('(KArg %d)' % self.names.n(p.arg), [self.ex(p.annotation)] if p.annotation is not None else []))
        self.in_annot -= 1
        return N('KArgs', [d, N('KGen', ds)])

    def comp_target_ok(self, t):
        if isinstance(t, ast.Name):
            return True
        if isinstance(t, (ast.Tuple, ast.List)):
            return all(self.comp_target_ok(e) for e in t.elts)
        if isinstance(t, ast.Starred):
            return self.comp_target_ok(t.value)
        return False

    def ex(self, n):
        k = type(n).__name__
        self.kinds[k] = self.kinds.get(k, 0) + 1
        nm = self.names
        if isinstance(n, ast.Name):
            return N('(KName %d %s)' % (nm.n(n.id), self.ctx(n)), [])
        if isinstance(n, ast.Constant):
            if n.value is Ellipsis:
                return N('(KConst None)', [])
            return N('(KConst (Some %d))' % nm.lit(n.value), [])
        if isinstance(n, ast.Attribute):
            return N('(KAttr %d %s)' % (nm.n(n.attr), self.ctx(n)), [self.ex(n.value)])
        if isinstance(n, ast.Subscript):
            return N('(KSub %s)' % self.ctx(n), [self.ex(n.value), self.ex(n.slice)])
        if isinstance(n, ast.NamedExpr) and self.in_comp:
            raise Unsupported('walrus inside a comprehension')
        if isinstance(n, ast.Call):
            # visit_Call: args, keywords (their own transparent ARGS_SCOPE), then func
            return self.gen(list(n.args) + list(n.keywords) + [n.func])
        if isinstance(n, GENERIC):
            if isinstance(n, ast.Try):
                return self.gen(list(n.body) + list(n.handlers) + list(n.orelse) + list(n.finalbody))
            if isinstance(n, ast.Dict):
                return self.gen([x for x in n.keys if x is not None] + list(n.values))
            return self.gen([c for c in ast.iter_child_nodes(n) if not isinstance(c, (ast.expr_context, ast.operator, ast.unaryop, ast.boolop, ast.cmpop))])
        if isinstance(n, STMT_KINDS):
            self.rec(n, T_STMT, 'SCOPE')
            if isinstance(n, (ast.Import, ast.ImportFrom)):
                ch = []
                for a in n.names:
                    bound = a.asname if a.asname is not None else a.name.split('.')[0]
                    if bound == '*':
                        raise Unsupported('import *')
                    ch.append(N('(KAlias %d)' % nm.n(bound), []))
                return N('KStmt', ch)
            return N('KStmt', [self.ex(c) for c in ast.iter_child_nodes(n)])
        if isinstance(n, ast.withitem):
            self.rec(n, T_STMT, 'SCOPE')
            return N('KStmt', [self.ex(n.context_expr)] + ([self.ex(n.optional_vars)] if n.optional_vars is not None else []))
        if isinstance(n, ast.AugAssign):
            self.rec(n, T_STMT, 'SCOPE')
            return N('KAug', [self.ex(n.target), self.ex(n.value)])
        if isinstance(n, ast.AnnAssign):
            if isinstance(n.target, ast.Name) and not n.simple and n.value is None:
                # `(x): T`: CPython does not bind x (known finding activity-parenthesized-annotation-binds); the
                # tree has no `simple` flag, so the binding rule of Binders.v cannot express it
                raise Unsupported('value-less annotated assignment to a parenthesised name')
            self.rec(n, T_STMT, 'SCOPE')
            t = self.ex(n.target)
            v = self.gen([n.value] if n.value is not None else [])
            return N('KAnn', [t, v, self.ex(n.annotation)])
        if isinstance(n, ast.Global):
            self.rec(n, T_STMT, 'SCOPE')
            return N('(KGlobal %s)' % nat_list(nm.n(x) for x in n.names), [])
        if isinstance(n, ast.Nonlocal):
            self.rec(n, T_STMT, 'SCOPE')
            return N('(KNonlocal %s)' % nat_list(nm.n(x) for x in n.names), [])
        if isinstance(n, (ast.If, ast.While)):
            self.rec(n.test, T_COND, 'SCOPE')
            self.overwritten.add(id(n.test))
            t = self.ex(n.test)
            b = self.block(n, n.body, 'BODY_SCOPE')
            o = self.block(n, n.orelse, 'ORELSE_SCOPE')
            return N('KIf' if isinstance(n, ast.If) else 'KWhile', [t, b, o])
        if isinstance(n, ast.For):
            if getattr(n, 'type_comment', None):
                raise Unsupported('type comment')
            self.rec(n.iter, T_ITER, 'SCOPE')
            self.overwritten.add(id(n.iter))
            self.rec(n, T_ITERATE, 'ITERATE_SCOPE')
            t = self.ex(n.target)
            i = self.ex(n.iter)
            b = self.block(n, n.body, 'BODY_SCOPE')
            o = self.block(n, n.orelse, 'ORELSE_SCOPE')
            return N('KFor', [t, i, b, o])
        if isinstance(n, ast.With):
            self.rec(n, T_BLOCK, 'BODY_SCOPE')
            return N('KWith', [self.ex(i) for i in n.items] + [self.ex(s) for s in n.body])
        if isinstance(n, ast.ExceptHandler):
            ch = ([self.ex(n.type)] if n.type is not None else []) + [self.ex(s) for s in n.body]
            return N('(KHandler %s)' % ('None' if n.name is None else '(Some %d)' % nm.n(n.name)), ch)
        if isinstance(n, ast.FunctionDef):
            if getattr(n, 'type_params', None):
                raise Unsupported('type parameters')
            if self.in_comp or self.in_annot:
                raise Unsupported('def in expression')
            self.functions.append(n)
            self.rec(n, T_STMT, 'SCOPE')
            self.rec(n.args, T_ARGS, 'SCOPE')
            self.rec(n, T_BODY, 'BODY_SCOPE')
            self.rec(n, T_FN, 'ARGS_AND_BODY_SCOPE')
            d = self.gen(n.decorator_list)
            r = self.gen([n.returns] if n.returns is not None else [])
            a = self.args(n.args)
            b = self.gen(n.body)
            return N('(KDef %d)' % nm.n(n.name), [d, r, a, b])
        if isinstance(n, ast.Lambda):
            if self.in_annot:
                raise Unsupported('lambda inside a parameter annotation')
            self.functions.append(n)
            if id(n) in self.overwritten:
                if self.scopes is not None:
                    self.records.append((0, self.scopes(n, 'SCOPE')))
            else:
                self.rec(n, T_STMT, 'SCOPE')
            self.rec(n.args, T_ARGS, 'SCOPE')
            self.rec(n, T_BODY, 'BODY_SCOPE')
            self.rec(n, T_FN, 'ARGS_AND_BODY_SCOPE')
            a = self.args(n.args)
            b = self.ex(n.body)
            return N('KLambda', [a, b])
        if isinstance(n, ast.ClassDef):
            if getattr(n, 'type_params', None):
                raise Unsupported('type parameters')
            self.rec(n, T_STMT, 'SCOPE')
            d = self.gen(n.decorator_list)
            b = self.gen(list(n.bases) + list(n.keywords))
            body = self.gen(n.body)
            return N('(KClass %d)' % nm.n(n.name), [d, b, body])
        if isinstance(n, (ast.ListComp, ast.SetComp, ast.GeneratorExp, ast.DictComp)):
            if self.in_annot:
                raise Unsupported('comprehension inside a parameter annotation')
            self.in_comp += 1
            gens = []
            for g in n.generators:
                if not self.comp_target_ok(g.target):
                    raise Unsupported('comprehension target')
                gens.append(N('KCompFor', [self.ex(g.target), self.ex(g.iter), self.gen(g.ifs)]))
            elts = [n.key, n.value] if isinstance(n, ast.DictComp) else [n.elt]
            e = self.gen(elts)
            self.in_comp -= 1
            return N('KComp', [N('KGen', gens), e])
        raise Unsupported(type(n).__name__)


# ---------------------------------------------------------------------------------------------
def qn_term(q, names):
    from malt.pyct import qual_names
    if q.has_attr():
        return '(QA %s %d)' % (qn_term(q.parent, names), names.n(q.qn[1]))
    if q.has_subscript():
        return '(QI %s %s)' % (qn_term(q.parent, names), qn_term(q.qn[1], names))
    base = q.qn[0]
    if isinstance(base, qual_names.Literal):
        return '(QL %d)' % names.lit(base.value)
    return '(QS %d)' % names.n(base)


def qn_set(s, names):
    return '[' + '; '.join(sorted(qn_term(q, names) for q in s)) + ']'


def scope_term(sc, names):
    return '(mksc %s %s %s %s %s %s %s %s)' % (
        qn_set(sc.read, names), qn_set(sc.modified, names), qn_set(sc.bound, names), qn_set(sc.deleted, names),
        qn_set(sc.globals, names), qn_set(sc.nonlocals, names), qn_set(list(sc.params.keys()), names),
        qn_set(sc.isolated_names, names))


def analyze(src):
    """parse + qual_names.resolve + activity.resolve, as PyToPy.initial_analysis does -> annotated FunctionDef"""
    from malt.pyct import qual_names, transformer, naming
    from malt.pyct.static_analysis import activity
    tree = ast.parse(src)
    node = tree.body[0]
    node = qual_names.resolve(node)
    ei = transformer.EntityInfo(name='f', source_code=src, source_file=None, future_features=(), namespace={})
    ctx = transformer.Context(ei, naming.Namer({}), None)
    return activity.resolve(node, ctx, None)


def get_scope(node, key):
    from malt.pyct import anno
    from malt.pyct.static_analysis.annos import NodeAnno
    tag = anno.Static.SCOPE if key == 'SCOPE' else getattr(NodeAnno, key)
    return anno.getanno(node, tag, default=None)


def scope_case(idx, src):
    """-> (coq text of one Scope.ScopeCheck.scope_case, Exporter) ; raises Unsupported"""
    node = analyze(src)
    ex = Exporter(scopes=get_scope)
    term = ex.ex(node)
    recs = []
    for tag, sc in ex.records:
        if sc is None:
            raise Unsupported('scope annotation missing')   # judged by the oracle (missing annotation = failure there)
        recs.append('(%d, %s)' % (tag, scope_term(sc, ex.names)))
    return '(%d, %s, [%s])' % (idx, term, '; '.join(recs)), ex
