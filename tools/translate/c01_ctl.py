"""Fail-closed translator: malt/operators/control_flow.py -> coq/Generated/C01_ctl_gen.v (term `ctl_ops_gen` of
coq/Ops/CtlOps.v): the bodies of the default (pure-Python) implementations of if_stmt, while_stmt and for_stmt.

Recognised (anything else raises Untranslatable -> the tie is broken):
  if_stmt / while_stmt      body = docstring + one call `_py_X(<own parameters>)`
  for_stmt                  try: for_fn = for_loop_registry.lookup(iter_) / except LookupError: for_fn = _py_for_stmt
                            for_fn(<all own parameters in order>); the registry is created empty in this module and
                            nothing in the package registers an entry
  _py_* bodies              del <parameters> (never used afterwards); local `def g(): r = P(); return bool(r)` with P
                            one of test / extra_test (g() then means "the test"); if / while / `for target in iter_` /
                            break / `body()` / `body(target)` / `orelse()` / `return X() if cond else Y()`
  conditions                g() | cond | not E | extra_test is not None
"""
import ast
import os


class Untranslatable(Exception):
    pass


def _fail(node, msg):
    raise Untranslatable('untranslatable: operators/control_flow.py:%s: %s' % (getattr(node, 'lineno', '?'), msg))


def _body(fn):
    b = list(fn.body)
    if b and isinstance(b[0], ast.Expr) and isinstance(b[0].value, ast.Constant) and isinstance(b[0].value.value, str):
        b = b[1:]
    return b


def _params(fn):
    a = fn.args
    if a.vararg or a.kwarg or a.kwonlyargs or a.defaults or a.posonlyargs:
        _fail(fn, 'parameter list of ' + fn.name)
    return [x.arg for x in a.args]


def _is_call(e, name, args):
    return isinstance(e, ast.Call) and isinstance(e.func, ast.Name) and e.func.id == name and not e.keywords \
        and [a.id if isinstance(a, ast.Name) else None for a in e.args] == list(args)


class PyImpl(object):
    def __init__(self, fn, test_param):
        self.fn = fn
        self.params = _params(fn)
        self.test_param = test_param      # 'test' or 'extra_test'
        self.guards = set()
        self.deleted = set()

    def block(self, stmts):
        out = 'BNil'
        items = [t for t in (self.stmt(s) for s in stmts) if t is not None]
        for t in reversed(items):
            out = 'BCons (%s) (%s)' % (t, out)
        return out

    def cond(self, e):
        if isinstance(e, ast.Call) and isinstance(e.func, ast.Name) and e.func.id in self.guards and not e.args and not e.keywords:
            return 'XTest'
        if isinstance(e, ast.Name) and e.id == 'cond' and 'cond' in self.params:
            return 'XCond'
        if isinstance(e, ast.UnaryOp) and isinstance(e.op, ast.Not):
            return 'XNot (%s)' % self.cond(e.operand)
        if isinstance(e, ast.Compare) and len(e.ops) == 1 and isinstance(e.ops[0], ast.IsNot) and isinstance(e.left, ast.Name) \
                and e.left.id == 'extra_test' and isinstance(e.comparators[0], ast.Constant) and e.comparators[0].value is None:
            return 'XHasExtra'
        _fail(e, 'condition ' + ast.dump(e))

    def call(self, e):
        if _is_call(e, 'body', []) or _is_call(e, 'body', ['target']):
            return 'SBody'
        if _is_call(e, 'orelse', []):
            return 'SOrelse'
        _fail(e, 'call ' + ast.dump(e))

    def guard_def(self, d):
        if _params(d):
            _fail(d, 'local function with parameters')
        b = _body(d)
        p = self.test_param
        ok = False
        if len(b) == 2 and isinstance(b[0], ast.Assign) and len(b[0].targets) == 1 and isinstance(b[0].targets[0], ast.Name) \
                and _is_call(b[0].value, p, []) and isinstance(b[1], ast.Return) and _is_call(b[1].value, 'bool', [b[0].targets[0].id]):
            ok = True
        if len(b) == 1 and isinstance(b[0], ast.Return) and isinstance(b[0].value, ast.Call) and isinstance(b[0].value.func, ast.Name) \
                and b[0].value.func.id == 'bool' and len(b[0].value.args) == 1 and _is_call(b[0].value.args[0], p, []):
            ok = True
        if not ok:
            _fail(d, 'local function %s is not `return bool(%s())`' % (d.name, p))
        self.guards.add(d.name)

    def stmt(self, s):
        if isinstance(s, ast.Delete):
            for t in s.targets:
                if not (isinstance(t, ast.Name) and t.id in self.params):
                    _fail(s, 'del of something that is not a parameter')
                self.deleted.add(t.id)
            return None
        if isinstance(s, ast.FunctionDef):
            self.guard_def(s)
            return None
        if isinstance(s, ast.If):
            return 'SIf (%s) (%s) (%s)' % (self.cond(s.test), self.block(s.body), self.block(s.orelse))
        if isinstance(s, ast.While):
            if s.orelse:
                _fail(s, 'while-else')
            return 'SWhile (%s) (%s)' % (self.cond(s.test), self.block(s.body))
        if isinstance(s, ast.For):
            if s.orelse or not (isinstance(s.target, ast.Name) and s.target.id == 'target' and isinstance(s.iter, ast.Name)
                                and s.iter.id == 'iter_'):
                _fail(s, 'for loop shape')
            return 'SFor (%s)' % self.block(s.body)
        if isinstance(s, ast.Break):
            return 'SBreak'
        if isinstance(s, ast.Expr):
            return self.call(s.value)
        if isinstance(s, ast.Return) and isinstance(s.value, ast.IfExp):
            return 'SIf (%s) (one %s) (one %s)' % (self.cond(s.value.test), self.call(s.value.body), self.call(s.value.orelse))
        _fail(s, 'statement ' + type(s).__name__)

    def translate(self):
        term = self.block(_body(self.fn))
        used = set(n.id for n in ast.walk(self.fn) if isinstance(n, ast.Name) and isinstance(n.ctx, ast.Load))
        if used & self.deleted:
            _fail(self.fn, 'deleted parameter used: %s' % sorted(used & self.deleted))
        return term


def translate(repo):
    path = os.path.join(repo, 'malt', 'operators', 'control_flow.py')
    tree = ast.parse(open(path).read())
    fns = {n.name: n for n in tree.body if isinstance(n, ast.FunctionDef)}
    for need in ('if_stmt', 'while_stmt', 'for_stmt', '_py_if_stmt', '_py_while_stmt', '_py_for_stmt'):
        if need not in fns:
            raise Untranslatable('untranslatable: operators/control_flow.py: %s not found' % need)
    # dispatchers
    for name, impl in (('if_stmt', '_py_if_stmt'), ('while_stmt', '_py_while_stmt')):
        b = _body(fns[name])
        ip = _params(fns[impl])
        if not (len(b) == 1 and isinstance(b[0], ast.Expr) and _is_call(b[0].value, impl, ip) and set(ip) <= set(_params(fns[name]))):
            _fail(fns[name], '%s does not simply call %s with its own parameters' % (name, impl))
    f = fns['for_stmt']
    b = _body(f)
    fp = _params(f)
    ok = len(b) == 2 and isinstance(b[0], ast.Try) and not b[0].orelse and not b[0].finalbody and len(b[0].handlers) == 1 \
        and len(b[0].body) == 1 and isinstance(b[0].body[0], ast.Assign) and isinstance(b[0].body[0].targets[0], ast.Name) \
        and b[0].body[0].targets[0].id == 'for_fn' and isinstance(b[0].body[0].value, ast.Call) \
        and ast.unparse(b[0].body[0].value) == 'for_loop_registry.lookup(iter_)' \
        and isinstance(b[0].handlers[0].type, ast.Name) and b[0].handlers[0].type.id == 'LookupError' \
        and len(b[0].handlers[0].body) == 1 and ast.unparse(b[0].handlers[0].body[0]) == 'for_fn = _py_for_stmt' \
        and isinstance(b[1], ast.Expr) and _is_call(b[1].value, 'for_fn', fp) and fp == _params(fns['_py_for_stmt'])
    if not ok:
        _fail(f, 'for_stmt dispatch shape')
    regs = [n for n in tree.body if isinstance(n, ast.Assign) and ast.unparse(n.targets[0]) == 'for_loop_registry']
    if len(regs) != 1 or ast.unparse(regs[0].value) != 'type_registry.TypeRegistry()':
        _fail(f, 'for_loop_registry is not created empty')
    # nothing in the package registers a for-loop implementation
    for root, _dirs, files in os.walk(os.path.join(repo, 'malt')):
        for fn in files:
            if fn.endswith('.py'):
                text = open(os.path.join(root, fn)).read()
                if 'for_loop_registry.register' in text:
                    raise Untranslatable('untranslatable: %s registers a for-loop implementation' % os.path.join(root, fn))
    t_if = PyImpl(fns['_py_if_stmt'], 'test').translate()
    t_while = PyImpl(fns['_py_while_stmt'], 'test').translate()
    t_for = PyImpl(fns['_py_for_stmt'], 'extra_test').translate()
    out = ['(* GENERATED on every run by tools/translate/c01_ctl.py from malt/operators/control_flow.py -- do not edit *)',
           'Require Import MV.Ops.CtlOps.',
           'Definition ctl_ops_gen : ctl_ops :=',
           '  {| op_if := %s;' % t_if,
           '     op_while := %s;' % t_while,
           '     op_for := %s |}.' % t_for]
    return '\n'.join(out) + '\n'


if __name__ == '__main__':
    import sys
    print(translate(sys.argv[1] if len(sys.argv) > 1 else '/repo'))
