"""Translator (G) for C07: liveness.Analyzer.visit_node -> set-algebra expressions of coq/Flow/SetExpr.v.
The symbolic executor and the list of recognised statement shapes are in c06_transfer.py (shared engine);
unknown shapes fail closed.  Also extracted: the default of resolve(include_annotations=...), which maps
the TreeAnnotator reads (in_ / out / stmt_next) when it writes LIVE_VARS_IN / LIVE_VARS_OUT."""
import os

from translate.c06_transfer import Engine, Untranslatable, HEADER, resolve_default, annotator_maps


def translate_liveness(repo):
    rel = 'malt/pyct/static_analysis/liveness.py'
    path = os.path.join(repo, rel)
    e = Engine(path).run()
    dflt = resolve_default(path, 'include_annotations')
    if dflt not in (True, False):
        raise Untranslatable('untranslatable: %s: default of include_annotations' % path)
    maps = annotator_maps(path, 'TreeAnnotator', {'visit': 1, '_block_statement_live_out': 2,
                                                  '_block_statement_live_in': 1, 'visit_Expr': 1})
    if maps['visit'] != ['in_'] or maps['_block_statement_live_out'] != ['stmt_next', 'in_'] or \
            maps['_block_statement_live_in'] != ['in_'] or maps['visit_Expr'] != ['out']:
        raise Untranslatable('untranslatable: %s: TreeAnnotator reads %r' % (path, maps))
    # control_flow.transform must call liveness.resolve without overriding include_annotations
    cf = os.path.join(repo, 'malt/converters/control_flow.py')
    with open(cf) as f:
        src = f.read()
    import ast
    calls = [n for n in ast.walk(ast.parse(src)) if isinstance(n, ast.Call) and ast.unparse(n.func) == 'liveness.resolve']
    if len(calls) != 1 or len(calls[0].args) != 3 or calls[0].keywords:
        raise Untranslatable('untranslatable: %s: call of liveness.resolve' % cf)
    txt = HEADER % ('c07_transfer.py', rel)
    for v in ('scoped', 'ignored'):
        txt += 'Definition lv_%s_in : sx := %s.\n' % (v, e.result[v]['in_'])
        txt += 'Definition lv_%s_out : sx := %s.\n' % (v, e.result[v]['out'])
    txt += 'Definition lv_join_over_next : bool := %s.\n' % ('true' if e.join[0] == 'next' else 'false')
    txt += 'Definition lv_join_reads_in : bool := %s.\n' % ('true' if e.join[1] == 'in_' else 'false')
    txt += 'Definition lv_changed_compares_in : bool := %s.\n' % ('true' if 'in_' in e.compared_maps else 'false')
    txt += 'Definition lv_include_annotations : bool := %s.\n' % ('true' if dflt else 'false')
    return txt


if __name__ == '__main__':
    import sys
    print(translate_liveness(sys.argv[1] if len(sys.argv) > 1 else '/repo'))
