"""Fail-closed syntactic translator: malt/pyct/parser.py -> coq/Generated/C15_gen.v

Recognised shapes (anything else raises Untranslatable -> tie broken):
  _unfold_continuations(code_string)   return code_string.replace('\\\\\\n', '')      (checked, nothing emitted: the
                                       Coq function unfold_cont is this replacement)
  _parse_lambda(lam)
    shortlist loop     for node in all_nodes:
                         if getattr(node, 'lineno', def_line) <= def_line: search_nodes.append(node)
                         else: break                                             (checked; model: shortlist)
    candidate filter   if minl <op1> def_line <op2> maxl: candidates.append((ln, minl, maxl))   op in {<=, <}
                       -> span_ops
    decision chain     the statements after the candidate loop, in order:
                         if/elif <cond>: <action>      cond   ::= len(L) == n | len(L) >= n | len(L) > n | not L | L
                         matches = [v for v in candidates if _node_matches_argspec(v[0], lam)]
                         <assignments building a message>; raise ...
                       action ::= (node, minl, maxl), = L ; return _without_context(node, lines, minl, maxl)   ARetOnly
                                | node, minl, maxl = L[0] / L[-1] ; return _without_context(node, ...)         ARetFirst/Last
                                | [assignments]; raise ...                                                    ARaise
                       with L in {candidates, matches}                           -> select_rules
  file coordinates   _parse_lambda:  def_line = lam.__code__.co_firstlineno ; lines = linecache.getlines(f, mod.__dict__) ;
                     source = ''.join(lines) ; all_nodes = parse(source, preamble_len=0, single_node=False), each of
                     these names bound exactly once                                        (checked)
                     parse(src, preamble_len=0, single_node=True):  module_node = ast.parse(<text>) ;
                     nodes = module_node.body ; if preamble_len: nodes = nodes[preamble_len:] ; single_node check ;
                     return nodes -- <text> ::= src | src.rstrip() | src.lstrip() | src.strip()   -> parse_norm
                     (the line numbers of the tree are compared with co_firstlineno, a line number of the FILE)
  statelessness      parser.py: _unfold_continuations, dedent_block, parse_entity, _without_context, _arg_name,
                     _node_matches_argspec, _parse_lambda, parse; inspect_utils.py: getimmediatesource,
                     _fix_linecache_record -- the recovery path must carry no state between calls other than
                     linecache: no `global` / `nonlocal`, no store / delete / augmented assignment through a
                     subscript or attribute of a module-level name, no mutating method call (append, add, update,
                     setdefault, pop, clear, ...) on a module-level name; getimmediatesource must still call
                     inspect.findsource and inspect.getblock.  (checked, `recovery_stateless := true` emitted)
  _node_matches_argspec(node, func)    assignments; `if A != B: return False` ...; return True, each comparison
                                       naming one of arg_spec.args / .varargs / .varkw / .kwonlyargs
                                       (CompArgsPos when node.args.posonlyargs takes part in the args comparison)
                                       -> match_components
"""
import ast
import os


class Untranslatable(Exception):
    pass


def _fail(node, msg):
    raise Untranslatable('untranslatable: parser.py:%s: %s' % (getattr(node, 'lineno', '?'), msg))


LISTS = {'candidates': 'Cands', 'matches': 'Matches'}


def _lst(node):
    if isinstance(node, ast.Name) and node.id in LISTS:
        return LISTS[node.id]
    _fail(node, 'expected candidates/matches, got ' + ast.unparse(node))


def _cond(t):
    if isinstance(t, ast.Compare) and len(t.ops) == 1 and isinstance(t.left, ast.Call) \
            and isinstance(t.left.func, ast.Name) and t.left.func.id == 'len' and len(t.left.args) == 1 \
            and isinstance(t.comparators[0], ast.Constant) and isinstance(t.comparators[0].value, int):
        l = _lst(t.left.args[0])
        n = t.comparators[0].value
        op = t.ops[0]
        if isinstance(op, ast.Eq):
            return 'CLenEq %s %d' % (l, n)
        if isinstance(op, ast.GtE):
            return 'CLenGe %s %d' % (l, n)
        if isinstance(op, ast.Gt):
            return 'CLenGe %s %d' % (l, n + 1)
        _fail(t, 'comparison operator in ' + ast.unparse(t))
    if isinstance(t, ast.UnaryOp) and isinstance(t.op, ast.Not):
        return 'CEmpty %s' % _lst(t.operand)
    if isinstance(t, ast.Name):
        return 'CNonEmpty %s' % _lst(t)
    _fail(t, 'condition shape ' + ast.unparse(t))


def _names(t):
    return [e.id for e in t.elts] if isinstance(t, ast.Tuple) and all(isinstance(e, ast.Name) for e in t.elts) else None


def _action(body):
    last = body[-1]
    if isinstance(last, ast.Raise):
        for s in body[:-1]:
            if not isinstance(s, ast.Assign):
                _fail(s, 'statement before raise')
        return 'ARaise'
    if not (isinstance(last, ast.Return) and isinstance(last.value, ast.Call)
            and ast.unparse(last.value.func) == '_without_context' and len(body) == 2
            and isinstance(body[0], ast.Assign) and len(body[0].targets) == 1):
        _fail(last, 'action shape')
    args = [ast.unparse(a) for a in last.value.args]
    tgt, val = body[0].targets[0], body[0].value
    if isinstance(tgt, ast.Tuple) and len(tgt.elts) == 1 and _names(tgt.elts[0]) is not None:
        names = _names(tgt.elts[0])
        act = 'ARetOnly %s' % _lst(val)
    elif _names(tgt) is not None and isinstance(val, ast.Subscript) and isinstance(val.slice, (ast.Constant, ast.UnaryOp)):
        names = _names(tgt)
        idx = ast.literal_eval(val.slice)
        if idx == 0:
            act = 'ARetFirst %s' % _lst(val.value)
        elif idx == -1:
            act = 'ARetLast %s' % _lst(val.value)
        else:
            _fail(val, 'index')
    else:
        _fail(body[0], 'unpacking shape')
    if len(names) != 3 or args != [names[0], 'lines', names[1], names[2]]:
        _fail(last, 'the returned node is not the unpacked one')
    return act


def _rules(stmts):
    rules = []
    seen_matches = False
    i = 0
    while i < len(stmts):
        s = stmts[i]
        if isinstance(s, ast.If):
            cur = s
            while True:
                rules.append('(%s, %s)' % (_cond(cur.test), _action(cur.body)))
                if not cur.orelse:
                    break
                if len(cur.orelse) == 1 and isinstance(cur.orelse[0], ast.If):
                    cur = cur.orelse[0]
                    continue
                rules.append('(CTrue, %s)' % _action(cur.orelse))
                return rules
            i += 1
        elif isinstance(s, ast.Assign) and len(s.targets) == 1 and isinstance(s.targets[0], ast.Name) \
                and s.targets[0].id == 'matches' and not seen_matches:
            v = s.value
            ok = (isinstance(v, ast.ListComp) and len(v.generators) == 1
                  and isinstance(v.generators[0].target, ast.Name)
                  and ast.unparse(v.elt) == v.generators[0].target.id
                  and ast.unparse(v.generators[0].iter) == 'candidates'
                  and len(v.generators[0].ifs) == 1
                  and ast.unparse(v.generators[0].ifs[0]) == '_node_matches_argspec(%s[0], lam)' % v.generators[0].target.id)
            if not ok:
                _fail(s, 'definition of matches')
            seen_matches = True
            i += 1
        else:
            rules.append('(CTrue, %s)' % _action(stmts[i:]))
            return rules
    _fail(stmts[-1] if stmts else None, 'decision chain falls off the end of the function')


MUTATORS = {'append', 'extend', 'insert', 'add', 'update', 'setdefault', 'pop', 'popitem', 'clear', 'remove',
            'discard', '__setitem__', '__delitem__', 'sort', 'reverse'}
RECOVERY = {'parser.py': ['_unfold_continuations', 'dedent_block', 'parse_entity', '_without_context', '_arg_name',
                          '_node_matches_argspec', '_parse_lambda', 'parse'],
            'inspect_utils.py': ['getimmediatesource', '_fix_linecache_record']}


def _module_names(tree):
    out = set()
    for s in tree.body:
        if isinstance(s, (ast.FunctionDef, ast.AsyncFunctionDef, ast.ClassDef)):
            out.add(s.name)
        elif isinstance(s, (ast.Import, ast.ImportFrom)):
            for a in s.names:
                out.add((a.asname or a.name).split('.')[0])
        else:
            for n in ast.walk(s):
                if isinstance(n, ast.Name) and isinstance(n.ctx, ast.Store):
                    out.add(n.id)
    return out


def _base_name(n):
    while isinstance(n, (ast.Subscript, ast.Attribute)):
        n = n.value
    return n.id if isinstance(n, ast.Name) else None


def check_stateless(fname, tree):
    """fail closed if a recovery function writes module-level state"""
    glob = _module_names(tree)
    fns = {n.name: n for n in tree.body if isinstance(n, ast.FunctionDef)}
    for name in RECOVERY[fname]:
        if name not in fns:
            raise Untranslatable('untranslatable: %s: no function %s' % (fname, name))
        fn = fns[name]
        local = set(a.arg for a in fn.args.posonlyargs + fn.args.args + fn.args.kwonlyargs)
        if fn.args.vararg:
            local.add(fn.args.vararg.arg)
        if fn.args.kwarg:
            local.add(fn.args.kwarg.arg)
        for n in ast.walk(fn):
            if isinstance(n, ast.Name) and isinstance(n.ctx, ast.Store):
                local.add(n.id)

        def shared(b):
            return b is not None and b not in local and b in glob

        for n in ast.walk(fn):
            if isinstance(n, (ast.Global, ast.Nonlocal)):
                raise Untranslatable('untranslatable: %s:%d: %s declares global/nonlocal state' % (fname, n.lineno, name))
            if isinstance(n, (ast.Subscript, ast.Attribute)) and isinstance(n.ctx, (ast.Store, ast.Del)) \
                    and shared(_base_name(n)):
                raise Untranslatable('untranslatable: %s:%d: %s writes module-level state `%s` (state carried between '
                                     'source recoveries)' % (fname, n.lineno, name, ast.unparse(n)))
            if isinstance(n, ast.Call) and isinstance(n.func, ast.Attribute) and n.func.attr in MUTATORS \
                    and shared(_base_name(n.func.value)):
                raise Untranslatable('untranslatable: %s:%d: %s mutates module-level state `%s`' % (
                    fname, n.lineno, name, ast.unparse(n.func)))
    if fname == 'inspect_utils.py':
        calls = {ast.unparse(c.func) for c in ast.walk(fns['getimmediatesource']) if isinstance(c, ast.Call)}
        if not {'inspect.findsource', 'inspect.getblock'} <= calls:
            raise Untranslatable('untranslatable: inspect_utils.py:%d: getimmediatesource no longer reads the source '
                                 'through inspect.findsource / inspect.getblock' % fns['getimmediatesource'].lineno)


NORMS = {'%s': 'NormNone', '%s.rstrip()': 'NormRStrip', '%s.lstrip()': 'NormLStrip', '%s.strip()': 'NormStrip'}


def _body(fn):
    return [s for s in fn.body if not (isinstance(s, ast.Expr) and isinstance(s.value, ast.Constant))]


def _bound_once(fn, name, expected):
    """`name` is bound exactly once in fn, by a plain top-level assignment whose value unparses to `expected`"""
    stores = [n for n in ast.walk(fn) if isinstance(n, ast.Name) and n.id == name and isinstance(n.ctx, (ast.Store, ast.Del))]
    tops = [s for s in fn.body if isinstance(s, ast.Assign) and len(s.targets) == 1
            and isinstance(s.targets[0], ast.Name) and s.targets[0].id == name]
    if len(stores) != 1 or len(tops) != 1:
        _fail(fn, '%s: `%s` is not bound exactly once by a top-level assignment' % (fn.name, name))
    got = ast.unparse(tops[0].value)
    if got not in ((expected,) if isinstance(expected, str) else expected):
        _fail(tops[0], '%s: `%s = %s`, expected `%s`' % (fn.name, name, got, expected))
    return tops[0]


def parse_norm(fns):
    """the text parse() hands to ast.parse, and the path of the file text from linecache to that call"""
    pl = fns['_parse_lambda']
    if [a.arg for a in pl.args.args] != ['lam'] or pl.args.vararg or pl.args.kwarg or pl.args.kwonlyargs:
        _fail(pl, 'signature of _parse_lambda')
    _bound_once(pl, 'def_line', 'lam.__code__.co_firstlineno')
    # the module globals only select a loader for files that are not on disk; the text of the file is the same
    _bound_once(pl, 'lines', ('linecache.getlines(f, mod.__dict__)',
                              'linecache.getlines(f, mod.__dict__ if mod is not None else None)'))
    _bound_once(pl, 'f', 'inspect.getsourcefile(lam)')
    _bound_once(pl, 'mod', 'inspect.getmodule(lam)')
    _bound_once(pl, 'source', "''.join(lines)")
    _bound_once(pl, 'all_nodes', 'parse(source, preamble_len=0, single_node=False)')
    ps = fns['parse']
    a = ps.args
    if [x.arg for x in a.args] != ['src', 'preamble_len', 'single_node'] or a.vararg or a.kwarg or a.kwonlyargs \
            or a.posonlyargs or [ast.unparse(d) for d in a.defaults] != ['0', 'True']:
        _fail(ps, 'signature of parse')
    body = _body(ps)
    if any(isinstance(n, ast.Name) and n.id in ('src', 'preamble_len', 'single_node')
           and isinstance(n.ctx, (ast.Store, ast.Del)) for n in ast.walk(ps)):
        _fail(ps, 'parse rebinds one of its parameters')
    first = body[0] if body else None
    if not (isinstance(first, ast.Assign) and len(first.targets) == 1 and ast.unparse(first.targets[0]) == 'module_node'
            and isinstance(first.value, ast.Call) and ast.unparse(first.value.func) == 'ast.parse'
            and len(first.value.args) == 1 and not first.value.keywords):
        _fail(first or ps, 'parse does not start with `module_node = ast.parse(<text>)`')
    text = ast.unparse(first.value.args[0])
    norm = {k % 'src': v for k, v in NORMS.items()}.get(text)
    if norm is None:
        _fail(first, 'text handed to ast.parse is `%s` (expected src, possibly stripped)' % text)
    rest = [ast.unparse(s) for s in body[1:]]
    want = ['nodes = module_node.body',
            'if preamble_len:\n    nodes = nodes[preamble_len:]',
            "if single_node:\n    if len(nodes) != 1:\n        raise ValueError('expected exactly one node, got {}'.format(nodes))\n    return nodes[0]",
            'return nodes']
    if rest != want:
        bad = next((i for i, (x, y) in enumerate(zip(rest, want)) if x != y), min(len(rest), len(want)))
        _fail(body[1 + bad] if 1 + bad < len(body) else ps, 'parse: statement %d after the ast.parse call is not `%s`' % (
            bad + 1, want[bad].split('\n')[0] if bad < len(want) else '<end>'))
    return norm


def translate(repo):
    path = os.path.join(repo, 'malt', 'pyct', 'parser.py')
    with open(path) as f:
        tree = ast.parse(f.read())
    check_stateless('parser.py', tree)
    with open(os.path.join(repo, 'malt', 'pyct', 'inspect_utils.py')) as f:
        check_stateless('inspect_utils.py', ast.parse(f.read()))
    fns = {n.name: n for n in tree.body if isinstance(n, ast.FunctionDef)}
    for need in ('_unfold_continuations', '_parse_lambda', '_node_matches_argspec', 'parse'):
        if need not in fns:
            raise Untranslatable('untranslatable: parser.py: no function ' + need)
    # --- _unfold_continuations
    uf = fns['_unfold_continuations']
    body = [s for s in uf.body if not (isinstance(s, ast.Expr) and isinstance(s.value, ast.Constant))]
    arg = uf.args.args[0].arg
    if not (len(body) == 1 and isinstance(body[0], ast.Return)
            and ast.dump(body[0].value) == ast.dump(ast.parse("%s.replace('\\\\\\n', '')" % arg, mode='eval').body)):
        _fail(uf, '_unfold_continuations is not `return %s.replace(backslash-newline, empty)`' % arg)
    # --- parse / file coordinates
    norm = parse_norm(fns)
    # --- _parse_lambda
    pl = fns['_parse_lambda']
    stmts = pl.body
    short_i = cand_i = None
    ops = None
    for i, s in enumerate(stmts):
        if isinstance(s, ast.For) and ast.unparse(s.iter) == 'all_nodes':
            ok = (len(s.body) == 1 and isinstance(s.body[0], ast.If)
                  and ast.unparse(s.body[0].test) in ("getattr(node, 'lineno', def_line) <= def_line", 'node.lineno <= def_line')
                  and ast.unparse(s.target) == 'node'
                  and [ast.unparse(x) for x in s.body[0].body] == ['search_nodes.append(node)']
                  and len(s.body[0].orelse) == 1 and isinstance(s.body[0].orelse[0], ast.Break))
            if not ok:
                _fail(s, 'shortlist loop')
            short_i = i
        if isinstance(s, ast.For) and ast.unparse(s.iter) == 'lambda_nodes':
            last = s.body[-1]
            if not (isinstance(last, ast.If) and not last.orelse and isinstance(last.test, ast.Compare)
                    and [ast.unparse(x) for x in last.body] == ['candidates.append((%s, minl, maxl))' % ast.unparse(s.target)]
                    and ast.unparse(last.test.left) == 'minl'
                    and [ast.unparse(c) for c in last.test.comparators] == ['def_line', 'maxl']):
                _fail(s, 'candidate filter')
            ops = []
            for o in last.test.ops:
                if isinstance(o, ast.LtE):
                    ops.append('OpLe')
                elif isinstance(o, ast.Lt):
                    ops.append('OpLt')
                else:
                    _fail(last, 'span comparison operator')
            cand_i = i
    if short_i is None or cand_i is None or cand_i < short_i:
        _fail(pl, 'shortlist loop / candidate loop not found')
    rules = _rules(stmts[cand_i + 1:])
    # --- _node_matches_argspec
    nm = fns['_node_matches_argspec']
    comps = []
    body = [s for s in nm.body if not (isinstance(s, ast.Expr) and isinstance(s.value, ast.Constant))]
    if not (isinstance(body[-1], ast.Return) and isinstance(body[-1].value, ast.Constant) and body[-1].value.value is True):
        _fail(nm, '_node_matches_argspec does not end with return True')
    assigned = {}
    for s in body[:-1]:
        if isinstance(s, ast.Assign) and len(s.targets) == 1 and isinstance(s.targets[0], ast.Name):
            assigned[s.targets[0].id] = ast.unparse(s.value)
            continue
        if isinstance(s, ast.If) and not s.orelse and isinstance(s.test, ast.Compare) and len(s.test.ops) == 1 \
                and isinstance(s.test.ops[0], ast.NotEq) and len(s.body) == 1 and isinstance(s.body[0], ast.Return) \
                and isinstance(s.body[0].value, ast.Constant) and s.body[0].value.value is False:
            txt = ast.unparse(s.test)
            for name, val in assigned.items():
                txt = txt.replace(name, val) if name != 'arg_spec' else txt
            hit = [c for key, c in (('arg_spec.kwonlyargs', 'CompKwonly'), ('arg_spec.varargs', 'CompVararg'),
                                    ('arg_spec.varkw', 'CompKwarg'), ('arg_spec.args', 'CompArgs')) if key in txt]
            node_side = {'CompKwonly': 'node.args.kwonlyargs', 'CompVararg': 'node.args.vararg',
                         'CompKwarg': 'node.args.kwarg', 'CompArgs': 'node.args.args'}
            if len(hit) != 1 or node_side[hit[0]] not in txt.replace('node.args.kwonlyargs', 'node.args.kwonlyargs'):
                _fail(s, 'signature comparison ' + txt)
            if hit[0] == 'CompVararg' and 'node.args.varargs' in txt:
                _fail(s, 'signature comparison ' + txt)
            if hit[0] == 'CompArgs' and 'node.args.posonlyargs' in txt:
                hit = ['CompArgsPos']
            comps.append(hit[0])
            continue
        _fail(s, 'statement shape in _node_matches_argspec')
    out = ['(* generated by tools/translate/c15_lambda.py from malt/pyct/parser.py -- do not edit *)',
           'From Coq Require Import List.', 'Import ListNotations.', 'Require Import MV.Lexer.LambdaSyntax.', '',
           'Definition span_ops : cmpop * cmpop := (%s, %s).' % tuple(ops),
           'Definition select_rules : list rule := [%s].' % '; '.join(rules),
           'Definition match_components : list component := [%s].' % '; '.join(comps),
           '(* the text parse() hands to ast.parse; _parse_lambda parses the file text (linecache) through parse() and',
           '   compares the line numbers of that tree with co_firstlineno *)',
           'Definition parse_norm : text_norm := %s.' % norm,
           '(* the recovery functions of parser.py / inspect_utils.py write no module-level state (translator check) *)',
           'Definition recovery_stateless : bool := true.', '']
    return '\n'.join(out)


if __name__ == '__main__':
    import sys
    print(translate(sys.argv[1] if len(sys.argv) > 1 else '/repo'))
