"""Fail-closed syntactic translator for C12:
   malt/pyct/error_utils.py + malt/impl/api.py -> coq/Generated/C12_gen.v

Recognised shapes (anything else raises Untranslatable -> tie broken):

 error_utils.py
  KNOWN_STRING_CONSTRUCTOR_ERRORS = ( <builtin exception names> )
  ErrorMetadataBase.create_exception(self, source_error):
      preferred_type = type(source_error)
      to_ret = None
      ( if <cond>: to_ret = <action> [elif <cond>: to_ret = <action>]* )*
      if to_ret is not None: return to_ret.with_traceback(source_error.__traceback__)
    <cond>   ::= preferred_type.__init__ is Exception.__init__          -> CFact  ("identity")
               | <module-level function of error_utils>(preferred_type)  -> CFact  ("call:<name>")
               | preferred_type in KNOWN_STRING_CONSTRUCTOR_ERRORS       -> CKnown
               | preferred_type is KeyError                              -> CIsKeyError, key_error_types = [KeyError]
               | preferred_type in (KeyError, MultilineMessageKeyError)  -> CIsKeyError, key_error_types = both
                 (a tuple display of KeyError and classes of error_utils derived from KeyError)
             (at most one distinct CFact test)
    <action> ::= preferred_type(self.get_message())                                       -> ASame
               | MultilineMessageKeyError(self.get_message(), self.cause_message)         -> AMultilineKeyError
  ErrorMetadataBase.to_exception: exc = self.create_exception(source_error);
      exc.__suppress_context__ = True; exc.ag_error_metadata = self; return exc

 api.py
  _ErrorMetadata.create_exception: preferred_type = type(source_error);
      if preferred_type in (<classes>): return preferred_type(self.get_message());
      exc = super(_ErrorMetadata, self).create_exception(source_error);
      if exc is not None: return exc;  return StagingError(self.get_message())
  _attach_error_metadata(e, f): if hasattr(e, 'ag_pass_through'): return;
      metadata = getattr(e, 'ag_error_metadata', None); source_map = f.ag_source_map;
      if metadata is None: message = '<fmt>'.format(e.__class__.__name__, e) else: message = None;
      cause_tb = traceback.extract_tb(sys.exc_info()[2])[<n>:];
      e.ag_error_metadata = _ErrorMetadata(cause_tb, metadata, message, source_map, __file__)
  converted_call: the last try statement is  try: result = converted_f(...)  except Exception as e:
      _attach_error_metadata(e, converted_f); raise
  convert.decorator.wrapper: except Exception as e: if hasattr(e, 'ag_error_metadata'):
      raise e.ag_error_metadata.to_exception(e) else: raise
 Docstrings, comments and logging.* expression statements are ignored everywhere.
"""
import ast
import builtins
import os

from lib import vlib


class Untranslatable(Exception):
    pass


def _fail(path, node, why):
    raise Untranslatable('untranslatable: %s:%s: %s' % (path, getattr(node, 'lineno', '?'), why))


def _body(fn):
    """statements of a function without docstring and logging calls"""
    out = []
    for i, s in enumerate(fn.body):
        if isinstance(s, ast.Expr) and isinstance(s.value, ast.Constant) and isinstance(s.value.value, str):
            continue
        if isinstance(s, ast.Expr) and isinstance(s.value, ast.Call) and ast.unparse(s.value.func).startswith('logging.'):
            continue
        out.append(s)
    return out


def _find(tree, kind, name, path):
    for n in tree.body if hasattr(tree, 'body') else []:
        if isinstance(n, kind) and getattr(n, 'name', None) == name:
            return n
    _fail(path, tree, 'no %s %s' % (kind.__name__, name))


def _u(n):
    return ast.unparse(n)


def translate(repo):
    eu_path = os.path.join(repo, 'malt', 'pyct', 'error_utils.py')
    api_path = os.path.join(repo, 'malt', 'impl', 'api.py')
    eu = ast.parse(open(eu_path).read())
    api = ast.parse(open(api_path).read())

    # --- KNOWN_STRING_CONSTRUCTOR_ERRORS
    known = None
    for n in eu.body:
        if isinstance(n, ast.Assign) and len(n.targets) == 1 and _u(n.targets[0]) == 'KNOWN_STRING_CONSTRUCTOR_ERRORS':
            if not isinstance(n.value, (ast.Tuple, ast.List)):
                _fail(eu_path, n, 'KNOWN_STRING_CONSTRUCTOR_ERRORS is not a tuple display')
            known = []
            for e in n.value.elts:
                if not (isinstance(e, ast.Name) and isinstance(getattr(builtins, e.id, None), type)
                        and issubclass(getattr(builtins, e.id), BaseException)):
                    _fail(eu_path, e, 'element of KNOWN_STRING_CONSTRUCTOR_ERRORS is not a builtin exception name')
                known.append('builtins.' + e.id)
    if known is None:
        _fail(eu_path, eu, 'KNOWN_STRING_CONSTRUCTOR_ERRORS not found')
    eu_funcs = set(n.name for n in eu.body if isinstance(n, ast.FunctionDef))

    # --- ErrorMetadataBase.create_exception
    base = _find(eu, ast.ClassDef, 'ErrorMetadataBase', eu_path)
    ce = _find(base, ast.FunctionDef, 'create_exception', eu_path)
    if [a.arg for a in ce.args.args] != ['self', 'source_error']:
        _fail(eu_path, ce, 'create_exception signature')
    body = _body(ce)
    if len(body) < 3 or _u(body[0]) != 'preferred_type = type(source_error)' or _u(body[1]) != 'to_ret = None':
        _fail(eu_path, ce, 'create_exception prologue')
    last = body[-1]
    if not (isinstance(last, ast.If) and _u(last.test) == 'to_ret is not None' and not last.orelse and len(last.body) == 1
            and _u(last.body[0]) == 'return to_ret.with_traceback(source_error.__traceback__)'):
        _fail(eu_path, last, 'create_exception epilogue')
    facts = []
    keytypes = []
    eu_keyerror_classes = set(n.name for n in eu.body if isinstance(n, ast.ClassDef)
                              and [_u(b) for b in n.bases] == ['KeyError'])

    def cond(t):
        s = _u(t)
        if s == 'preferred_type.__init__ is Exception.__init__':
            facts.append('identity')
            return 'CFact'
        if (isinstance(t, ast.Call) and isinstance(t.func, ast.Name) and t.func.id in eu_funcs
                and len(t.args) == 1 and not t.keywords and _u(t.args[0]) == 'preferred_type'):
            facts.append('call:' + t.func.id)
            return 'CFact'
        if s == 'preferred_type in KNOWN_STRING_CONSTRUCTOR_ERRORS':
            return 'CKnown'
        if s == 'preferred_type is KeyError':
            keytypes.append(['builtins.KeyError'])
            return 'CIsKeyError'
        if (isinstance(t, ast.Compare) and len(t.ops) == 1 and isinstance(t.ops[0], ast.In)
                and _u(t.left) == 'preferred_type' and isinstance(t.comparators[0], ast.Tuple)):
            names = []
            for e in t.comparators[0].elts:
                if isinstance(e, ast.Name) and e.id == 'KeyError':
                    names.append('builtins.KeyError')
                elif isinstance(e, ast.Name) and e.id in eu_keyerror_classes:
                    names.append('malt.pyct.error_utils.' + e.id)
                else:
                    _fail(eu_path, e, 'element of the KeyError test is neither KeyError nor a KeyError subclass of error_utils')
            if 'builtins.KeyError' in names:
                keytypes.append(names)
                return 'CIsKeyError'
        _fail(eu_path, t, 'unrecognised condition in create_exception: ' + s)

    def action(stmts):
        if len(stmts) != 1:
            _fail(eu_path, stmts[0] if stmts else ce, 'branch of create_exception is not a single assignment')
        s = _u(stmts[0])
        if s == 'to_ret = preferred_type(self.get_message())':
            return 'ASame'
        if s == 'to_ret = MultilineMessageKeyError(self.get_message(), self.cause_message)':
            return 'AMultilineKeyError'
        _fail(eu_path, stmts[0], 'unrecognised action in create_exception: ' + s)

    rules = []
    for st in body[2:-1]:
        if not isinstance(st, ast.If):
            _fail(eu_path, st, 'statement of create_exception is not an if')
        chain = []
        cur = st
        while True:
            chain.append('(%s, %s)' % (cond(cur.test), action(cur.body)))
            if not cur.orelse:
                break
            if len(cur.orelse) == 1 and isinstance(cur.orelse[0], ast.If):
                cur = cur.orelse[0]
            else:
                _fail(eu_path, cur, 'else branch in create_exception')
        rules.append('[%s]' % '; '.join(chain))
    if len(set(facts)) > 1:
        _fail(eu_path, ce, 'more than one plain-constructor test: %s' % sorted(set(facts)))
    fact_name = facts[0] if facts else 'none'
    if len(keytypes) > 1:
        _fail(eu_path, ce, 'more than one KeyError test')
    key_types = keytypes[0] if keytypes else []

    # the KeyError subclass must stay a KeyError that prints the message
    mk = _find(eu, ast.ClassDef, 'MultilineMessageKeyError', eu_path)
    if [_u(b) for b in mk.bases] != ['KeyError']:
        _fail(eu_path, mk, 'MultilineMessageKeyError bases')

    te = _find(base, ast.FunctionDef, 'to_exception', eu_path)
    if [_u(s) for s in _body(te)] != ['exc = self.create_exception(source_error)', 'exc.__suppress_context__ = True',
                                     'exc.ag_error_metadata = self', 'return exc']:
        _fail(eu_path, te, 'to_exception body')

    # --- api._ErrorMetadata.create_exception
    api_classes = set(n.name for n in api.body if isinstance(n, ast.ClassDef))
    em = _find(api, ast.ClassDef, '_ErrorMetadata', api_path)
    if [_u(b) for b in em.bases] != ['error_utils.ErrorMetadataBase']:
        _fail(api_path, em, '_ErrorMetadata bases')
    if [n.name for n in em.body if isinstance(n, ast.FunctionDef)] != ['create_exception']:
        _fail(api_path, em, '_ErrorMetadata overrides more than create_exception')
    ce2 = _find(em, ast.FunctionDef, 'create_exception', api_path)
    b2 = _body(ce2)
    ok = (len(b2) == 5 and _u(b2[0]) == 'preferred_type = type(source_error)'
          and isinstance(b2[1], ast.If) and isinstance(b2[1].test, ast.Compare) and len(b2[1].test.ops) == 1
          and isinstance(b2[1].test.ops[0], ast.In) and _u(b2[1].test.left) == 'preferred_type'
          and isinstance(b2[1].test.comparators[0], ast.Tuple) and not b2[1].orelse
          and [_u(s) for s in b2[1].body] == ['return preferred_type(self.get_message())']
          and _u(b2[2]) == 'exc = super(_ErrorMetadata, self).create_exception(source_error)'
          and isinstance(b2[3], ast.If) and _u(b2[3].test) == 'exc is not None' and not b2[3].orelse
          and [_u(s) for s in b2[3].body] == ['return exc']
          and _u(b2[4]) == 'return StagingError(self.get_message())')
    if not ok:
        _fail(api_path, ce2, '_ErrorMetadata.create_exception shape')
    passthrough = []
    for e in b2[1].test.comparators[0].elts:
        s = _u(e)
        if s.startswith('errors.') and s.count('.') == 1:
            passthrough.append('malt.pyct.' + s)
        elif isinstance(e, ast.Name) and e.id in api_classes:
            passthrough.append('malt.impl.api.' + s)
        else:
            _fail(api_path, e, 'unrecognised pass-through type ' + s)
    if 'StagingError' not in api_classes:
        _fail(api_path, api, 'StagingError not defined in api.py')

    # --- _attach_error_metadata
    at = _find(api, ast.FunctionDef, '_attach_error_metadata', api_path)
    if [a.arg for a in at.args.args] != ['e', 'f']:
        _fail(api_path, at, '_attach_error_metadata signature')
    b3 = _body(at)
    drop = None
    fmt = None
    ok = (len(b3) == 6 and _u(b3[0]) == "if hasattr(e, 'ag_pass_through'):\n    return"
          and _u(b3[1]) == "metadata = getattr(e, 'ag_error_metadata', None)"
          and _u(b3[2]) == 'source_map = f.ag_source_map'
          and isinstance(b3[3], ast.If) and _u(b3[3].test) == 'metadata is None'
          and [_u(s) for s in b3[3].orelse] == ['message = None']
          and _u(b3[5]) == 'e.ag_error_metadata = _ErrorMetadata(cause_tb, metadata, message, source_map, __file__)')
    if ok:
        tb = [s for s in b3[3].body if not (isinstance(s, ast.Expr) and _u(s).startswith('logging.'))]
        if (len(tb) == 1 and isinstance(tb[0], ast.Assign) and _u(tb[0].targets[0]) == 'message'
                and isinstance(tb[0].value, ast.Call) and isinstance(tb[0].value.func, ast.Attribute)
                and tb[0].value.func.attr == 'format' and isinstance(tb[0].value.func.value, ast.Constant)
                and [_u(a) for a in tb[0].value.args] == ['e.__class__.__name__', 'e']):
            fmt = tb[0].value.func.value.value
        s4 = b3[4]
        if (isinstance(s4, ast.Assign) and _u(s4.targets[0]) == 'cause_tb' and isinstance(s4.value, ast.Subscript)
                and _u(s4.value.value) == 'traceback.extract_tb(sys.exc_info()[2])'
                and isinstance(s4.value.slice, ast.Slice) and s4.value.slice.upper is None and s4.value.slice.step is None
                and isinstance(s4.value.slice.lower, ast.Constant) and isinstance(s4.value.slice.lower.value, int)
                and 0 <= s4.value.slice.lower.value < 10):
            drop = s4.value.slice.lower.value
    if not ok or fmt is None or drop is None:
        _fail(api_path, at, '_attach_error_metadata shape')

    # --- converted_call: last try
    cc = _find(api, ast.FunctionDef, 'converted_call', api_path)
    trys = [s for s in cc.body if isinstance(s, ast.Try)]
    if not trys:
        _fail(api_path, cc, 'converted_call has no try')
    t = trys[-1]
    hb = [s for s in (t.handlers[0].body if len(t.handlers) == 1 else [])]
    if not (len(t.handlers) == 1 and _u(t.handlers[0].type) == 'Exception' and t.handlers[0].name == 'e'
            and [_u(s) for s in hb] == ['_attach_error_metadata(e, converted_f)', 'raise']
            and not t.finalbody and 'converted_f(' in _u(t.body[0])):
        _fail(api_path, t, 'converted_call: handler around the call of converted_f')

    # --- convert(...).decorator.wrapper
    cv = _find(api, ast.FunctionDef, 'convert', api_path)
    dec = _find(cv, ast.FunctionDef, 'decorator', api_path)
    wr = _find(dec, ast.FunctionDef, 'wrapper', api_path)
    wtry = [s for s in wr.body if isinstance(s, ast.Try)]
    if len(wtry) != 1 or len(wtry[0].handlers) != 1:
        _fail(api_path, wr, 'convert wrapper: try statement')
    h = wtry[0].handlers[0]
    if not (_u(h.type) == 'Exception' and h.name == 'e' and len(h.body) == 1 and isinstance(h.body[0], ast.If)
            and _u(h.body[0].test) == "hasattr(e, 'ag_error_metadata')"
            and [_u(s) for s in h.body[0].body] == ['raise e.ag_error_metadata.to_exception(e)']
            and [_u(s) for s in h.body[0].orelse] == ['raise']):
        _fail(api_path, h, 'convert wrapper: exception handler')

    S = vlib.coq_str
    lines = [
        '(* GENERATED by tools/translate/c12_errors.py from malt/pyct/error_utils.py and malt/impl/api.py -- do not edit *)',
        'From Coq Require Import List String.',
        'Import ListNotations.',
        'Require Import MV.Errors.ExcSyntax.',
        'Local Open Scope string_scope.',
        '',
        'Definition known_string_constructor_errors : list string := [%s].' % '; '.join(S(k) for k in known),
        'Definition pass_through_types : list string := [%s].' % '; '.join(S(k) for k in passthrough),
        'Definition key_error_types : list string := [%s].' % '; '.join(S(k) for k in key_types),
        'Definition base_rules : list ifchain := [%s].' % '; '.join(rules),
        'Definition fact_name : string := %s.' % S(fact_name),
        '(* cause_tb = traceback.extract_tb(...)[attach_drop:] *)',
        'Definition attach_drop : nat := %d.' % drop,
        'Definition message_format : string := %s.' % S(fmt),
        '',
    ]
    return '\n'.join(lines)


if __name__ == '__main__':
    import sys
    print(translate(sys.argv[1] if len(sys.argv) > 1 else vlib.REPO))
