"""Validates the seeded changes of one round as they arrive: polls /tmp/seeded-<ID>-<tag>/ for every property and runs
tools/seedcheck.py on each finished one, at most 5 at a time.  usage: seedloop.py <tag>;  logs in build/seed<tag>/"""
import os
import subprocess
import sys
import time

tag = sys.argv[1]
ids = ['C%02d' % i for i in range(1, 21)]
out = '/verif/build/seed%s' % tag
os.makedirs(out, exist_ok=True)
pending, running = set(ids), {}
t0 = time.time()
while (pending or running) and time.time() - t0 < 3 * 3600:
    for p, pr in list(running.items()):
        if pr.poll() is not None:
            del running[p]
            open(out + '/DONE', 'a').write(p + ' done\n')
    for p in sorted(pending):
        if len(running) >= 5:
            break
        d = '/tmp/seeded-%s-%s' % (p, tag)
        if os.path.exists(d + '/NOTES.md') and os.path.exists(d + '/patch.diff') and time.time() - os.path.getmtime(d + '/NOTES.md') > 25:
            pending.discard(p)
            running[p] = subprocess.Popen('/venv/bin/python tools/seedcheck.py %s %s > %s/%s.log 2>&1' % (p, tag, out, p),
                                          shell=True, cwd='/verif')
    time.sleep(10)
open(out + '/DONE', 'a').write('ALLDONE\n')
