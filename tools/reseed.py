"""Re-run every stored seeded change (seeded/<ID>-<n>/patch.diff) against the current checks and record the outcome in
its meta.json under "recheck".  Sequential: the checks regenerate coq/Generated from the tree they are pointed at.
usage: reseed.py [<ID>-<n> ...]"""
import json, os, subprocess, sys, time

ROOT = os.path.dirname(os.path.dirname(os.path.abspath(__file__)))


def sh(cmd, timeout=3600):
    p = subprocess.run(cmd, shell=True, stdout=subprocess.PIPE, stderr=subprocess.STDOUT, text=True, timeout=timeout)
    return p.returncode, p.stdout


names = sys.argv[1:] or sorted(os.listdir(os.path.join(ROOT, 'seeded')))
touched = set()
for nm in names:
    d = os.path.join(ROOT, 'seeded', nm)
    mp = os.path.join(d, 'meta.json')
    if not os.path.exists(mp):
        continue
    meta = json.load(open(mp))
    pid = meta['breaks_property']
    wt = '/tmp/reseed-%s' % nm
    sh('git -C /repo worktree remove --force %s' % wt)
    rc, out = sh('git -C /repo worktree add -q %s HEAD && git -C %s apply %s/patch.diff' % (wt, wt, d))
    rec = {'repo_head': sh('git -C /repo rev-parse --short HEAD')[1].strip(), 'checks': {}}
    if rc != 0:
        rec['error'] = 'patch does not apply: ' + out[-300:]
    else:
        try:
            for p in sorted(set([pid] + meta.get('caught_by', []))):
                t0 = time.time()
                rcc, outc = sh('cd %s && VERIF_REPO=%s bin/check %s' % (ROOT, wt, p), timeout=3000)
                lines = [l for l in outc.split('\n') if l.startswith('VIOLATION')]
                kind = 'missed'
                if rcc == 1 and lines:
                    kind = 'no-failing-input-found' if all(l.rstrip().endswith('no-failing-input-found') for l in lines) else 'concrete failing input'
                rec['checks'][p] = {'exit': rcc, 'kind': kind, 'violation_lines': lines[:3], 'seconds': round(time.time() - t0)}
                touched.add(p)
        finally:
            sh('git -C /repo worktree remove --force %s' % wt)
    meta['recheck'] = rec
    json.dump(meta, open(mp, 'w'), indent=1)
    print(nm, {p: c['kind'] for p, c in rec['checks'].items()}, rec.get('error', ''), flush=True)
for p in sorted(touched):
    sh('cd %s && bin/check %s' % (ROOT, p), timeout=3000)     # regenerate against /repo
