"""Prints the prompt given to a construction sub-agent for one property (internal tool)."""
import json, sys
pid = sys.argv[1]
extra = sys.argv[2] if len(sys.argv) > 2 else ''
props = {json.loads(l)['id']: json.loads(l) for l in open('/verif/properties.jsonl')}
p = props[pid]
print(f"""You are building one property check of a Coq(8.16.1)-proof-based verification framework that lives in /verif and verifies the Python project in /repo (PennyLaneAI/diastatic-malt, an AutoGraph fork: a Python source-to-source transpiler). Work autonomously until done; nobody will answer questions.

YOUR PROPERTY: {pid} -- {p['title']}
Full record (fixed, do not edit /verif/properties.jsonl):
{json.dumps(p, indent=1)}

READ FIRST (in this order):
 1. /verif/FRAMEWORK.md  -- exactly how a property check is laid out, the vlib API, the rules. Follow it to the letter.
 2. The worked example C20: /verif/tools/translate/c20_options.py, /verif/coq/Opts/*.v, /verif/coq/Properties/C20/*.v, /verif/tools/props/c20.py. Run `cd /verif && bin/check C20` to see it work (~20 s).
 3. /verif/DESIGN.md sections 1-3 (approach), the section "### {pid}" (the plan for your property: model, theorems, tie, search oracle), section 5 (trusted base) and section 9 (defects already observed).
 4. The anchored source files in /repo listed in the record above.

WHAT TO DELIVER (all under /verif, only files your property owns: tools/translate/{pid.lower()}_*.py, tools/props/{pid.lower()}.py, a new directory under coq/ for your model, coq/Properties/{pid}/*.v, optionally corpus/{pid}/, fixes/{pid}-*.diff):
 * a Coq model of the logic core of the property + universally quantified, kernel-checked theorems that state the property on the model (full strength where possible; `_partial` / `_refuted` variants where not), each closed under the global context (no axioms);
 * the tie to the CURRENT source of /repo, checked on every run: generated tables (translator, fail-closed) whose theorems/side conditions are re-proved each run, and/or correspondence of the executable model (evaluated in Coq by vm_compute on harness-written cases) against the real implementation on the same generated inputs;
 * a property-level oracle that judges the property text directly on the real implementation (CPython is the oracle) over generated inputs -- this is what finds the concrete failing input when a proof/tie breaks or the code is wrong;
 * the driver tools/props/{pid.lower()}.py with generate(), check(run), replay(path). `cd /verif && bin/check {pid}` must exit 0 on the unchanged /repo with no VIOLATION line, in under 2 minutes (quick tier), deterministically for any VERIF_SEED; `--tier thorough` goes deeper (<= 15 min).
 * Detecting realistic bugs: think of 4-6 realistic ways a developer could break this property in /repo while the existing test-suite still passes (subtle ones: need a specific input / interleaving / sequence / two cooperating sites), and make sure your check catches each with a VIOLATION line and a concrete failing input in the replay where one exists. Test this on a scratch worktree: `git -C /repo worktree add /tmp/wt-{pid.lower()} HEAD`, edit there, run `VERIF_REPO=/tmp/wt-{pid.lower()} bin/check {pid}`, and when done `git -C /repo worktree remove --force /tmp/wt-{pid.lower()}`; afterwards re-run `bin/check {pid}` against /repo so that the generated files correspond to /repo again. Equally important: harmless refactorings must not raise alarms where you can avoid it.

HARD RULES
 * Never modify anything under /repo (use the scratch worktree for experiments). If you find a genuine defect of the implementation (the real code violates the property text on a concrete input), do NOT hide it and do NOT weaken the check: either write a minimal maintainer-grade patch to /verif/fixes/{pid}-<slug>.diff (git diff format, NOT applied) and make your check pass both before-with-known-finding and after-the-fix, or register it as a known finding: add a classifier function in your driver and report to me the JSON entry {{"property","id","what","witness"}} for /verif/known_findings.json (you may append your entries to that file yourself -- it is the only shared file you may touch, and only by adding entries for {pid}). On the unchanged tree a listed known finding prints `KNOWN-FINDING: property={pid} ...` (the framework does that when you call run.violation(..., classify=<id>)) and the check still exits 0; any OTHER failure must still be reported as VIOLATION.
 * Do not edit tools/lib/vlib.py, tools/check.py, MANIFEST.json, DESIGN.md, FRAMEWORK.md or any other property's files. Do not run git commands inside /verif (no add/commit/stash/checkout); I commit. Do not run bin/setup. Other agents work in /verif at the same time on other properties; their directories may contain half-written files -- ignore them.
 * No Admitted/admit/Axiom/Parameter/Conjecture anywhere, no disabled checks; experiments with unfinished proofs go under /verif/build/scratch-{pid.lower()}/ (git-ignored), never under /verif/coq.
 * Proof means universally quantified theorems proved by induction/invariants in Coq. vm_compute over samples, fuzzing, bounded checking are allowed only in the tie (correspondence) and the search, never as the theorem. A finite domain enumerated completely and lifted with forallb_forall is a proof.
 * Every coqc/make under shell `timeout`. Nothing needed at run time may live in /tmp. No network.
 * Environment: implementation runs with `PYTHONPATH=/repo /venv/bin/python` (3.12.1) -- bin/check sets this up. Each shell prints a harmless conda warning line; ignore it.
 * Keep your model honest: model the code that exists (quirks included), not what it should do. When model and implementation disagree, find out which is wrong.

{extra}

BUDGET: about 3 hours of work. First get a thin end-to-end check passing (model + 2-3 theorems + tie + oracle), then deepen: more of the code inside the model, stronger theorems, better generators, mutation self-tests.

FINAL REPORT (your last message, plain text, <= 60 lines): (1) files created; (2) every theorem: name + one-line statement + kind (full/partial/refuted); (3) what is generated from source vs hand-modelled and how each is tied; (4) what the oracle checks and input distribution; (5) genuine defects found in /repo with concrete witnesses, and whether you wrote a fix patch or a known-finding entry; (6) the mutation experiments you ran (change -> result line); (7) exact wall time of `bin/check {pid}` quick; (8) a proposed MANIFEST entry: level text (2-4 sentences: what assurance, what is partial), level_note (trusted base/assumptions), technique (few words); (9) anything left undone.""")
