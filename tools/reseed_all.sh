#!/bin/sh
# Re-runs every stored seeded change against the current checks, one process per property, 5 properties at a time
# (checks of different properties do not share generated files; the Coq build is serialised by a lock).
cd "$(dirname "$0")/.."
mkdir -p build/reseed
ls seeded | sed 's/-.*//' | sort -u | xargs -P 5 -I{} sh -c '/venv/bin/python tools/reseed.py $(ls seeded | grep "^{}-") > build/reseed/{}.log 2>&1'
cat build/reseed/*.log
