"""Exporter: Python ast (function body before / after the break and continue canonicalisation passes)
-> block term of coq/Lower/Lang.v.  User statements and tests become atoms labelled by their text;
flags are recognised by the names the Namer gives them (break_, break__N -> 3N; continue_,
continue__N -> 3(N+1)+1).  Fails closed on anything outside the lowering language."""
import ast
import re

from malt.pyct import anno


class Unsupported(Exception):
    pass


BRK = re.compile(r'^break_(?:_(\d+))?$')
CNT = re.compile(r'^continue_(?:_(\d+))?$')


def flag_of(name):
    if name == 'do_return':
        return 2
    m = BRK.match(name)
    if m:
        return 3 * int(m.group(1) or 0)
    m = CNT.match(name)
    if m:
        return 3 * (int(m.group(1) or 0) + 1) + 1
    return None


def unparse(node):
    """ast.unparse that tolerates generated statements without location (without leaving any trace on them)."""
    patched = []
    for n in ast.walk(node):
        if isinstance(n, ast.stmt) and not hasattr(n, 'lineno'):
            n.lineno = 1
            patched.append(n)
    try:
        return ast.unparse(node)
    finally:
        for n in patched:
            del n.lineno


class Exporter(object):
    def __init__(self):
        self.atoms = {}

    def label(self, text):
        """even labels for statements that do not raise, odd ones for statements whose evaluation may raise
        (Lang.raises): here the statements that read a missing attribute of the argument object `o`"""
        if text not in self.atoms:
            self.atoms[text] = 2 * (len(self.atoms) + 1) + (1 if 'o.missing' in text else 0)
        return self.atoms[text]

    def body_of(self, fn):
        body = fn.body
        if body and isinstance(body[0], ast.Expr) and isinstance(body[0].value, ast.Constant):
            body = body[1:]
        if len(body) == 1 and isinstance(body[0], ast.With) and 'FunctionScope' in unparse(body[0].items[0]):
            body = body[0].body
        return body

    def strip_return_frame(self, stmts):
        """the function-level frame the return pass adds: `do_return = False`, `retval_ = ag__.UndefinedReturnValue()`
        in front and `return fscope.ret(retval_, do_return)` at the end -> (inner statements, present?)"""
        if len(stmts) >= 3 and unparse(stmts[0]) == 'do_return = False' \
                and unparse(stmts[1]) == 'retval_ = ag__.UndefinedReturnValue()' \
                and unparse(stmts[-1]).startswith('return fscope.ret(retval_, do_return)'):
            return stmts[2:-1], True
        return stmts, False

    def block(self, stmts):
        out = 'BNil'
        for t in reversed([self.stmt(s) for s in stmts]):
            out = 'BCons (%s) (%s)' % (t, out)
        return out

    def cond(self, e):
        if isinstance(e, ast.UnaryOp) and isinstance(e.op, ast.Not) and isinstance(e.operand, ast.Name) \
                and flag_of(e.operand.id) is not None:
            return 'CNot %d' % flag_of(e.operand.id)
        if isinstance(e, ast.BoolOp) and isinstance(e.op, ast.And) and len(e.values) >= 2:
            first = e.values[0]
            if isinstance(first, ast.UnaryOp) and isinstance(first.op, ast.Not) and isinstance(first.operand, ast.Name) \
                    and flag_of(first.operand.id) is not None:
                rest = e.values[1] if len(e.values) == 2 else ast.BoolOp(op=ast.And(), values=e.values[1:])
                return 'CAndNot %d (%s)' % (flag_of(first.operand.id), self.cond(rest))
        for n in ast.walk(e):
            if isinstance(n, ast.Name) and flag_of(n.id) is not None:
                raise Unsupported('flag inside a user test: ' + unparse(e))
        return 'CUser %d' % self.label(unparse(e))

    def stmt(self, s):
        if isinstance(s, ast.Assign) and len(s.targets) == 1 and isinstance(s.targets[0], ast.Name) \
                and flag_of(s.targets[0].id) is not None and isinstance(s.value, ast.Constant) \
                and isinstance(s.value.value, bool):
            return 'SSet %d %s' % (flag_of(s.targets[0].id), 'true' if s.value.value else 'false')
        if isinstance(s, ast.If):
            return 'SIf (%s) (%s) (%s)' % (self.cond(s.test), self.block(s.body), self.block(s.orelse))
        if isinstance(s, ast.While):
            return 'SWhile (%s) (%s) (%s)' % (self.cond(s.test), self.block(s.body), self.block(s.orelse))
        if isinstance(s, ast.For):
            it = 'CUser %d' % self.label('for %s in %s' % (unparse(s.target), unparse(s.iter)))
            extra = anno.getanno(s, anno.Basic.EXTRA_LOOP_TEST, default=None)
            if extra is not None:
                c = self.cond(extra)
                # `not f` (and nothing else) as extra test
                m = re.match(r'^CNot (\d+)$', c)
                if not m:
                    raise Unsupported('extra loop test ' + unparse(extra))
                it = 'CAndNot %s (%s)' % (m.group(1), it)
            return 'SWhile (%s) (%s) (%s)' % (it, self.block(s.body), self.block(s.orelse))
        if isinstance(s, ast.Try):
            hs = 'HNil'
            for h in reversed(s.handlers):
                hs = 'HCons %s (%s) (%s)' % ('true' if h.type is None else 'false', self.block(h.body), hs)
            return 'STry (%s) (%s) (%s) (%s)' % (self.block(s.body), hs, self.block(s.orelse), self.block(s.finalbody))
        if isinstance(s, ast.With):
            return 'SWith %d (%s)' % (self.label('with ' + ', '.join(unparse(i) for i in s.items)), self.block(s.body))
        if isinstance(s, ast.Raise):
            return 'SRaise %d' % (0 if s.exc is None else self.label(unparse(s)))
        if isinstance(s, ast.Assign) and len(s.targets) == 1 and isinstance(s.targets[0], ast.Name) \
                and s.targets[0].id == 'retval_':
            v = unparse(s.value)
            return 'SAtom %d' % self.label('return' if v == 'None' else 'return ' + v)
        if isinstance(s, ast.Break):
            return 'SBreak'
        if isinstance(s, ast.Continue):
            return 'SContinue'
        if isinstance(s, ast.Return):
            return 'SReturn %d' % self.label(unparse(s))
        if isinstance(s, (ast.Expr, ast.Assign, ast.AugAssign, ast.AnnAssign, ast.Pass, ast.Delete, ast.Assert,
                          ast.Global, ast.Nonlocal, ast.Import, ast.ImportFrom)):
            for n in ast.walk(s):
                if isinstance(n, ast.Name) and flag_of(n.id) is not None:
                    raise Unsupported('flag in a user statement: ' + unparse(s))
            return 'SAtom %d' % self.label(unparse(s))
        raise Unsupported('statement %s' % type(s).__name__)
