"""Exporter for the functionalisation model (coq/Fn/FnLang.v): the annotated tree control_flow.transform works on
(statement structure, reads / writes of every statement from activity analysis, LIVE_VARS_IN of every statement
from the real liveness analysis) plus, for every `if` / `while` / `for`, the set L of names that are LOCAL to the
generated body function -- read off the code control_flow.py really generates with CPython's symtable.
Fails closed (Unsupported) on anything outside the modelled language."""
import ast
import symtable

from malt.pyct import anno
from export.lower import unparse as safe_unparse


class Unsupported(Exception):
    pass


def _names(qns):
    return sorted(str(q) for q in qns if not q.is_composite()) if qns else []


def _scope(node):
    if not anno.hasanno(node, anno.Static.SCOPE):
        raise Unsupported('no activity scope on ' + type(node).__name__)
    return anno.getanno(node, anno.Static.SCOPE)


def _live_in(s):
    if not anno.hasanno(s, anno.Static.LIVE_VARS_IN):
        raise Unsupported('no LIVE_VARS_IN on ' + type(s).__name__)
    return _names(anno.getanno(s, anno.Static.LIVE_VARS_IN))


def is_lowered_return(s):
    return (isinstance(s, ast.Try) and len(s.handlers) == 1 and s.handlers[0].type is None and not s.orelse and not s.finalbody
            and safe_unparse(s.handlers[0]).replace(' ', '').replace('\n', ';').startswith('except:;do_return=False;raise'))


def export_stmt(s, ids):
    sid = len(ids)
    ids[id(s)] = sid
    li = _live_in(s)
    if isinstance(s, ast.If):
        return ('if', sid, li, _names(_scope(s.test).read), [export_stmt(x, ids) for x in s.body], [export_stmt(x, ids) for x in s.orelse])
    if isinstance(s, ast.While):
        if s.orelse:
            raise Unsupported('while-else')
        return ('while', sid, li, _names(_scope(s.test).read), [export_stmt(x, ids) for x in s.body])
    if isinstance(s, ast.For):
        if s.orelse:
            raise Unsupported('for-else')
        ext = []
        if anno.hasanno(s, anno.Basic.EXTRA_LOOP_TEST):
            e = anno.getanno(s, anno.Basic.EXTRA_LOOP_TEST)
            # `not f`, or `not f and (not g)`: the loop goes on while no flag is set
            parts = [e]
            while parts:
                x = parts.pop(0)
                if isinstance(x, ast.BoolOp) and isinstance(x.op, ast.And):
                    parts = list(x.values) + parts
                elif isinstance(x, ast.UnaryOp) and isinstance(x.op, ast.Not) and isinstance(x.operand, ast.Name):
                    ext.append(x.operand.id)
                else:
                    raise Unsupported('extra loop test ' + safe_unparse(e))
        tg = sorted({n.id for n in ast.walk(s.target) if isinstance(n, ast.Name)})
        if any(not isinstance(n, (ast.Name, ast.Tuple, ast.List, ast.Store, ast.Load)) for n in ast.walk(s.target)):
            raise Unsupported('for target')
        return ('for', sid, li, _names(_scope(s.iter).read), tg, [export_stmt(x, ids) for x in s.body], ext)
    if isinstance(s, (ast.Assign, ast.AugAssign, ast.Expr, ast.Return, ast.Pass)):
        sc = _scope(s)
        if any(q.is_composite() for q in sc.modified):
            raise Unsupported('composite store')
        return ('atom', sid, li, _names(sc.read), _names(sc.modified), safe_unparse(s))
    if isinstance(s, ast.With):
        if len(s.items) != 1:
            raise Unsupported('with: several items')
        ov = s.items[0].optional_vars
        if ov is not None and any(not isinstance(n, (ast.Name, ast.Tuple, ast.List, ast.Store, ast.Load)) for n in ast.walk(ov)):
            raise Unsupported('with ... as <composite target>')
        tg = sorted({n.id for n in ast.walk(ov) if isinstance(n, ast.Name)}) if ov is not None else []
        return ('with', sid, li, tg, _names(_scope(s.items[0].context_expr).read) if anno.hasanno(s.items[0].context_expr, anno.Static.SCOPE)
                else sorted({n.id for n in ast.walk(s.items[0].context_expr) if isinstance(n, ast.Name)}),
                [export_stmt(x, ids) for x in s.body])
    if isinstance(s, ast.Raise):
        if s.exc is None:
            raise Unsupported('bare raise')
        return ('raise', sid, li, _names(_scope(s).read))
    if isinstance(s, ast.Try) and not is_lowered_return(s):
        if any(h.name is not None for h in s.handlers):
            raise Unsupported('except ... as name')
        return ('try', sid, li, [export_stmt(x, ids) for x in s.body], [[export_stmt(x, ids) for x in h.body] for h in s.handlers],
                [export_stmt(x, ids) for x in s.orelse], [export_stmt(x, ids) for x in s.finalbody])
    if is_lowered_return(s):
        rd, md = set(), set()
        for x in s.body:
            sc = _scope(x)
            rd |= set(_names(sc.read)) - md       # the wrapper reads only what it did not write itself
            md |= set(_names(sc.modified))
        return ('atom', sid, li, sorted(rd), sorted(md), safe_unparse(s.body[-1]))
    raise Unsupported(type(s).__name__)


def locals_of(new_nodes):
    """name of every function defined at the top level of the generated statements -> names CPython makes local to it"""
    code = '\n'.join(safe_unparse(n) for n in new_nodes)
    allnames = sorted({n.id for nn in new_nodes for n in ast.walk(nn) if isinstance(n, ast.Name)})
    src = 'def __outer__():\n' + ''.join('    %s = None\n' % n for n in allnames) + ''.join('    ' + l + '\n' for l in code.split('\n'))
    outer = symtable.symtable(src, '<generated>', 'exec').get_children()[0]
    return {ch.get_name(): sorted(s.get_name() for s in ch.get_symbols() if s.is_local() and not s.is_parameter())
            for ch in outer.get_children()}


class Capture(object):
    """with Capture() as cap: <convert one function>;  cap.tree / cap.L / cap.err afterwards"""

    def __enter__(self):
        from malt.converters import control_flow
        self.cf = control_flow
        self.ids, self.L = {}, {}
        self.tree = self.err = None
        self.orig_resolve = control_flow.liveness.resolve
        T = control_flow.ControlFlowTransformer
        self.saved = {k: T.__dict__[k] for k in ('visit_If', 'visit_While', 'visit_For')}
        cap = self

        def resolve(node, ctx, graphs, *a, **k):
            node = cap.orig_resolve(node, ctx, graphs, *a, **k)
            if cap.tree is None and cap.err is None:
                body = node.body
                if body and isinstance(body[0], ast.Expr) and isinstance(body[0].value, ast.Constant):
                    body = body[1:]
                if len(body) == 1 and isinstance(body[0], ast.With) and 'FunctionScope' in safe_unparse(body[0].items[0]):
                    body = body[0].body
                try:
                    cap.tree = [export_stmt(s, cap.ids) for s in body]
                except Unsupported as e:
                    cap.err = str(e)
            return node

        def mk(name):
            def visit(self_, node):
                nid = cap.ids.get(id(node))
                out = cap.saved[name](self_, node)
                if nid is not None:
                    try:
                        cap.L[nid] = locals_of(out)
                    except Exception as e:   # noqa
                        cap.err = cap.err or 'symtable of the generated code: %s' % e
                return out
            return visit
        control_flow.liveness.resolve = resolve
        for k in self.saved:
            setattr(T, k, mk(k))
        return self

    def __exit__(self, *a):
        self.cf.liveness.resolve = self.orig_resolve
        for k, v in self.saved.items():
            setattr(self.cf.ControlFlowTransformer, k, v)
        return False


def _fn_locals(Lmap, prefix):
    out = None
    for nm, lv in Lmap.items():
        if nm == prefix or nm.startswith(prefix + '_'):
            if out is not None:
                raise Unsupported('two generated functions named %s*' % prefix)
            out = lv
    if out is None:
        raise Unsupported('no generated function named %s*' % prefix)
    return out


def to_coq(tree, L):
    """-> (Coq term of type ablock, variable name table)"""
    table = {}

    def v(n):
        if n not in table:
            table[n] = len(table)
        return table[n]

    def vs(l):
        return '[' + '; '.join(str(v(x)) for x in l) + ']'

    def blk(stmts):
        out = 'ANil'
        for st in reversed(stmts):
            out = 'ACons %s (%s) (%s)' % (vs(st[2]), stm(st), out)
        return out

    def stm(st):
        if st[0] == 'atom':
            return 'AAtom %d %s %s' % (st[1], vs(st[3]), vs(st[4]))
        if st[0] == 'raise':
            return 'ARaise %d %s' % (st[1], vs(st[3]))
        if st[0] == 'with':
            return 'AWith %d %s %s (%s)' % (st[1], vs(st[4]), vs(st[3]), blk(st[5]))
        if st[0] == 'try':
            hs = 'AHNil'
            for h in reversed(st[4]):
                hs = 'AHCons (%s) (%s)' % (blk(h), hs)
            return 'ATry (%s) (%s) (%s) (%s)' % (blk(st[3]), hs, blk(st[5]), blk(st[6]))
        Lm = L.get(st[1])
        if Lm is None:
            raise Unsupported('no generated code recorded for statement %d' % st[1])
        if st[0] == 'if':
            return 'AIf %d %s %s (%s) %s (%s)' % (st[1], vs(st[3]), vs(_fn_locals(Lm, 'if_body')), blk(st[4]),
                                                vs(_fn_locals(Lm, 'else_body')), blk(st[5]))
        if st[0] == 'while':
            return 'AWhile %d %s %s (%s)' % (st[1], vs(st[3]), vs(_fn_locals(Lm, 'loop_body')), blk(st[4]))
        if st[0] == 'for':
            return 'AFor %d %s %s %s %s (%s)' % (st[1], vs(st[3]), vs(st[4]), vs(st[6]),
                                                 vs(_fn_locals(Lm, 'loop_body')), blk(st[5]))
        raise Unsupported(st[0])
    return blk(tree), table
