"""Exporter: Python expression ast -> term of coq/Expr/ExprLang.v (`expr`).
The constructs the two expression passes rewrite are exported as such (native and generated forms); lambdas and
comprehensions are lazy nodes; everything else is an opaque operation over its sub-expressions in evaluation
order, labelled by its node type and non-expression fields."""
import ast

COPS = {ast.Eq: 0, ast.NotEq: 1, ast.Lt: 2, ast.LtE: 3, ast.Gt: 4, ast.GtE: 5, ast.Is: 6, ast.IsNot: 7, ast.In: 8, ast.NotIn: 9}


class Unsupported(Exception):
    pass


class Exporter(object):
    def __init__(self):
        self.labels = {}

    def label(self, key):
        if key not in self.labels:
            self.labels[key] = len(self.labels) + 1
        return self.labels[key]

    def lst(self, xs):
        return '[' + '; '.join(xs) + ']'

    def children(self, n):
        """sub-expressions in evaluation order"""
        if isinstance(n, ast.Dict):
            out = []
            for k, v in zip(n.keys, n.values):
                if k is not None:
                    out.append(k)
                out.append(v)
            return out
        out = []
        for f in n._fields:
            if f.startswith('_'):
                continue
            v = getattr(n, f, None)
            for c in (v if isinstance(v, list) else [v]):
                if isinstance(c, ast.keyword):
                    out.append(c.value)
                elif isinstance(c, ast.expr):
                    out.append(c)
                elif isinstance(c, ast.comprehension):
                    out += [c.iter, c.target] + list(c.ifs)
        return out

    def skeleton(self, n):
        parts = [type(n).__name__]
        for f in n._fields:
            if f.startswith('_'):
                continue          # annotations of the pyct anno module live in an extra field
            v = getattr(n, f, None)
            for c in (v if isinstance(v, list) else [v]):
                if isinstance(c, ast.keyword):
                    parts.append('kw=%s' % c.arg)
                elif isinstance(c, (ast.expr, ast.comprehension)):
                    continue
                elif isinstance(c, ast.AST):
                    parts.append(type(c).__name__)
                elif c is not None:
                    parts.append(repr(c))
        return '|'.join(parts)

    def is_ag(self, n, name):
        return isinstance(n, ast.Call) and isinstance(n.func, ast.Attribute) and isinstance(n.func.value, ast.Name) \
            and n.func.value.id == 'ag__' and n.func.attr == name

    def thunk(self, n):
        if not (isinstance(n, ast.Lambda) and not n.args.args and not n.args.vararg and not n.args.kwarg and not n.args.kwonlyargs):
            raise Unsupported('operand of a lazy operator is not `lambda: ...`')
        return self.expr(n.body)

    def expr(self, n):
        if isinstance(n, ast.BoolOp):
            isand = 'true' if isinstance(n.op, ast.And) else 'false'
            vals = [self.expr(v) for v in n.values]
            out = vals[-1]
            for v in reversed(vals[:-1]):
                out = 'EBool %s (%s) (%s)' % (isand, v, out)
            return out
        if isinstance(n, ast.UnaryOp) and isinstance(n.op, ast.Not):
            return 'ENot (%s)' % self.expr(n.operand)
        if isinstance(n, ast.IfExp):
            return 'EIfExp (%s) (%s) (%s)' % (self.expr(n.test), self.expr(n.body), self.expr(n.orelse))
        if isinstance(n, ast.Compare):
            return 'ECmp (%s) %s' % (self.expr(n.left), self.lst('(%d, %s)' % (COPS[type(o)], self.expr(c))
                                                                 for o, c in zip(n.ops, n.comparators)))
        if self.is_ag(n, 'and_') or self.is_ag(n, 'or_'):
            if len(n.args) != 2 or n.keywords:
                raise Unsupported('and_/or_ call shape')
            return 'TBool %s (%s) (%s)' % ('true' if n.func.attr == 'and_' else 'false', self.thunk(n.args[0]), self.thunk(n.args[1]))
        if self.is_ag(n, 'not_'):
            if len(n.args) != 1 or n.keywords:
                raise Unsupported('not_ call shape')
            return 'TNot (%s)' % self.expr(n.args[0])
        if self.is_ag(n, 'if_exp'):
            if len(n.args) != 4 or n.keywords:
                raise Unsupported('if_exp call shape')
            return 'TIfExp (%s) (%s) (%s)' % (self.expr(n.args[0]), self.thunk(n.args[1]), self.thunk(n.args[2]))
        if self.is_ag(n, 'eq') or self.is_ag(n, 'not_eq'):
            if len(n.args) != 2 or n.keywords:
                raise Unsupported('eq call shape')
            return 'TEq %s (%s) (%s)' % ('true' if n.func.attr == 'not_eq' else 'false', self.expr(n.args[0]), self.expr(n.args[1]))
        if isinstance(n, (ast.Lambda, ast.ListComp, ast.SetComp, ast.DictComp, ast.GeneratorExp)):
            kids = [self.expr(c) for c in self.children(n) if not isinstance(getattr(c, 'ctx', None), (ast.Store, ast.Del))]
            return 'ELazy %d (EOp %d %s)' % (self.label(self.skeleton(n) + '|lazy'), self.label(self.skeleton(n)), self.lst(kids))
        kids = [self.expr(c) for c in self.children(n)]
        return 'EOp %d %s' % (self.label(self.skeleton(n)), self.lst(kids))


def statement_expressions(tree):
    """the maximal expression nodes of a function, in a fixed order"""
    out = []
    for n in ast.walk(tree):
        if isinstance(n, (ast.stmt, ast.ExceptHandler, ast.withitem)):
            for f in n._fields:
                if f.startswith('_'):
                    continue
                v = getattr(n, f, None)
                for c in (v if isinstance(v, list) else [v]):
                    if isinstance(c, ast.expr) and not isinstance(getattr(c, 'ctx', None), (ast.Store, ast.Del)):
                        out.append(c)
    return out
